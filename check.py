#!/usr/bin/env python3
"""check.py <Cxx> [--tier quick|thorough] [--replay file] — decide one property statically.

exit 0: every obligation of the claimed clauses discharged (known findings are printed)
exit 1: VIOLATION line(s)
exit 2: analysis broken / degraded (never a pass, never a violation)
"""
import sys, os, argparse, importlib, traceback
sys.path.insert(0, os.path.dirname(os.path.abspath(__file__)))
from vlib import tc, report


def main():
    ap = argparse.ArgumentParser()
    ap.add_argument("prop")
    ap.add_argument("--tier", default=os.environ.get("VERIF_TIER", "quick"), choices=["quick", "thorough"])
    ap.add_argument("--replay")
    ap.add_argument("--keep", action="store_true")
    a = ap.parse_args()
    seed = int(os.environ.get("VERIF_SEED", "0") or 0)
    mod = importlib.import_module("specs." + a.prop)
    work = tc.workdir(a.prop)
    try:
        if a.replay:
            rc = mod.replay(a.replay, work)
        else:
            rc = mod.run(a.tier, seed, work)
    except tc.AnalysisBroken as e:
        print("ANALYSIS-BROKEN property=%s %s" % (a.prop, str(e).replace("\n", " | ")[:3000]))
        rc = 2
    except Exception:
        traceback.print_exc()
        print("ANALYSIS-BROKEN property=%s internal error" % a.prop)
        rc = 2
    finally:
        if not a.keep:
            tc.cleanup(work)
    sys.exit(rc)


if __name__ == "__main__":
    main()
