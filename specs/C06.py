"""C06 — overflow is detected exactly, and handled as the overflow tag specifies.

Engine LINE (vlib/lines.py): for every operator x operand type pair x tag x detection path, one operand is pinned to
a boundary constant K and the other is free.  LLVM reduces the checked operation to a function of the free operand;
its ite tree partitions the operand's range into interval sets and an exact big-integer oracle says, for each part,
whether the exact result fits (plain result expected), lies above (maximum / positive signal) or below
(lowest / negative signal) the range of the result type.  A line is decided for *all* values of the free operand,
including the interior overflow boundary, on both the portable (clang) and the intrinsic (gcc) path.
"""
import random, math
from vlib import tc, kern, gate, iset, lines, report
from vlib.iset import ISet
from vlib.cty import *
from . import common

PROP = "C06"

TAGS = {"sat": "saturated_overflow_tag", "thr": "cnl::_impl::throwing_overflow_tag", "trap": "trapping_overflow_tag"}


def oi(T, tag):
    return "overflow_integer<%s, %s>" % (T.name, TAGS[tag])


def kset(T, op=None):
    ks = {T.min, T.min + 1, -2, -1, 0, 1, 2, 3, T.max - 1, T.max, T.max // 2, T.max // 2 + 1}
    if op == "*":
        r = math.isqrt(T.max)
        ks |= {r, r + 1, -r, -(r + 1), 16, -16}
    return sorted(k for k in ks if T.min <= k <= T.max)


def tdiv(a, b):
    q = abs(a) // abs(b)
    return q if (a < 0) == (b < 0) else -q


def mkset(T, lo, hi):
    if lo > hi:
        return ISet.empty(T.bits)
    return ISet.from_signed(T.bits, lo, hi) if T.signed else ISet.from_unsigned(T.bits, lo, hi)


def zones_for(f, F, R, direction, dom_lo=None, dom_hi=None):
    """zones of the free operand (type F) as ISets by class"""
    lo = F.min if dom_lo is None else dom_lo
    hi = F.max if dom_hi is None else dom_hi
    z = lines.zones_monotone(f, lo, hi, R.min, R.max, direction)
    return dict((k, (mkset(F, *v) if v else None, v)) for k, v in z.items())


class Line:
    def __init__(self, key, F, R, cnl, ref, zones, domain=None, pre=(), cfg="clang", tag="sat", meta=None, vname=None, exact=None):
        self.key, self.F, self.R, self.cnl, self.ref, self.zones, self.cfg, self.tag = key, F, R, cnl, ref, zones, cfg, tag
        self.domain = domain if domain is not None else ISet.full(F.bits)
        self.pre = list(pre)
        self.meta = meta or {}
        self.exact = exact
        self.vname = vname or ("b" if self.meta.get("side") == "lhs" else "a")
        self.verdict, self.details = None, []


def expectations(tag, R):
    if tag == "sat":
        return {"high": ("const", R.max), "low": ("const", R.min)}
    if tag == "thr":
        return {"high": ("throw", "positive"), "low": ("throw", "negative")}
    return {"high": ("trap", "positive"), "low": ("trap", "negative")}


def gen(tier, rng):
    L = []
    if tier == "quick":
        # one representative (at least) of every class {lhs narrower / same / wider} x {ss, uu, su, us}: a predicate that
        # looks at the wrong operand's type only shows when the widths differ in one particular direction (seeded change M-C07-1)
        pairs = [(I32, I32), (I32, I64), (I64, I32), (I8, I8), (I32, I8), (I64, I16),
                 (U32, U32), (U32, U64), (U64, U32), (U8, U8),
                 (I32, U32), (I16, U64), (I64, U32), (I64, U64),
                 (U32, I32), (U8, I8), (U64, I32), (U32, I64), (U64, U64), (I64, I64),
                 # operands below int that promote to (signed) int, where a product of two of them can leave int:
                 # the one class in which "the operation is done in a wider type, so it fits" is false (seeded change M-C07-3)
                 (U16, U16), (I16, U16), (I16, I16)]
        sig_pairs = [(I32, I32), (U32, I32), (I64, U64), (U8, U8)]
    else:
        ts = ALL64
        pairs = [(a, b) for a in ts for b in ts]
        sig_pairs = [(I32, I32), (U32, I32), (I64, U64), (U8, U8), (I8, U8), (I16, I64), (U64, U64), (I32, U32)]
    if tier == "quick":
        extra = [(p, q) for p in ALL64 for q in ALL64 if (p, q) not in pairs]
        sampled_pairs = common.sample(rng, extra, 4)      # seed-dependent part of the matrix
        pairs = pairs + sampled_pairs
    else:
        sampled_pairs = []
    for tag in ("sat", "thr", "trap"):
        plist = pairs if tag == "sat" else sig_pairs
        for (A, B) in plist:
            R = uac(A, B)
            for op in ("+", "-", "*", "/"):
                for cfg in (("clang", "gcc") if op != "/" else ("clang",)):
                    if tag != "sat" and cfg == "gcc" and op == "*":
                        continue
                    # ---- rhs pinned: a op K
                    for K in kset(B, op):
                        if tag != "sat" and K not in (B.min, -1, 0, 1, 2, B.max):
                            continue
                        if op == "/" and K == 0:
                            continue
                        f = {"+": lambda a, K=K: a + K, "-": lambda a, K=K: a - K, "*": lambda a, K=K: a * K, "/": lambda a, K=K: tdiv(a, K)}[op]
                        d = {"+": 1, "-": 1, "*": (K > 0) - (K < 0), "/": (K > 0) - (K < 0)}[op]
                        L.append(Line("%s/%s/%s%s%s/rhs=%d" % (cfg, tag, A.short, op, B.short, K), A, R,
                                      "return unwrap(wrap<%s>(a) %s wrap<%s>(%s));" % (oi(A, tag), op, oi(B, tag), B.lit(K)),
                                      "return a %s %s;" % (op, B.lit(K)), zones_for(f, A, R, d), cfg=cfg, tag=tag, exact=f,
                                      meta=dict(op=op, A=A.short, B=B.short, K=K, side="rhs")))
                    # ---- lhs pinned: K op b
                    for K in kset(A, op):
                        if tag != "sat" and K not in (A.min, -1, 0, 1, 2, A.max):
                            continue
                        if op == "/":
                            # K / b: never overflows except lowest / -1; zero divisor excluded
                            dom = ISet.full(B.bits) - mkset(B, 0, 0)
                            bad = mkset(B, -1, -1) if (B.signed and R.signed and K == R.min) else ISet.empty(B.bits)
                            z = {"ok": (dom - bad, (B.min, B.max)), "high": ((bad, (-1, -1)) if bad else (None, None)), "low": (None, None)}
                            L.append(Line("%s/%s/%s%s%s/lhs=%d" % (cfg, tag, A.short, op, B.short, K), B, R,
                                          "return unwrap(wrap<%s>(%s) / wrap<%s>(b));" % (oi(A, tag), A.lit(K), oi(B, tag)),
                                          "return %s / b;" % A.lit(K), z, domain=dom, pre=["b != 0"], cfg=cfg, tag=tag, exact=(lambda b, K=K: tdiv(K, b)), meta=dict(op=op, A=A.short, B=B.short, K=K, side="lhs")))
                            continue
                        f = {"+": lambda b, K=K: K + b, "-": lambda b, K=K: K - b, "*": lambda b, K=K: K * b}[op]
                        d = {"+": 1, "-": -1, "*": (K > 0) - (K < 0)}[op]
                        L.append(Line("%s/%s/%s%s%s/lhs=%d" % (cfg, tag, A.short, op, B.short, K), B, R,
                                      "return unwrap(wrap<%s>(%s) %s wrap<%s>(b));" % (oi(A, tag), A.lit(K), op, oi(B, tag)),
                                      "return %s %s b;" % (A.lit(K), op), zones_for(f, B, R, d), cfg=cfg, tag=tag, exact=f,
                                      meta=dict(op=op, A=A.short, B=B.short, K=K, side="lhs")))
        # ---- left shift: a << K (K a built-in int), K << b
        for A in ([I8, U8, I32, U32, I64, U64] if tag == "sat" else [I32, U8]):
            R = promote(A)
            for K in ([0, 1, 2, R.digits - 1, R.digits, R.bits - 1] if tag == "sat" else [1, R.digits - 1]):
                f = lambda a, K=K: a * (2 ** K)
                L.append(Line("clang/%s/%s<<int/rhs=%d" % (tag, A.short, K), A, R,
                              "return unwrap(wrap<%s>(a) << %d);" % (oi(A, tag), K), "return a << %d;" % K, zones_for(f, A, R, 1), tag=tag, exact=f,
                              meta=dict(op="<<", A=A.short, K=K, side="rhs")))
            for K in ([A.min, -1, 1, 2, 3, A.max] if tag == "sat" else [1, -1]):
                if not (A.min <= K <= A.max) or K == 0:
                    continue
                f = lambda b, K=K: K * (2 ** min(b, 200))
                dom = mkset(I32, 0, R.bits - 1)
                L.append(Line("clang/%s/%s<<int/lhs=%d" % (tag, A.short, K), I32, R,
                              "return unwrap(wrap<%s>(%s) << b);" % (oi(A, tag), A.lit(K)), "return %s << b;" % A.lit(K),
                              zones_for(f, I32, R, (K > 0) - (K < 0), 0, R.bits - 1), domain=dom, pre=["b >= 0", "b < %d" % R.bits], tag=tag, exact=f,
                              meta=dict(op="<<", A=A.short, K=K, side="lhs")))
        # ---- unary minus
        for A in (ALL64 if tag == "sat" else [I32, U32, I8]):
            R = promote(A)
            L.append(Line("clang/%s/-%s" % (tag, A.short), A, R, "return unwrap(-wrap<%s>(a));" % oi(A, tag), "return -a;", zones_for(lambda a: -a, A, R, -1), tag=tag, exact=(lambda a: -a), meta=dict(op="neg", A=A.short)))
        # ---- increment / decrement, prefix and postfix: the operand keeps its type, so the exact a +- 1 must fit it
        # (seeded change M-C11-5: the postfix forms re-dispatched with the native tag)
        for A in ([I8, U8, I16, U16, I32, U32, I64, U64] if tag == "sat" else [I32, U32, I8]):
            for nm, stmt, f, sgn in (("pre++", "++x;", (lambda a: a + 1), 1), ("post++", "x++;", (lambda a: a + 1), 1), ("pre--", "--x;", (lambda a: a - 1), 1), ("post--", "x--;", (lambda a: a - 1), 1)):
                L.append(Line("clang/%s/%s/%s" % (tag, nm, A.short), A, A, "auto x = wrap<%s>(a); %s return unwrap(x);" % (oi(A, tag), stmt),
                              "return static_cast<%s>(a %s 1);" % (A.name, "+" if "++" in nm else "-"), zones_for(f, A, A, sgn), tag=tag, exact=f, meta=dict(op=nm, A=A.short)))
        # ---- conversions (integer sources): exact iff inside the destination's range
        for S in (ALL64 if tag == "sat" else [I32, U32, I64]):
            for D in (ALL64 if tag == "sat" else [I8, U8, I32, U32]):
                forms = [("convert", "return convert<%s, %s>{}(a);" % (TAGS[tag], D.name)),
                         ("ctor", "return unwrap(%s{a});" % oi(D, tag)),
                         ("from-oi", "return unwrap(static_cast<%s>(wrap<%s>(a)));" % (oi(D, tag), oi(S, tag)))]
                for nm, body in (forms if tag == "sat" else forms[:2]):
                    L.append(Line("clang/%s/%s/%s->%s" % (tag, nm, S.short, D.short), S, D, body, "return (%s)a;" % D.name, zones_for(lambda a: a, S, D, 1), tag=tag, exact=(lambda a: a),
                                  meta=dict(op="convert", A=S.short, B=D.short)))
    sp = set((a.short, b.short) for a, b in sampled_pairs)
    for ln in L:
        if ln.meta.get("op") in ("+", "-", "*", "/") and (ln.meta.get("A"), ln.meta.get("B")) in sp:
            ln.meta["sampled"] = True
    return L


def run_lines(work, L):
    obs = []
    for ln in L:
        ob = kern.Ob(ln.key, ln.R.name, [(ln.F.name, ln.vname)], ln.cnl, [ln.ref], pre=ln.pre, cfg=ln.cfg, kind="line")
        ob.line = ln
        obs.append(ob)
    kern.run_obligations(work, obs, batch=30, second_chance=False)
    for ob in obs:
        ln = ob.line
        if ob.status != "compiled":
            ln.verdict, ln.details = "broken", [("broken", ob.detail)]
            continue
        try:
            gk = gate.gated(ob.mod, ob.fn)
            gr = gate.gated(ob.mod, ob.ref_fns[0])
        except (gate.Unsupported, RecursionError) as e:
            ln.verdict, ln.details = "undecided", [("undecided", "gated form unavailable: %r" % (e,))]
            continue
        var = ("arg", 0, "i%d" % ln.F.bits)
        zones = dict((k, v[1]) for k, v in ln.zones.items())
        zsets = dict((k, v[0]) for k, v in ln.zones.items())
        ln.verdict, ln.details = decide_sets(gk, gr, var, ln.domain, zsets, expectations(ln.tag, ln.R), ln.F.signed, ln.R.bits, ln.exact)
        ln.gk = gate.show(gk)
        ln.ir = ob.fn_text
    return obs


def decide_sets(gk, gref, var, domain, zsets, expect, signed_free, rbits, exact=None, okjudge=None):
    """lines.decide with zones given as ISets"""
    # adapt: lines.decide wants math intervals; wrap each ISet zone as its own pseudo-interval run
    verdict, details = "proved", []
    order = {"proved": 0, "undecided": 1, "refuted": 2}
    for zname, Z in zsets.items():
        if Z is None or not (Z & domain):
            continue
        ivs = (Z & domain).signed_intervals() if signed_free else list((Z & domain).ivs)
        for (a, b) in ivs:
            v, d = lines.decide(gk, gref, var, domain, {zname: (a, b)}, expect, signed_free, rbits, exact, okjudge)
            if order[v] > order[verdict]:
                verdict = v
            details += d
    return verdict, details


FLOOR = {"quick": 2500, "thorough": 10000}


def run(tier, seed, work):
    rng = random.Random(seed)
    r = report.Run(PROP, tier, seed, "other")
    L = gen(tier, rng)
    # positive controls: a saturating add with the wrong bound / an unchecked add must be refuted on their lines
    ctl = [Line("control/wrong-bound", I32, I32, "return a > 2147483647 - 5 ? 2147483646 : a + 5;", "return a + 5;", zones_for(lambda a: a + 5, I32, I32, 1), exact=lambda a: a + 5),
           Line("control/unchecked", I32, I32, "return a + 5;", "return a + 5;", zones_for(lambda a: a + 5, I32, I32, 1), exact=lambda a: a + 5),
           Line("control/off-by-one", I32, I32, "return a >= 2147483647 - 6 ? 2147483647 : a + 5;", "return a + 5;", zones_for(lambda a: a + 5, I32, I32, 1), exact=lambda a: a + 5),
           Line("control/correct", I32, I32, "return a > 2147483647 - 5 ? 2147483647 : a + 5;", "return a + 5;", zones_for(lambda a: a + 5, I32, I32, 1), exact=lambda a: a + 5)]
    run_lines(work, L + ctl)
    want = {"control/wrong-bound": "refuted", "control/unchecked": "refuted", "control/off-by-one": "refuted", "control/correct": "proved"}
    for c in ctl:
        if c.verdict != want[c.key]:
            r.broke("line control %s gave %s (expected %s): %s" % (c.key, c.verdict, want[c.key], [t for _, t in c.details[:2]]))
    cnt = {"proved": 0, "refuted": 0, "undecided": 0, "broken": 0}
    for ln in L:
        cnt[ln.verdict] += 1
        if ln.verdict == "refuted":
            sg = lambda t: "-" if not t else ("s" if t.startswith("i") else "u")
            codes = sorted(set(c for c, t in ln.details if c not in ("undecided",)))
            for code in codes:
                texts = [t for c, t in ln.details if c == code]
                fk = "%s/%s/%s%s/%s/%s" % (ln.cfg, ln.meta.get("op"), sg(ln.meta.get("A")), sg(ln.meta.get("B")), ln.tag, code)
                r.violation(ln.key + "#" + code, "%s: `%s`: %s" % (ln.key, ln.cnl, "; ".join(texts[:2])),
                            {"key": ln.key, "cnl": ln.cnl, "ref": ln.ref, "cfg": ln.cfg, "code": code, "details": texts, "gated": getattr(ln, "gk", None), "ir": getattr(ln, "ir", None), "meta": ln.meta, "finding_key": fk},
                            finding_key=fk, sampled=bool(ln.meta.get("sampled")))
        elif ln.verdict == "broken":
            r.broke("%s: %s" % (ln.key, [t for _, t in ln.details[:1]]))
    common.floor_check(r, "lines decided (proved or refuted)", cnt["proved"] + cnt["refuted"], FLOOR[tier])
    good = [ln for ln in L if ln.verdict == "proved"]
    und = [ln for ln in L if ln.verdict == "undecided"]
    r.coverage = {
        "explanation": "Each obligation is a 'line': a checked operation with one operand pinned to a boundary constant, decided for all values of the other operand by partitioning that operand's range with the ite tree of the optimised IR and comparing each part with an exact oracle (plain result / bound / signal of the right polarity). Decides exactness including the interior boundary along those lines; off-line interior points (both operands free) are not decided.",
        "evaluations": len(L), "distinct_nontrivial": cnt["proved"] + cnt["refuted"],
        "rule": "a line is non-trivial if it was fully decided (every part of the free operand's range matched or definitely mismatched the oracle)",
        "lines": len(L), "lines_proved": cnt["proved"], "lines_refuted": cnt["refuted"], "lines_undecided": cnt["undecided"],
        "undecided_samples": [{"key": u.key, "why": [t for _, t in u.details[:1]]} for u in und[:8]],
        "samples": [{"key": g.key, "cnl": g.cnl, "tree": g.gk[:300], "zones": dict((k, v[1]) for k, v in g.zones.items())} for g in rng.sample(good, min(6, len(good)))],
        "configurations": ["clang (portable is_overflow predicates)", "gcc (__builtin_*_overflow + polarity)"],
        "exhaustive": False,
    }
    r.assumptions = ["LLVM 14 -O2 preserves semantics", "kernels compiled without NDEBUG so internal contracts are visible calls"]
    return r.finish()


def replay(path, work):
    import json
    d = json.load(open(path))
    print(json.dumps({k: d[k] for k in ("key", "cnl", "ref", "details", "gated") if k in d}, indent=1))
    return 1
