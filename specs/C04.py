"""C04 — conversions preserve value or truncate toward zero at destination resolution.

EQ: integer -> integer between (RepS,Es) and (RepD,Ed), d = Es-Ed:
      d >= 0: == RepD(rs) * Radix^d evaluated in the destination rep (exact whenever the destination can hold it);
      d <  0: == RepD(rs / Radix^-d), C++ division: toward zero, evaluated in the (promoted) source rep;
    floating -> scaled == RepD(f * 2^-Ed) (truncating cast); scaled -> floating == F(rs) * 2^Es (exact power of two
    applied to the hardware's correctly rounded int->float);  wrap/unwrap, from_rep/to_rep == identity.
T:  result types of static_cast / construction.
"""
import random
from vlib import tc, kern, facts as factmod, report
from vlib.cty import *
from . import common
from .C01 import sname

PROP = "C04"

FLOATS = [("float", "F", 24), ("double", "", 53), ("long double", "L", 64)]


def flit(fname, suffix, e):
    """2^e as a literal of floating type"""
    if e >= 0:
        return "(%s)%d.0%s" % (fname, 2 ** e, "L")
    return "((%s)1.0 / (%s)%d.0L)" % (fname, fname, 2 ** -e)


def gen(tier, rng):
    obs, facts = [], []
    if tier == "quick":
        reps = [I8, U8, I16, I32, U32, I64]
        deltas = [-33, -8, -1, 0, 1, 8, 20, 33]
        cfgs = ["clang"]
        radixes = [2, 10]
    else:
        reps = ALL64
        deltas = [-40, -33, -16, -8, -3, -1, 0, 1, 3, 8, 16, 20, 33, 40]
        cfgs = ["clang", "gcc"]
        radixes = [2, 10]
    for cfg in cfgs:
        for radix in radixes:
            for S in reps:
                PS = promote(S)
                for D in reps:
                    for d in deltas:
                        if radix == 10 and abs(d) > 8:
                            continue
                        mag = radix ** abs(d)
                        # the factor must be representable where the property applies it
                        if d >= 0 and mag > D.max:
                            continue
                        if d < 0 and mag > PS.max:
                            continue
                        for es in ([-4] if tier == "quick" else [-4, 30]):
                            ed = es - d
                            if abs(ed) > 70:
                                continue
                            TS, TD = sname(S.name, es, radix), sname(D.name, ed, radix)
                            if d >= 0:
                                ref = "return (%s)((%s)a * %s);" % (D.name, D.name, D.lit(mag))
                                # D11: the library scales in the (promoted) source rep and widens afterwards
                                if mag <= PS.max:
                                    alts = [("D11/scaled-in-source-rep-then-widened", "return (%s)(a * %s);" % (D.name, PS.lit(mag)))]
                                else:
                                    # the factor itself does not fit the source rep: for an unsigned source the library evaluates
                                    # 1u << d with d >= width (undefined; LLVM folds the conversion to undef)
                                    alts = [("D11/factor-does-not-fit-unsigned-source-rep", "%s u; return u;" % D.name)] if not S.signed else []
                            else:
                                ref = "return (%s)(a / %s);" % (D.name, PS.lit(mag))
                                alts = []
                            for form, cnl in (("static_cast", "return unwrap(static_cast<%s>(wrap<%s>(a)));" % (TD, TS)),
                                              ("ctor", "return unwrap(%s{wrap<%s>(a)});" % (TD, TS))):
                                if form == "ctor" and tier == "quick" and (d not in (-8, 1, 20)):
                                    continue
                                obs.append(kern.Ob("%s/int-int/r%d/%s@%d->%s@%d/%s" % (cfg, radix, S.short, es, D.short, ed, form), D.name, [(S.name, "a")], cnl, [ref], alts=alts, cfg=cfg,
                                                   may_reject=(d >= 0 and mag > PS.max and S.signed),
                                                   meta=dict(anchor="include/cnl/_impl/scaled/convert_operator.h (integer -> integer); num_traits/scale.h", d=d)))
            if radix == 2:
                # different radices (10 <-> 2, 3 -> 10): exact value re-expressed at the destination's resolution, truncated
                # toward zero, i.e. every multiplication before any division (seeded changes M-C04-3 / M-C04-4 divide first
                # when both exponents are positive); operands restricted so that the scaled numerator fits the destination rep
                for (S, D) in ([(I32, I64), (I64, I64), (I16, I32), (U32, I64)] if tier == "quick" else [(I32, I64), (I64, I64), (I16, I32), (U32, I64), (I8, I32), (U16, U64), (I32, I32)]):
                    for (rs, rd) in ((10, 2), (2, 10), (3, 10)):
                        for (es, ed) in ((2, 3), (3, 1), (1, 1), (-2, -3), (-1, -4), (2, -3), (-2, 3), (0, 2), (2, 0), (0, -2), (-2, 0)):
                            N = rs ** max(es, 0) * rd ** max(-ed, 0)
                            Dn = rs ** max(-es, 0) * rd ** max(ed, 0)
                            # the library scales in the (promoted) source rep before widening (known finding D11): the claim
                            # here is the ORDER of the scalings, so operands are kept where that product fits the source rep
                            lim = min(D.max // N, S.max // N)
                            if lim < 8:
                                continue
                            TS, TD = sname(S.name, es, rs), sname(D.name, ed, rd)
                            pre = ["a <= %s" % S.lit(lim)] + (["a >= %s" % S.lit(-lim)] if S.signed else [])
                            refs = ["return (%s)(((%s)a * %s) / %s);" % (D.name, D.name, D.lit(N), D.lit(Dn))]
                            obs.append(kern.Ob("%s/int-int/cross-radix/%s@%d^%d->%s@%d^%d" % (cfg, S.short, es, rs, D.short, ed, rd), D.name, [(S.name, "a")],
                                               "return unwrap(static_cast<%s>(wrap<%s>(a)));" % (TD, TS), refs, pre=pre, cfg=cfg, may_reject=True,
                                               meta=dict(anchor="include/cnl/_impl/scaled/convert_operator.h (integer -> integer, different radixes)", d=0)))
            # built-in integer <-> scaled_integer
            for S in reps:
                PS = promote(S)
                for D in reps:
                    for e in ([-5, 3] if tier == "quick" else [-20, -5, -1, 0, 1, 3, 12]):
                        if abs(e) > 8 and radix == 10:
                            continue
                        mag = radix ** abs(e)
                        TD = sname(D.name, e, radix)
                        # int -> scaled (source exponent 0, d = -e)
                        if (e <= 0 and mag <= D.max) or (e > 0 and mag <= PS.max):
                            if e <= 0:
                                ref = "return (%s)((%s)a * %s);" % (D.name, D.name, D.lit(mag))
                                alts = [("D11/scaled-in-source-rep-then-widened", "return (%s)(a * %s);" % (D.name, PS.lit(mag)))] if mag <= PS.max else []
                            else:
                                ref = "return (%s)(a / %s);" % (D.name, PS.lit(mag))
                                alts = []
                            obs.append(kern.Ob("%s/builtin->scaled/r%d/%s->%s@%d" % (cfg, radix, S.short, D.short, e), D.name, [(S.name, "a")],
                                               "return unwrap(%s{a});" % TD, [ref], alts=alts, cfg=cfg, meta=dict(d=-e)))
                        # scaled -> int (destination exponent 0, d = e)
                        TS = sname(S.name, e, radix)
                        if (e >= 0 and mag <= D.max) or (e < 0 and mag <= PS.max):
                            if e >= 0:
                                ref = "return (%s)((%s)a * %s);" % (D.name, D.name, D.lit(mag))
                                alts = [("D11/scaled-in-source-rep-then-widened", "return (%s)(a * %s);" % (D.name, PS.lit(mag)))] if mag <= PS.max else []
                            else:
                                ref = "return (%s)(a / %s);" % (D.name, PS.lit(mag))
                                alts = []
                            obs.append(kern.Ob("%s/scaled->builtin/r%d/%s@%d->%s" % (cfg, radix, S.short, e, D.short), D.name, [(S.name, "a")],
                                               "return static_cast<%s>(wrap<%s>(a));" % (D.name, TS), [ref], alts=alts, cfg=cfg, meta=dict(d=e)))
        # floating <-> scaled (radix 2)
        for (fn, suf, mant) in FLOATS:
            for R in reps:
                for e in ([-20, -4, 0, 6] if tier == "quick" else [-70, -40, -20, -4, -1, 0, 1, 6, 30, 70]):
                    T = sname(R.name, e)
                    obs.append(kern.Ob("%s/float->scaled/%s->%s@%d" % (cfg, fn, R.short, e), R.name, [(fn, "f")],
                                       "return unwrap(%s{f});" % T,
                                       ["return (%s)(f * %s);" % (R.name, flit(fn, suf, -e))], cfg=cfg,
                                       meta=dict(anchor="include/cnl/_impl/scaled/convert_operator.h (floating -> integer)")))
                    obs.append(kern.Ob("%s/scaled->float/%s@%d->%s" % (cfg, R.short, e, fn), fn, [(R.name, "a")],
                                       "return static_cast<%s>(wrap<%s>(a));" % (fn, T),
                                       ["return (%s)a * %s;" % (fn, flit(fn, suf, e))], cfg=cfg,
                                       meta=dict(anchor="include/cnl/_impl/scaled/convert_operator.h (integer -> floating)")))
        # elastic reps narrowing the exponent by k digits: C++ division toward zero by 2^k in the source rep, with k at and
        # around the digit boundaries of the built-in type the divisor lives in (seeded change M-C04-6: the divisor 1 << 31
        # built in a 32-bit signed type)
        if cfg == "clang":
            for (E, ra, ks) in (("elastic_integer<40>", "long", [30, 31, 32, 33]), ("elastic_integer<40, unsigned>", "unsigned long", [31, 32, 33]),
                                ("elastic_integer<20>", "int", [15, 16, 19]), ("elastic_integer<62>", "long", [31, 61])):
                dg = int(E.split("<")[1].split(",")[0].rstrip(">"))
                for k in ks:
                    TS, TD = "scaled_integer<%s, power<%d>>" % (E, -k), "scaled_integer<%s, power<0>>" % E
                    pre = ["a <= %d" % (2 ** dg - 1)] + (["a >= %d" % -(2 ** dg - 1)] if "unsigned" not in E else [])
                    rr = "decltype(unwrap(std::declval<%s>()))" % TD
                    obs.append(kern.Ob("clang/int-int/elastic/%s/drop%d" % (E, k), rr, [(ra, "a")], "return unwrap(static_cast<%s>(wrap<%s>(a)));" % (TD, TS),
                                       ["return (%s)(a / ((%s)1 << %d));" % (rr, ra, k)], pre=pre, cfg=cfg,
                                       meta=dict(anchor="include/cnl/_impl/elastic_integer/scale.h (negative shift)")))
        # exact inverses
        nests = ["scaled_integer<%s, power<-7>>", "overflow_integer<%s, saturated_overflow_tag>", "rounding_integer<%s, nearest_rounding_tag>",
                 "scaled_integer<overflow_integer<%s, native_overflow_tag>, power<3>>", "scaled_integer<rounding_integer<overflow_integer<%s, cnl::_impl::throwing_overflow_tag>, neg_inf_rounding_tag>, power<-1>>",
                 "elastic_integer<20, %s>", "scaled_integer<elastic_integer<13, %s>, power<-13>>"]
        for nt in nests:
            for R in ([I8, I32, U64] if tier == "quick" else reps):
                T = nt % R.name
                rr = "decltype(unwrap(std::declval<%s>()))" % T
                obs.append(kern.Ob("%s/identity/unwrap-wrap/%s" % (cfg, T), rr, [(rr, "a")], "return unwrap(wrap<%s>(a));" % T, ["return a;"], cfg=cfg))
                obs.append(kern.Ob("%s/identity/to_rep-from_rep/%s" % (cfg, T), "cnl::_impl::rep_of_t<%s>" % T, [("cnl::_impl::rep_of_t<%s>" % T, "a")],
                                   "return cnl::_impl::to_rep(cnl::_impl::from_rep<%s>(a));" % T, ["return a;"], cfg=cfg))
                obs.append(kern.Ob("%s/identity/wrap-unwrap/%s" % (cfg, T), rr, [(rr, "a")], "auto x = wrap<%s>(a); return unwrap(wrap<%s>(unwrap(x)));" % (T, T), ["return a;"], cfg=cfg))
                if cfg == "clang":
                    facts.append(factmod.Fact("type/wrap/%s" % T, "std::is_same_v<decltype(wrap<%s>(std::declval<%s>())), %s>" % (T, rr, T), 1))
    for S in reps:
        for D in reps:
            facts.append(factmod.Fact("type/static_cast/%s->%s" % (S.short, D.short),
                                      "std::is_same_v<decltype(static_cast<%s>(std::declval<%s>())), %s>" % (sname(D.name, -3), sname(S.name, 5), sname(D.name, -3)), 1))
    return obs, facts


FLOOR = {"quick": dict(eq=900, facts=40, limb=18), "thorough": dict(eq=8000, facts=100, limb=33)}


def limb_plan(tier):
    """conversions that involve MULTI-LIMB reps, for all limb values (limb algebra, DESIGN 2.5b): to a finer exponent in the
    same rep (multiply by 2^d), to a wider multi-limb rep (sign / zero extension), from a built-in rep, to a built-in rep
    (truncation).  Widening AND rescaling at once is left out: that is recorded finding D11 (scaling in the source rep)."""
    from vlib import limbalg as la
    src, plan = tc.PRELUDE["clang"], []
    reps = [("cnl::wide_integer<200, int>", 224, 32, True), ("cnl::wide_integer<129, std::uint64_t>", 192, 64, False), ("cnl::wide_integer<255, std::int64_t>", 256, 64, True)]
    wider = {"cnl::wide_integer<200, int>": ("cnl::wide_integer<300, int>", 320), "cnl::wide_integer<129, std::uint64_t>": ("cnl::wide_integer<500, std::uint64_t>", 512),
             "cnl::wide_integer<255, std::int64_t>": ("cnl::wide_integer<400, std::int64_t>", 448)}
    ds = [1, 10, 37] if tier == "quick" else [1, 7, 10, 31, 32, 37, 64, 100]
    k = 0

    def add(key, text, A, B, opds, spec):
        nonlocal src, k
        f = "ck%d" % k
        k += 1
        src += 'extern "C" %s %s(%s a) { return static_cast<%s>(a); }\n' % (B, f, A, B)
        plan.append((key, text, f, opds, None, spec))
    for (R, W, L, sg) in reps:
        short = R.replace("cnl::", "").replace("std::", "")
        for d in ds:
            A, B = "cnl::scaled_integer<%s, cnl::power<%d>>" % (R, -3), "cnl::scaled_integer<%s, cnl::power<%d>>" % (R, -3 - d)
            add("limb/finer/%s/%d" % (short, d), "scaled_integer<%s, power<%d>>{scaled_integer<.., power<-3>>}" % (short, -3 - d), A, B, [("a", W, L)],
                lambda cx, v, RW, d=d, W=W, sg=sg: la.pscale(la.sval(cx, v[0], W) if sg else v[0], 1 << d))
        R2, W2 = wider[R]
        add("limb/wider/%s" % short, "%s{%s}" % (R2.replace("cnl::", ""), short), R, R2, [("a", W, L)], lambda cx, v, RW, W=W, sg=sg: la.sval(cx, v[0], W) if sg else v[0])
        B = "std::int64_t" if sg else "std::uint64_t"
        add("limb/from-builtin/%s" % short, "%s{%s}" % (short, B), B, R, [("a", 64, min(L, 64))], lambda cx, v, RW, sg=sg: la.sval(cx, v[0], 64) if sg else v[0])
        add("limb/to-builtin/%s" % short, "static_cast<%s>(%s)" % (B, short), R, B, [("a", W, L)], lambda cx, v, RW: v[0])
    return src, plan


def run(tier, seed, work):
    rng = random.Random(seed)
    r = report.Run(PROP, tier, seed, "translation_validation")
    obs, facts = gen(tier, rng)
    ctl, fctl = common.controls(), common.fact_controls()
    kern.run_obligations(work, obs + ctl)
    factmod.run_facts(work, facts + fctl)
    common.check_controls(r, ctl)
    common.check_fact_controls(r, fctl)

    def describe(ob):
        if ob.matched_alt:
            return "%s: `%s` scales by Radix^%d in the source rep and converts afterwards (== `%s`), not `%s`" % (ob.key, ob.cnl, ob.meta.get("d", 0), [b for k, b in ob.alts if k == ob.matched_alt][0], ob.refs[0])
        return None
    n = common.settle_eq(r, obs, describe)
    nf = common.settle_facts(r, facts)
    common.floor_check(r, "kernel pairs proved", n["proved"], FLOOR[tier]["eq"])
    common.floor_check(r, "type facts proved", nf["proved"], FLOOR[tier]["facts"])
    lsrc, lplan = limb_plan(tier)
    lcnt = common.limb_block(r, work, "c04limb", lsrc, lplan, seed, FLOOR[tier]["limb"], "multi-limb conversion obligations proved")
    good = [o for o in obs if o.status == "proved"]
    r.coverage = {
        "programs": len(obs), "disagreements_checked": n["refuted"], "kernel_pairs_proved": n["proved"], "kernel_pairs_refuted": n["refuted"],
        "refuted_matching_recorded_defect": sum(1 for o in obs if o.matched_alt),
        "type_facts": len(facts), "type_facts_proved": nf["proved"],
        "multi_limb_obligations": len(lplan), "multi_limb_proved": lcnt["proved"], "multi_limb_refuted": lcnt["refuted"], "multi_limb_undecided": lcnt["undecided"],
        "rule": "conversion kernel == spec kernel (multiply in the destination rep / divide toward zero in the source rep / exact power-of-two factor on the hardware int<->float conversion / identity)",
        "samples": [{"key": o.key, "cnl": o.cnl, "ref": o.refs[o.matched_ref], "normal_form": o.nf_cnl.pretty} for o in rng.sample(good, min(6, len(good)))],
        "exhaustive": tier == "thorough",
    }
    r.assumptions = ["source values within the destination's range (outside it the property leaves the result undefined; both kernels wrap identically)",
                     "correct rounding of int->float is the hardware/compiler conversion; the power-of-two factor is exact in binary floating point"]
    return r.finish()


def replay(path, work):
    from .C12 import replay as rp
    return rp(path, work)
