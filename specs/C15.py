"""C15 — literals, parsing and constant-driven deduction yield exactly the written value.

Decided (structure of the parser's tables, type-level deductions, and the types of a stratified sample of literals):
 A1 EQ  make_scale_op(B)(x) == x * B                          (per-digit scale is the base)
 A2 EQ  make_scale_op_chunk<Sum>(B)(x) == x * B^stride(B)     (chunk factor agrees with the stride scan_base announces)
 A3 EQ  make_char_to_digit_positive(B)(c) == digit value of c, make_char_to_digit_negative(B)(c) == -digit value,
        on every valid character class (the two tables are negations of each other and cover the same ranges)
 A4 IR  rows (base, stride, bit-width estimate) read from the scan_msb call sites in scan_base: B^stride - 1 fits the
        int64 accumulator; the bit-width estimate per digit is >= log2(B)
 T      types deduced from values: make_elastic_integer, make_elastic_scaled_integer, make_scaled_integer,
        make_static_integer, make_static_number, CTAD — digits = numeric_limits<Input>::digits, signedness adopted,
        exponent preserved.
 L      the TYPE of a user-defined literal (digits, exponent, radix) and its constant rep, for a stratified token sample
        (base x length x separator placement before/after the radix point x leading/trailing zeros), against exact
        rational arithmetic on the spelling.  These are compile-fail witnesses: the front end computes the literal's
        type while type-checking.  They settle the sampled tokens only, not "every well-formed token".
Not decided: that every token or constant<V> yields exactly its value / used-digit count (scan_base's and parse_string's
loops over the characters are not analysed; the sample covers the structural cases the scan distinguishes).
"""
import random, re, os, math
from vlib import tc, kern, ir, facts as factmod, report
from vlib.cty import *
from . import common

PROP = "C15"
I = "cnl::_impl::"


def scan_rows(work):
    src = os.path.join(work, "scan.cpp")
    open(src, "w").write(tc.PRELUDE["clang"] + 'extern "C" void use(char const* s, int n, cnl::_impl::params* o) { *o = cnl::_impl::scan_string(s, n); }\n')
    out = os.path.join(work, "scan.ll")
    rc, so, se, cmd = tc.clang_ll(src, out, "o1ni")
    if rc != 0:
        raise tc.AnalysisBroken("scan TU does not compile: " + se[:1500])
    mod = ir.parse_module(open(out).read())
    rows = []
    for n, f in mod.functions.items():
        if "scan_base" not in n:
            continue
        defs = dict((m.group(1), m.group(2)) for lab in f.order for l in f.blocks[lab] for m in [re.match(r"^(%\S+)\s*=\s*(.*)$", l)] if m)
        for lab in f.order:
            for l in f.blocks[lab]:
                if "scan_msb" in l and "call" in l:
                    args = [a.strip().split(" ")[-1] for a in ir._split_top(re.search(r"@\w+\((.*)\)", l).group(1))]
                    # (sret, str, is_negative, base, stride, offset, max_num_bits, num_digits, num_fractional_digits)
                    base, stride, bitsv, nd = args[3], args[4], args[6], args[7]
                    if not (base.isdigit() and stride.isdigit()):
                        raise tc.AnalysisBroken("scan_msb call with non-constant base/stride: " + l[:200])
                    # bit-width estimate as a function of num_digits: coefficient num/den
                    est = None
                    if bitsv == nd:
                        est = (1, 1, 0)
                    elif bitsv in defs:
                        d = defs[bitsv]
                        m = re.match(r"^(?:shl|mul)(?: nsw| nuw)* i32 (%\S+), (\d+)$", d)
                        if m and m.group(1) == nd:
                            est = ((1 << int(m.group(2))) if d.startswith("shl") else int(m.group(2)), 1, 0)
                        m = re.match(r"^(?:sdiv|udiv)(?: exact)? i32 (%\S+), (\d+)$", d)
                        if m and m.group(1) in defs:
                            den = int(m.group(2))
                            d2 = defs[m.group(1)]
                            m2 = re.match(r"^add(?: nsw| nuw)* i32 (%\S+), (\d+)$", d2)
                            if m2 and m2.group(1) in defs:
                                m3 = re.match(r"^mul(?: nsw| nuw)* i32 (%\S+), (\d+)$", defs[m2.group(1)])
                                if m3 and m3.group(1) == nd:
                                    est = (int(m3.group(2)), den, int(m2.group(2)))
                    rows.append(dict(base=int(base), stride=int(stride), estimate=est, call=l[:160]))
    return rows


def gen_eq(rows):
    obs = []
    strides = dict((r["base"], r["stride"]) for r in rows)
    for B in (2, 8, 10, 16):
        obs.append(kern.Ob("scale_op/%d" % B, "std::int64_t", [("std::int64_t", "x")], "return %smake_scale_op(%d)(x);" % (I, B), ["return x * %d;" % B],
                           meta=dict(anchor="include/cnl/_impl/parse.h make_scale_op")))
        st = strides.get(B)
        if st is None:
            continue
        for Sum, lit in (("std::int64_t", "(std::int64_t)"), ("cnl::int128_t", "(cnl::int128_t)")):
            f = B ** st
            flit = "(%s((unsigned __int128)%dULL << 64 | %dULL))" % (lit, f >> 64, f & ((1 << 64) - 1)) if f >= (1 << 63) else "%s%dLL" % (lit, f)
            obs.append(kern.Ob("scale_op_chunk/%s/%d^%d" % (Sum, B, st), Sum, [(Sum, "x")], "return %smake_scale_op_chunk<%s>(%d)(x);" % (I, Sum, B), ["return (%s)(x * %s);" % (Sum, flit)],
                               meta=dict(anchor="include/cnl/_impl/parse.h make_scale_op_chunk vs scan_base stride")))
    classes = {2: [("'0'", "'1'", "c - '0'")], 8: [("'0'", "'7'", "c - '0'")], 10: [("'0'", "'9'", "c - '0'")],
               16: [("'0'", "'9'", "c - '0'"), ("'a'", "'f'", "c - 'a' + 10"), ("'A'", "'F'", "c - 'A' + 10")]}
    for B, cl in classes.items():
        for (lo, hi, val) in cl:
            pre = ["c >= %s" % lo, "c <= %s" % hi]
            obs.append(kern.Ob("digit+/%d/%s-%s" % (B, lo, hi), "int", [("char", "c")], "return %smake_char_to_digit_positive(%d)(c);" % (I, B), ["return %s;" % val], pre=pre))
            obs.append(kern.Ob("digit-/%d/%s-%s" % (B, lo, hi), "int", [("char", "c")], "return %smake_char_to_digit_negative(%d)(c);" % (I, B), ["return -(%s);" % val], pre=pre))
            obs.append(kern.Ob("digit/select-/%d/%s-%s" % (B, lo, hi), "int", [("char", "c")], "return %smake_char_to_digit(true, %d)(c);" % (I, B), ["return -(%s);" % val], pre=pre))
            obs.append(kern.Ob("digit/select+/%d/%s-%s" % (B, lo, hi), "int", [("char", "c")], "return %smake_char_to_digit(false, %d)(c);" % (I, B), ["return %s;" % val], pre=pre))
    return obs


def gen_facts():
    F = []
    for T in (I8, U8, I16, U16, I32, U32, I64, U64):
        sgn = "int" if T.signed else "unsigned"
        F.append(factmod.Fact("make_elastic_integer/%s/digits" % T.short, "cnl::digits_v<decltype(cnl::make_elastic_integer(std::declval<%s>()))>" % T.name, T.digits))
        F.append(factmod.Fact("make_elastic_integer/%s/signed" % T.short, "cnl::numbers::signedness_v<decltype(cnl::make_elastic_integer(std::declval<%s>()))>" % T.name, 1 if T.signed else 0))
        F.append(factmod.Fact("make_elastic_scaled_integer/%s/digits" % T.short, "cnl::digits_v<decltype(cnl::make_elastic_scaled_integer(std::declval<%s>()))>" % T.name, T.digits))
        F.append(factmod.Fact("make_elastic_scaled_integer/%s/exponent" % T.short, "cnl::_impl::tag_of_t<decltype(cnl::make_elastic_scaled_integer(std::declval<%s>()))>::exponent" % T.name, 0))
        F.append(factmod.Fact("make_elastic_scaled_integer/%s/signed" % T.short, "cnl::numbers::signedness_v<decltype(cnl::make_elastic_scaled_integer(std::declval<%s>()))>" % T.name, 1 if T.signed else 0))
        F.append(factmod.Fact("make_scaled_integer/%s" % T.short, "std::is_same_v<decltype(cnl::make_scaled_integer(std::declval<%s>())), cnl::scaled_integer<%s, cnl::power<0>>>" % (T.name, T.name), 1))
        # class template argument deduction is only available through the underlying class template (scaled_integer and
        # elastic_integer are alias templates): _impl::wrapper{value, tag} is not a public spelling, so CTAD facts use cnl::fraction
        F.append(factmod.Fact("ctad/fraction/%s" % T.short, "std::is_same_v<decltype(cnl::fraction{std::declval<%s>()}), cnl::fraction<%s, %s>>" % (T.name, T.name, T.name), 1))
        F.append(factmod.Fact("make_static_integer/%s/digits" % T.short, "cnl::digits_v<decltype(cnl::_impl::make_static_integer(std::declval<%s>()))>" % T.name, T.digits))
        F.append(factmod.Fact("make_static_number/%s/digits" % T.short, "cnl::digits_v<decltype(cnl::make_static_number(std::declval<%s>()))>" % T.name, T.digits))
        for e in (-20, -3, 0, 7):
            S = "cnl::scaled_integer<%s, cnl::power<%d>>" % (T.name, e)
            F.append(factmod.Fact("make_elastic_scaled_integer/from-scaled/%s@%d/exponent" % (T.short, e), "cnl::_impl::tag_of_t<decltype(cnl::make_elastic_scaled_integer(std::declval<%s>()))>::exponent" % S, e))
            F.append(factmod.Fact("make_elastic_scaled_integer/from-scaled/%s@%d/digits" % (T.short, e), "cnl::digits_v<decltype(cnl::make_elastic_scaled_integer(std::declval<%s>()))>" % S, T.digits))
    # constant<V>: digits are those the value uses, whatever the TYPE of the template argument (seeded change M-C15-4 took
    # max(V, -V), which wraps for unsigned arguments)
    for lit_, val in (("5U", 5), ("40U", 40), ("1000UL", 1000), ("1ULL", 1), ("255U", 255), ("256U", 256), ("5", 5), ("-5", -5), ("-32", -32), ("1000L", 1000), ("2147483647", 2147483647),
                      ("4294967295U", 4294967295), ("9223372036854775807LL", 2 ** 63 - 1), ("std::size_t{6}", 6)):
        want = abs(val).bit_length()
        F.append(factmod.Fact("constant/%s/digits" % lit_, "cnl::digits_v<cnl::constant<%s>>" % lit_, want))
        F.append(factmod.Fact("constant/%s/make_elastic_integer/digits" % lit_, "cnl::digits_v<decltype(cnl::make_elastic_integer(cnl::constant<%s>{}))>" % lit_, max(want, 1) if val else None, may_reject=True)
                 if val else factmod.Fact("constant/%s/noop" % lit_, "1", 1))
    for lit_, val in (("40U", 40), ("40", 40), ("48UL", 48), ("1024ULL", 1024), ("-96", -96), ("7U", 7)):
        tz = (abs(val) & -abs(val)).bit_length() - 1
        F.append(factmod.Fact("constant/%s/make_elastic_scaled_integer/exponent" % lit_, "cnl::_impl::tag_of_t<decltype(cnl::make_elastic_scaled_integer(cnl::constant<%s>{}))>::exponent" % lit_, tz, may_reject=True))
        F.append(factmod.Fact("constant/%s/make_elastic_scaled_integer/digits" % lit_, "cnl::digits_v<decltype(cnl::make_elastic_scaled_integer(cnl::constant<%s>{}))>" % lit_, (abs(val) >> tz).bit_length(), may_reject=True))
    return F


def _sep(digs, every, rng=None):
    """insert digit separators into a digit string: every `every` digits from the right (0: none)"""
    if not every or len(digs) <= every:
        return digs
    out, k = "", 0
    for ch in reversed(digs):
        if k and k % every == 0:
            out = "'" + out
        out = ch + out
        k += 1
    return out


def literal_tokens(tier, rng):
    """stratified tokens: base x length x separator placement (none / before the point / after the point / both) x
    trailing and leading zeros; each with the exact (significand, exponent, radix) its spelling denotes"""
    T = []   # (token text without suffix, suffix, N, base, fractional digits)
    nper = 2 if tier == "quick" else 8
    for n in (1, 2, 3, 5, 9, 10, 18, 19):
        for k in range(nper):
            d = str(rng.randint(1, 9)) + "".join(rng.choice("0123456789") for _ in range(n - 1))
            if int(d) > 2 ** 63 - 1:
                d = "9" + d[1:-1]
            for ev in (0, 3):
                T.append((_sep(d, ev), "_cnl", int(d), 10, 0))
    for ip in (0, 1, 2, 4, 7):
        for fp in (1, 2, 3, 4, 6, 9, 12):
            for k in range(nper):
                a = "" if ip == 0 else str(rng.randint(1, 9)) + "".join(rng.choice("0123456789") for _ in range(ip - 1))
                b = "".join(rng.choice("0123456789") for _ in range(fp))
                if k % 3 == 1:
                    b = "0" * (fp - 1) + str(rng.randint(1, 9))      # leading zeros after the point
                if k % 3 == 2 and fp > 1:
                    b = b[:-1].rstrip("0") + "5" + "0" * (fp - len(b[:-1].rstrip("0")) - 1)   # trailing zeros
                    b = (b + "0" * fp)[:fp]
                if int((a or "0") + b) == 0:
                    continue
                for (ea, eb) in ((0, 0), (3, 0), (0, 3), (3, 3), (0, 1)):
                    if (ea and len(a) <= ea) or (eb and len(b) <= eb):
                        continue
                    tok = (_sep(a, ea) if a else ("0" if k % 2 else "")) + "." + "'".join(b[i:i + eb] for i in range(0, len(b), eb)) if eb else (_sep(a, ea) if a else ("0" if k % 2 else "")) + "." + b
                    T.append((tok, "_cnl", int((a or "0") + b), 10, fp))
    for base, pre, alphabet, lens in ((16, "0x", "0123456789abcdefABCDEF", (1, 2, 4, 8, 15)), (8, "0", "01234567", (1, 2, 5, 11, 20)), (2, "0b", "01", (1, 3, 8, 31, 62))):
        for n in lens:
            for k in range(nper):
                d = rng.choice(alphabet.replace("0", "")) + "".join(rng.choice(alphabet) for _ in range(n - 1))
                if k == 1 and n > 1:
                    d = d[0] + "0" * (n - 1)
                for ev in (0, 4):
                    T.append(((pre.upper() if k % 2 and base != 8 else pre) + _sep(d, ev), "_cnl", int(d, base), base, 0))
                T.append((pre + _sep(d, 4), "_cnl2", int(d, base), base, 0))
    for f in range(1, 13):
        for k in range(nper):
            num = rng.randrange(1, 2 ** (f + 6), 2)
            # num / 2^f has exactly f decimal digits after the point
            scaled = num * 5 ** f
            ds = str(scaled).rjust(f + 1, "0")
            a, b = ds[:-f], ds[-f:]
            for (ea, eb) in ((0, 0), (0, 3), (3, 3), (0, 2)):
                if (ea and len(a) <= ea) or (eb and len(b) <= eb):
                    continue
                tok = _sep(a, ea) + "." + ("'".join(b[i:i + eb] for i in range(0, len(b), eb)) if eb else b)
                T.append((tok, "_cnl2", scaled, 10, f))
    seen, out = set(), []
    for t in T:
        if (t[0], t[1]) not in seen:
            seen.add((t[0], t[1]))
            out.append(t)
    return out


def literal_oracle(N, base, f, suffix):
    """the value N * base^-f as the normalised (significand, exponent, radix) the literal's type and rep must carry"""
    from fractions import Fraction
    V = Fraction(N, base ** f)
    R = base if suffix == "_cnl" else 2
    e = 0
    while V.denominator != 1:
        V *= R
        e -= 1
        if e < -200:
            return None          # not representable in radix R (the library must reject it)
    M = V.numerator
    while M % R == 0:
        M //= R
        e += 1
    return M, e, R


def gen_literal_facts(tier, rng):
    """Type-level facts about user-defined literals: the exponent, the radix and the digit count are part of the
    literal's TYPE (scaled_integer<elastic_integer<digits>, power<exponent, radix>>); the rep is a constant expression.
    The front end's constant evaluator computes them while type-checking; the oracle is exact rational arithmetic on the
    token's spelling."""
    F = []
    decl = "using namespace cnl::literals;"
    for tok, suf, N, base, f in literal_tokens(tier, rng):
        o = literal_oracle(N, base, f, suf)
        if o is None:
            continue
        M, e, R = o
        lit = tok + suf
        ty = "decltype(%s)" % lit
        meta = dict(token=lit, denotes="%d * %d^%d" % (M, R, e))
        F.append(factmod.Fact("literal/%s/exponent" % lit, "cnl::_impl::tag_of_t<%s>::exponent" % ty, e, decls=decl, meta=meta))
        F.append(factmod.Fact("literal/%s/radix" % lit, "cnl::_impl::tag_of_t<%s>::radix" % ty, R, decls=decl, meta=meta))
        F.append(factmod.Fact("literal/%s/digits" % lit, "cnl::digits_v<%s>" % ty, M.bit_length(), decls=decl, meta=meta))
        if M < 2 ** 63:
            F.append(factmod.Fact("literal/%s/rep" % lit, "static_cast<long long>(cnl::_impl::to_rep(cnl::_impl::to_rep(%s)))" % lit, M, decls=decl, meta=meta))
    return F


def idle_rule(r, work):
    """progress rule (vlib/idle.py) on the loops of the run-time parser: every cycle of strlen, scan_base's searches and
    parse_string's chunk loops stores something or changes a loop-carried value (necessary for parse to return)"""
    from vlib import idle
    src = tc.PRELUDE["clang"] + ('extern "C" long long ip_i64(char const* s) { return cnl::_impl::parse<long long>(s); }\n'
                                 'extern "C" void ip_i128(char const* s, cnl::int128_t* o) { *o = cnl::_impl::parse<cnl::int128_t>(s); }\n'
                                 'extern "C" void ip_w(char const* s, cnl::wide_integer<200>* o) { *o = cnl::_impl::parse<cnl::wide_integer<200>>(s); }\n'
                                 'extern "C" int ip_control(char const* s) { int n = 0; while (*s) { if (*s != 39) { ++n; ++s; } } return n; }\n')
    p, raw, ssa = os.path.join(work, "ip.cpp"), os.path.join(work, "ip.raw.ll"), os.path.join(work, "ip.ll")
    open(p, "w").write(src)
    rc, so, se, cmd = tc.clang_ll(p, raw, "o0", extra=["-Xclang", "-disable-O0-optnone", "-DNDEBUG"])
    if rc != 0:
        raise tc.AnalysisBroken("parse TU does not compile: " + se[:1500])
    rc, so, se, cmd = tc.opt_passes(raw, ssa, "function(sroa,mem2reg)")
    if rc != 0:
        raise tc.AnalysisBroken("opt failed on the parse unit: " + se[:800])
    mod = ir.parse_module(open(ssa).read())
    dem = tc.demangle(list(mod.functions))
    pure, taken = idle.purity(mod)
    try:
        cyc, nl = idle.idle_cycles(mod, mod.functions["ip_control"], pure, taken)
        if not cyc:
            r.broke("idle-cycle control: the separator-skipping loop that forgets to advance was not reported")
    except (KeyError, ValueError) as e:
        r.broke("idle-cycle control failed: %r" % (e,))
    edges = {}
    for n, f in mod.functions.items():
        edges[n] = set(m.group(1) for lab in f.order for l in f.blocks[lab] for m in re.finditer(r"(?:call|invoke)\s[^@]*@([\w.$]+)\(", l))
    seen, st = set(), ["ip_i64", "ip_i128", "ip_w"]
    while st:
        x = st.pop()
        for y in edges.get(x, ()):
            if y not in seen and y in mod.functions:
                seen.add(y)
                st.append(y)
    nfun, nloops = 0, 0
    for x in sorted(seen):
        d = dem.get(x, "")
        if not re.search(r"cnl::_impl::(parse|parse_string|scan_|strlen)", d) and "parse_string" not in d:
            continue
        try:
            cyc, nl = idle.idle_cycles(mod, mod.functions[x], pure, taken)
        except ValueError as ex:
            r.broke("idle-cycle rule: %s: %s" % (d[:120], ex))
            continue
        if nl:
            nfun += 1
            nloops += nl
        for header, blocks in cyc:
            r.violation("idle/" + d[:100], "%s: the loop at block %s has a cycle (%s) that stores nothing and changes no loop-carried value: once taken twice it is taken forever" % (d[:160], header, " -> ".join(blocks)),
                        {"function": d, "cycle": blocks, "ir": mod.functions[x].text()})
    return nfun, nloops


def run(tier, seed, work):
    rng = random.Random(seed)
    r = report.Run(PROP, tier, seed, "other")
    rows = scan_rows(work)
    bases = sorted(x["base"] for x in rows)
    if bases != [2, 8, 10, 16]:
        r.broke("scan_base: expected one scan_msb call site per base 2/8/10/16, found bases %s" % bases)
    for row in rows:
        B, st, est = row["base"], row["stride"], row["estimate"]
        if B ** st - 1 > 2 ** 63 - 1:
            r.violation("stride/%d" % B, "scan_base announces stride %d for base %d: a chunk of %d digits (up to %d^%d - 1) does not fit the int64 accumulator of parse_int64" % (st, B, st, B, st), {"row": row})
        if est is None:
            r.broke("scan_base: bit-width estimate for base %d not recognised at %s" % (B, row["call"]))
        else:
            num, den, add = est
            # estimate(n) = (n*num + add) / den (integer division)  must be >= n * log2(B) rounded up, for every n >= 1:
            # it suffices that num/den >= log2(B) (checked exactly on integers: B^den <= 2^num) and, for the truncating division, add >= den - 1 or num/den exact
            if B ** den > 2 ** num:
                r.violation("bits/%d" % B, "bit-width estimate (%d*n + %d)/%d for base %d is below n*log2(%d): the deduced result type can be too narrow" % (num, add, den, B, B), {"row": row})
    n_idle_fn, n_idle_loops = idle_rule(r, work)
    common.floor_check(r, "parser loops inspected by the progress rule", n_idle_loops, 3)
    obs = gen_eq(rows)
    ctl = common.controls()
    kern.run_obligations(work, obs + ctl, batch=12)
    common.check_controls(r, ctl)
    n = common.settle_eq(r, obs)
    F = gen_facts()
    LF = gen_literal_facts(tier, rng)
    F = F + LF
    fctl = common.fact_controls()
    factmod.run_facts(work, F + fctl)
    common.check_fact_controls(r, fctl)
    for fa in LF:
        # every sampled token is well-formed and compiles on the pinned tree: a literal the library no longer compiles
        # has no value at all, which the property forbids as much as a wrong one
        if fa.status == "broken" and ("error:" in fa.detail or "does not compile" in fa.detail):
            fa.status, fa.detail = "refuted", "the library does not compile this well-formed literal: " + fa.detail[:300]
    nf = common.settle_facts(r, F)
    common.floor_check(r, "scan_base rows", len(rows), 4)
    common.floor_check(r, "EQ table kernels proved", n["proved"], 36)
    common.floor_check(r, "deduction facts proved", nf["proved"], 120)
    common.floor_check(r, "literal facts generated", len(LF), 600 if tier == "quick" else 3000)
    r.coverage = {
        "explanation": "Literal types and constant reps for a stratified token sample (compile-time witnesses against exact rational arithmetic on the spelling). Table agreement inside the parser (per-digit scale == base, chunk factor == base^stride with the stride read from scan_base's own call sites, digit tables are correct and mutual negations, chunk fits the accumulator, bit estimate >= log2(base) per digit) and type-level deductions from values. That EVERY token or constant yields exactly its value is not decided: the scan/parse loops are not analysed, the literal witnesses cover the sampled spellings only.",
        "evaluations": len(rows) + len(obs) + len(F), "distinct_nontrivial": len(rows) + n["proved"] + nf["proved"],
        "rule": "non-trivial = extracted table row, proved table kernel, proved deduction fact",
        "scan_rows": rows, "eq_kernels": len(obs), "eq_proved": n["proved"], "parser_loops_with_progress": n_idle_loops, "literal_facts": len(LF), "deduction_facts": len(F), "deduction_facts_proved": nf["proved"],
        "samples": [{"key": o.key, "cnl": o.cnl, "ref": o.refs[0]} for o in obs[:5]], "exhaustive": False,
    }
    return r.finish()


def replay(path, work):
    import json
    print(json.dumps(json.load(open(path)), indent=1)[:3000])
    return 1
