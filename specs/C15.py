"""C15 — literals, parsing and constant-driven deduction yield exactly the written value.

Decided (structure of the parser's tables and type-level deductions; no token is ever evaluated):
 A1 EQ  make_scale_op(B)(x) == x * B                          (per-digit scale is the base)
 A2 EQ  make_scale_op_chunk<Sum>(B)(x) == x * B^stride(B)     (chunk factor agrees with the stride scan_base announces)
 A3 EQ  make_char_to_digit_positive(B)(c) == digit value of c, make_char_to_digit_negative(B)(c) == -digit value,
        on every valid character class (the two tables are negations of each other and cover the same ranges)
 A4 IR  rows (base, stride, bit-width estimate) read from the scan_msb call sites in scan_base: B^stride - 1 fits the
        int64 accumulator; the bit-width estimate per digit is >= log2(B)
 T      types deduced from values: make_elastic_integer, make_elastic_scaled_integer, make_scaled_integer,
        make_static_integer, make_static_number, CTAD — digits = numeric_limits<Input>::digits, signedness adopted,
        exponent preserved.
Not decided: that a given token or constant<V> yields exactly its value / used-digit count (that is execution of
parse, used_digits, trailing_bits, descale on values).
"""
import random, re, os, math
from vlib import tc, kern, ir, facts as factmod, report
from vlib.cty import *
from . import common

PROP = "C15"
I = "cnl::_impl::"


def scan_rows(work):
    src = os.path.join(work, "scan.cpp")
    open(src, "w").write(tc.PRELUDE["clang"] + 'extern "C" void use(char const* s, int n, cnl::_impl::params* o) { *o = cnl::_impl::scan_string(s, n); }\n')
    out = os.path.join(work, "scan.ll")
    rc, so, se, cmd = tc.clang_ll(src, out, "o1ni")
    if rc != 0:
        raise tc.AnalysisBroken("scan TU does not compile: " + se[:1500])
    mod = ir.parse_module(open(out).read())
    rows = []
    for n, f in mod.functions.items():
        if "scan_base" not in n:
            continue
        defs = dict((m.group(1), m.group(2)) for lab in f.order for l in f.blocks[lab] for m in [re.match(r"^(%\S+)\s*=\s*(.*)$", l)] if m)
        for lab in f.order:
            for l in f.blocks[lab]:
                if "scan_msb" in l and "call" in l:
                    args = [a.strip().split(" ")[-1] for a in ir._split_top(re.search(r"@\w+\((.*)\)", l).group(1))]
                    # (sret, str, is_negative, base, stride, offset, max_num_bits, num_digits, num_fractional_digits)
                    base, stride, bitsv, nd = args[3], args[4], args[6], args[7]
                    if not (base.isdigit() and stride.isdigit()):
                        raise tc.AnalysisBroken("scan_msb call with non-constant base/stride: " + l[:200])
                    # bit-width estimate as a function of num_digits: coefficient num/den
                    est = None
                    if bitsv == nd:
                        est = (1, 1, 0)
                    elif bitsv in defs:
                        d = defs[bitsv]
                        m = re.match(r"^(?:shl|mul)(?: nsw| nuw)* i32 (%\S+), (\d+)$", d)
                        if m and m.group(1) == nd:
                            est = ((1 << int(m.group(2))) if d.startswith("shl") else int(m.group(2)), 1, 0)
                        m = re.match(r"^(?:sdiv|udiv)(?: exact)? i32 (%\S+), (\d+)$", d)
                        if m and m.group(1) in defs:
                            den = int(m.group(2))
                            d2 = defs[m.group(1)]
                            m2 = re.match(r"^add(?: nsw| nuw)* i32 (%\S+), (\d+)$", d2)
                            if m2 and m2.group(1) in defs:
                                m3 = re.match(r"^mul(?: nsw| nuw)* i32 (%\S+), (\d+)$", defs[m2.group(1)])
                                if m3 and m3.group(1) == nd:
                                    est = (int(m3.group(2)), den, int(m2.group(2)))
                    rows.append(dict(base=int(base), stride=int(stride), estimate=est, call=l[:160]))
    return rows


def gen_eq(rows):
    obs = []
    strides = dict((r["base"], r["stride"]) for r in rows)
    for B in (2, 8, 10, 16):
        obs.append(kern.Ob("scale_op/%d" % B, "std::int64_t", [("std::int64_t", "x")], "return %smake_scale_op(%d)(x);" % (I, B), ["return x * %d;" % B],
                           meta=dict(anchor="include/cnl/_impl/parse.h make_scale_op")))
        st = strides.get(B)
        if st is None:
            continue
        for Sum, lit in (("std::int64_t", "(std::int64_t)"), ("cnl::int128_t", "(cnl::int128_t)")):
            f = B ** st
            flit = "(%s((unsigned __int128)%dULL << 64 | %dULL))" % (lit, f >> 64, f & ((1 << 64) - 1)) if f >= (1 << 63) else "%s%dLL" % (lit, f)
            obs.append(kern.Ob("scale_op_chunk/%s/%d^%d" % (Sum, B, st), Sum, [(Sum, "x")], "return %smake_scale_op_chunk<%s>(%d)(x);" % (I, Sum, B), ["return (%s)(x * %s);" % (Sum, flit)],
                               meta=dict(anchor="include/cnl/_impl/parse.h make_scale_op_chunk vs scan_base stride")))
    classes = {2: [("'0'", "'1'", "c - '0'")], 8: [("'0'", "'7'", "c - '0'")], 10: [("'0'", "'9'", "c - '0'")],
               16: [("'0'", "'9'", "c - '0'"), ("'a'", "'f'", "c - 'a' + 10"), ("'A'", "'F'", "c - 'A' + 10")]}
    for B, cl in classes.items():
        for (lo, hi, val) in cl:
            pre = ["c >= %s" % lo, "c <= %s" % hi]
            obs.append(kern.Ob("digit+/%d/%s-%s" % (B, lo, hi), "int", [("char", "c")], "return %smake_char_to_digit_positive(%d)(c);" % (I, B), ["return %s;" % val], pre=pre))
            obs.append(kern.Ob("digit-/%d/%s-%s" % (B, lo, hi), "int", [("char", "c")], "return %smake_char_to_digit_negative(%d)(c);" % (I, B), ["return -(%s);" % val], pre=pre))
            obs.append(kern.Ob("digit/select-/%d/%s-%s" % (B, lo, hi), "int", [("char", "c")], "return %smake_char_to_digit(true, %d)(c);" % (I, B), ["return -(%s);" % val], pre=pre))
            obs.append(kern.Ob("digit/select+/%d/%s-%s" % (B, lo, hi), "int", [("char", "c")], "return %smake_char_to_digit(false, %d)(c);" % (I, B), ["return %s;" % val], pre=pre))
    return obs


def gen_facts():
    F = []
    for T in (I8, U8, I16, U16, I32, U32, I64, U64):
        sgn = "int" if T.signed else "unsigned"
        F.append(factmod.Fact("make_elastic_integer/%s/digits" % T.short, "cnl::digits_v<decltype(cnl::make_elastic_integer(std::declval<%s>()))>" % T.name, T.digits))
        F.append(factmod.Fact("make_elastic_integer/%s/signed" % T.short, "cnl::numbers::signedness_v<decltype(cnl::make_elastic_integer(std::declval<%s>()))>" % T.name, 1 if T.signed else 0))
        F.append(factmod.Fact("make_elastic_scaled_integer/%s/digits" % T.short, "cnl::digits_v<decltype(cnl::make_elastic_scaled_integer(std::declval<%s>()))>" % T.name, T.digits))
        F.append(factmod.Fact("make_elastic_scaled_integer/%s/exponent" % T.short, "cnl::_impl::tag_of_t<decltype(cnl::make_elastic_scaled_integer(std::declval<%s>()))>::exponent" % T.name, 0))
        F.append(factmod.Fact("make_elastic_scaled_integer/%s/signed" % T.short, "cnl::numbers::signedness_v<decltype(cnl::make_elastic_scaled_integer(std::declval<%s>()))>" % T.name, 1 if T.signed else 0))
        F.append(factmod.Fact("make_scaled_integer/%s" % T.short, "std::is_same_v<decltype(cnl::make_scaled_integer(std::declval<%s>())), cnl::scaled_integer<%s, cnl::power<0>>>" % (T.name, T.name), 1))
        # class template argument deduction is only available through the underlying class template (scaled_integer and
        # elastic_integer are alias templates): _impl::wrapper{value, tag} is not a public spelling, so CTAD facts use cnl::fraction
        F.append(factmod.Fact("ctad/fraction/%s" % T.short, "std::is_same_v<decltype(cnl::fraction{std::declval<%s>()}), cnl::fraction<%s, %s>>" % (T.name, T.name, T.name), 1))
        F.append(factmod.Fact("make_static_integer/%s/digits" % T.short, "cnl::digits_v<decltype(cnl::_impl::make_static_integer(std::declval<%s>()))>" % T.name, T.digits))
        F.append(factmod.Fact("make_static_number/%s/digits" % T.short, "cnl::digits_v<decltype(cnl::make_static_number(std::declval<%s>()))>" % T.name, T.digits))
        for e in (-20, -3, 0, 7):
            S = "cnl::scaled_integer<%s, cnl::power<%d>>" % (T.name, e)
            F.append(factmod.Fact("make_elastic_scaled_integer/from-scaled/%s@%d/exponent" % (T.short, e), "cnl::_impl::tag_of_t<decltype(cnl::make_elastic_scaled_integer(std::declval<%s>()))>::exponent" % S, e))
            F.append(factmod.Fact("make_elastic_scaled_integer/from-scaled/%s@%d/digits" % (T.short, e), "cnl::digits_v<decltype(cnl::make_elastic_scaled_integer(std::declval<%s>()))>" % S, T.digits))
    return F


def run(tier, seed, work):
    rng = random.Random(seed)
    r = report.Run(PROP, tier, seed, "other")
    rows = scan_rows(work)
    bases = sorted(x["base"] for x in rows)
    if bases != [2, 8, 10, 16]:
        r.broke("scan_base: expected one scan_msb call site per base 2/8/10/16, found bases %s" % bases)
    for row in rows:
        B, st, est = row["base"], row["stride"], row["estimate"]
        if B ** st - 1 > 2 ** 63 - 1:
            r.violation("stride/%d" % B, "scan_base announces stride %d for base %d: a chunk of %d digits (up to %d^%d - 1) does not fit the int64 accumulator of parse_int64" % (st, B, st, B, st), {"row": row})
        if est is None:
            r.broke("scan_base: bit-width estimate for base %d not recognised at %s" % (B, row["call"]))
        else:
            num, den, add = est
            # estimate(n) = (n*num + add) / den (integer division)  must be >= n * log2(B) rounded up, for every n >= 1:
            # it suffices that num/den >= log2(B) (checked exactly on integers: B^den <= 2^num) and, for the truncating division, add >= den - 1 or num/den exact
            if B ** den > 2 ** num:
                r.violation("bits/%d" % B, "bit-width estimate (%d*n + %d)/%d for base %d is below n*log2(%d): the deduced result type can be too narrow" % (num, add, den, B, B), {"row": row})
    obs = gen_eq(rows)
    ctl = common.controls()
    kern.run_obligations(work, obs + ctl, batch=12)
    common.check_controls(r, ctl)
    n = common.settle_eq(r, obs)
    F = gen_facts()
    fctl = common.fact_controls()
    factmod.run_facts(work, F + fctl)
    common.check_fact_controls(r, fctl)
    nf = common.settle_facts(r, F)
    common.floor_check(r, "scan_base rows", len(rows), 4)
    common.floor_check(r, "EQ table kernels proved", n["proved"], 36)
    common.floor_check(r, "deduction facts proved", nf["proved"], 120)
    r.coverage = {
        "explanation": "Table agreement inside the parser (per-digit scale == base, chunk factor == base^stride with the stride read from scan_base's own call sites, digit tables are correct and mutual negations, chunk fits the accumulator, bit estimate >= log2(base) per digit) and type-level deductions from values. That a given token or constant yields exactly its value is NOT decided (it would require evaluating the parser on tokens).",
        "evaluations": len(rows) + len(obs) + len(F), "distinct_nontrivial": len(rows) + n["proved"] + nf["proved"],
        "rule": "non-trivial = extracted table row, proved table kernel, proved deduction fact",
        "scan_rows": rows, "eq_kernels": len(obs), "eq_proved": n["proved"], "deduction_facts": len(F), "deduction_facts_proved": nf["proved"],
        "samples": [{"key": o.key, "cnl": o.cnl, "ref": o.refs[0]} for o in obs[:5]], "exhaustive": False,
    }
    return r.finish()


def replay(path, work):
    import json
    print(json.dumps(json.load(open(path)), indent=1)[:3000])
    return 1
