"""C16 — fraction arithmetic, ordering, reduction and hashing follow the rationals.

EQ per component: + - * / unary == cross-multiplication formulas in the promoted component type; == != cross-product
equality; < <= > >= cross-product comparison corrected for the sign of the product of the denominators (the rational
order); conversion to floating == F(n)/F(d); reduce == {n/g, d/g} with g = std::gcd(n,d); canonical == reduce, then
both negated iff d < 0.
CG/dataflow: std::hash<fraction>::operator() uses its argument only through canonical().
"""
import random, re, os
from vlib import tc, kern, ir, facts as factmod, report
from vlib.cty import *
from . import common

PROP = "C16"
CMPS = ["<", "<=", ">", ">="]


def gen(tier, rng):
    obs = []
    comps = [I8, I16, I32, I64]
    pairs = [(a, a) for a in comps] + ([(I8, I32), (I32, I8), (I16, I64), (I64, I32)] if tier == "quick" else [(a, b) for a in comps for b in comps if a is not b])
    cfgs = ["clang"] if tier == "quick" else ["clang", "gcc"]
    for cfg in cfgs:
        for (A, B) in pairs:
            P = uac(A, B)
            par = [(A.name, "n1"), (A.name, "d1"), (B.name, "n2"), (B.name, "d2")]
            FA, FB = "fraction<%s>(n1, d1)" % A.name, "fraction<%s>(n2, d2)" % B.name
            base = "%s/%s,%s" % (cfg, A.short, B.short)
            form = {"+": ("n1 * d2 + n2 * d1", "d1 * d2"), "-": ("n1 * d2 - n2 * d1", "d1 * d2"), "*": ("n1 * n2", "d1 * d2"), "/": ("n1 * d2", "d1 * n2")}
            for op, (rn, rd) in form.items():
                obs.append(kern.Ob("%s/%s/numerator" % (base, op), P.name, par, "auto r = %s %s %s; static_assert(std::is_same_v<decltype(r.numerator), %s>); return r.numerator;" % (FA, op, FB, P.name), ["return %s;" % rn], cfg=cfg,
                                   meta=dict(anchor="include/cnl/_impl/fraction/operators.h operator%s" % op)))
                obs.append(kern.Ob("%s/%s/denominator" % (base, op), P.name, par, "auto r = %s %s %s; return r.denominator;" % (FA, op, FB), ["return %s;" % rd], cfg=cfg))
            for op in ("==", "!="):
                obs.append(kern.Ob("%s/%s" % (base, op), "bool", par, "return %s %s %s;" % (FA, op, FB), ["return n1 * d2 %s n2 * d1;" % op], pre=["d1 != 0", "d2 != 0"], cfg=cfg))
            for op in CMPS:
                flip = {"<": ">", "<=": ">=", ">": "<", ">=": "<="}[op]
                obs.append(kern.Ob("%s/%s" % (base, op), "bool", par, "return %s %s %s;" % (FA, op, FB),
                                   ["return ((d1 < 0) != (d2 < 0)) ? (n1 * d2 %s n2 * d1) : (n1 * d2 %s n2 * d1);" % (flip, op),
                                    "return ((d1 < 0) == (d2 < 0)) ? (n1 * d2 %s n2 * d1) : (n1 * d2 %s n2 * d1);" % (op, flip)],
                                   alts=[("D6/order-ignores-sign-of-denominators", "return n1 * d2 %s n2 * d1;" % op)],
                                   pre=["d1 != 0", "d2 != 0"], cfg=cfg, meta=dict(anchor="include/cnl/_impl/fraction/operators.h operator%s" % op)))
        for A in comps:
            PA = promote(A)
            par = [(A.name, "n"), (A.name, "d")]
            F = "fraction<%s>(n, d)" % A.name
            base = "%s/%s" % (cfg, A.short)
            obs.append(kern.Ob("%s/unary-/numerator" % base, PA.name, par, "auto r = -%s; return r.numerator;" % F, ["return -n;"], cfg=cfg))
            obs.append(kern.Ob("%s/unary-/denominator" % base, A.name, par, "auto r = -%s; return r.denominator;" % F, ["return d;"], cfg=cfg))
            obs.append(kern.Ob("%s/unary+/numerator" % base, PA.name, par, "auto r = +%s; return r.numerator;" % F, ["return +n;"], cfg=cfg))
            obs.append(kern.Ob("%s/unary+/denominator" % base, PA.name, par, "auto r = +%s; return r.denominator;" % F, ["return +d;"], cfg=cfg))
            for (fn) in ("float", "double", "long double"):
                obs.append(kern.Ob("%s/to-%s" % (base, fn.replace(" ", "-")), fn, par, "return static_cast<%s>(%s);" % (fn, F), ["return static_cast<%s>(n) / static_cast<%s>(d);" % (fn, fn)], cfg=cfg))
            g = "auto g = std::gcd(n, d);"
            obs.append(kern.Ob("%s/reduce/numerator" % base, PA.name, par, "return cnl::_impl::reduce(%s).numerator;" % F, [g + " return n / g;"], pre=["d != 0"], cfg=cfg,
                               meta=dict(anchor="include/cnl/_impl/fraction/reduce.h; gcd.h")))
            obs.append(kern.Ob("%s/reduce/denominator" % base, PA.name, par, "return cnl::_impl::reduce(%s).denominator;" % F, [g + " return d / g;"], pre=["d != 0"], cfg=cfg))
            obs.append(kern.Ob("%s/canonical/numerator" % base, PA.name, par, "return cnl::_impl::canonical(%s).numerator;" % F,
                               [g + " auto rn = n / g; auto rd = d / g; return rd < 0 ? -rn : rn;"], pre=["d != 0"], cfg=cfg,
                               meta=dict(anchor="include/cnl/_impl/fraction/canonical.h")))
            obs.append(kern.Ob("%s/canonical/denominator" % base, PA.name, par, "return cnl::_impl::canonical(%s).denominator;" % F,
                               [g + " auto rd = d / g; return rd < 0 ? -rd : rd;"], pre=["d != 0"], cfg=cfg))
    return obs


HASH_SRC = tc.PRELUDE["clang"] + """
using namespace cnl;
extern "C" std::size_t hash_i32(fraction<std::int32_t> const& f) { return std::hash<fraction<std::int32_t>>{}(f); }
extern "C" std::size_t hash_i64(fraction<std::int64_t> const& f) { return std::hash<fraction<std::int64_t>>{}(f); }
extern "C" std::size_t hash_i16(fraction<std::int16_t> const& f) { return std::hash<fraction<std::int16_t>>{}(f); }
// positive control: a hash that also looks at the raw numerator must be reported
namespace std { template<> struct hash<cnl::fraction<std::int8_t>> { std::size_t operator()(cnl::fraction<std::int8_t> const& v) const {
    auto c = cnl::_impl::canonical(v); return std::hash<int>{}(c.numerator) ^ std::size_t(v.numerator); } }; }
extern "C" std::size_t hash_ctl(fraction<std::int8_t> const& f) { return std::hash<fraction<std::int8_t>>{}(f); }
"""


def hash_dataflow(work):
    """In std::hash<fraction<T>>::operator() (-O1 -fno-inline IR, every CNL function still a call):
    the argument may only flow into a call of cnl::_impl::canonical; the result may only come from calls whose
    fraction argument is the canonical result.  Returns (checked, problems)."""
    src = os.path.join(work, "hash.cpp")
    open(src, "w").write(HASH_SRC)
    out = os.path.join(work, "hash.ll")
    rc, so, se, cmd = tc.clang_ll(src, out, "o1ni")
    if rc != 0:
        raise tc.AnalysisBroken("hash TU does not compile: " + se[:1500])
    mod = ir.parse_module(open(out).read())
    names = [n for n in mod.functions if n.startswith("_ZNKSt4hashIN3cnl8fraction") and n.endswith("EclERKS3_") or re.match(r"_ZNKSt4hashIN3cnl8fractionI\w+EEEclERKS\d?_", n)]
    dem = tc.demangle(list(mod.functions) + [d[1:] for d in mod.declares])
    problems, checked = [], []
    for n in sorted(set(names)):
        fn = mod.functions[n]
        dn = dem.get(n, n)
        # the fraction argument is the last parameter (after `this`)
        arg = fn.params[-1][1]
        derived = {arg}
        canon_results = set()
        bad = []
        lines = [l for lab in fn.order for l in fn.blocks[lab]]
        # sret-style canonical: canonical(%out, %arg)  or by value
        for l in lines:
            uses = set(ir._VAL_RE.findall(l.split("=", 1)[1] if re.match(r"^%\S+\s*=", l) else l))
            m = re.match(r"^(%\S+)\s*=", l)
            callee = re.search(r"call .*?@([\w.$]+)\(", l)
            if uses & derived:
                if callee and dem.get(callee.group(1), "").startswith("auto cnl::_impl::canonical<"):
                    if m:
                        canon_results.add(m.group(1))
                    # sret: the first pointer argument receives the canonical value
                    a0 = re.search(r"\(([^)]*)\)", l[l.index("@" + callee.group(1)):])
                    for tok in ir._VAL_RE.findall(a0.group(1) if a0 else ""):
                        if tok not in derived:
                            canon_results.add(tok)
                    continue
                if re.match(r"^(%\S+\s*=\s*)?(bitcast|getelementptr)", l) and m and not callee:
                    # address arithmetic on the argument: still the raw argument
                    derived.add(m.group(1))
                    if re.search(r"\bload\b", l):
                        bad.append(l)
                    continue
                if "llvm.lifetime" in l or "llvm.dbg" in l:
                    continue
                bad.append(l)
        # every other call must consume the canonical value only (checked above: no use of `derived`)
        if not canon_results:
            bad.append("no call to cnl::_impl::canonical found")
        (problems if bad else checked).append((dn, bad))
    return checked, problems, len(names)


FLOOR = {"quick": dict(eq=150), "thorough": dict(eq=500)}


def run(tier, seed, work):
    rng = random.Random(seed)
    r = report.Run(PROP, tier, seed, "translation_validation")
    obs = gen(tier, rng)
    ctl = common.controls()
    kern.run_obligations(work, obs + ctl, batch=16)
    common.check_controls(r, ctl)

    def describe(ob):
        if ob.matched_alt:
            return "%s: `%s` is the plain cross-product comparison `%s`: wrong whenever exactly one denominator is negative (fraction(1,-2) < fraction(1,2) is false)" % (ob.key, ob.cnl, ob.alts[0][1])
    n = common.settle_eq(r, obs, describe)
    common.floor_check(r, "kernel pairs proved", n["proved"], FLOOR[tier]["eq"] if not any(o.matched_alt for o in obs) else FLOOR[tier]["eq"] - 60)
    checked, problems, nh = hash_dataflow(work)
    ctl_ok = any("fraction<signed char" in p[0] for p in problems)
    if not ctl_ok:
        r.broke("hash dataflow control (a hash reading the raw numerator) was not reported")
    real = [p for p in problems if "fraction<signed char" not in p[0]]
    for dn, bad in real:
        r.violation("hash/" + dn, "std::hash<fraction>::operator() uses its argument other than through canonical(): %s" % "; ".join(bad)[:400], {"function": dn, "uses": bad})
    if len(checked) < 3:
        r.broke("hash dataflow: only %d std::hash<fraction<T>>::operator() instances analysed (expected 3)" % len(checked))
    good = [o for o in obs if o.status == "proved"]
    r.coverage = {
        "programs": len(obs), "disagreements_checked": n["refuted"], "kernel_pairs_proved": n["proved"], "kernel_pairs_refuted": n["refuted"],
        "refuted_matching_recorded_defect": sum(1 for o in obs if o.matched_alt),
        "hash_functions_analysed": len(checked), "hash_dataflow_problems": len(real),
        "rule": "component kernels == cross-multiplication formulas; order == cross-product order corrected by the sign of d1*d2; hash: argument flows only into canonical()",
        "samples": [{"key": o.key, "cnl": o.cnl, "ref": o.refs[o.matched_ref]} for o in rng.sample(good, min(6, len(good)))] + [{"hash": c[0]} for c in checked],
        "exhaustive": tier == "thorough",
    }
    r.assumptions = ["non-zero denominators; operands small enough that the cross products fit (both kernels wrap identically otherwise)",
                     "equal fractions have equal canonical forms (lowest terms, positive denominator: the reduce/canonical EQ facts); hash is a function of the canonical form (dataflow fact)"]
    return r.finish()


def replay(path, work):
    from .C12 import replay as rp
    return rp(path, work)
