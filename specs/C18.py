"""C18 — bit and digit-counting utilities match the C++20 <bit> definitions everywhere.

EQ  (both compiler configurations): countl_zero, countl_one, countr_zero, countr_one, popcount, rotl, rotr, ispow2,
    floor2, log2p1, ceil2 (documented deviation ceil2(0) == 0; std::bit_ceil's own precondition) == the <bit> functions,
    for all values at once; countl_rsb / countl_rb / countr_used == their definition in terms of std::countl_zero.
    The claimed set (function x type x configuration for which LLVM reaches one normal form) is frozen in CLAIMED; a
    claimed pair that stops matching is a violation, the others are reported as unproved.
UB  (both configurations): no out-of-range shift, invalid builtin argument or division survives for any value (rotations:
    count pinned to 0, 1, width-1, width, 2*width and free count on whole-domain kernels); a surviving trap on a non-empty
    value set is a definite undefined operation.
CFG: every loop of the generic (recursive) definitions has a bounded trip count (scalar evolution).
Not decided: value correctness of used_digits / leading_bits / trailing_bits and of generic definitions outside CLAIMED.
"""
import random, re, os
from vlib import tc, kern, gate, iset, ir, report
from vlib.iset import ISet
from vlib.cty import *
from . import common, C06

PROP = "C18"
# unsigned long long / long long are 64-bit types distinct from std::(u)int64_t (= (unsigned) long on LP64) and have their
# own explicit specialisations in bit.h: every fundamental type with its own specialisation is a separate instance
ULL = CT("unsigned long long", 64, False, 5, "ull")
LL = CT("long long", 64, True, 5, "ll")
UT = [U8, U16, U32, U64, ULL, U128]
ST = [I8, I16, I32, I64, LL]


def std_refs(fn, T):
    n = T.name
    w = T.bits
    return {
        "countl_zero": ["return std::countl_zero(x);"], "countl_one": ["return std::countl_one(x);"],
        "countr_zero": ["return std::countr_zero(x);"], "countr_one": ["return std::countr_one(x);"],
        "popcount": ["return std::popcount(x);"],
        "ispow2": ["return std::has_single_bit(x);", "return std::popcount(x) == 1;", "return x != 0 && (x & (x - 1)) == 0;"],
        "floor2": ["return std::bit_floor(x);", "return x ? (%s)((%s)1 << (std::bit_width(x) - 1)) : (%s)0;" % (n, n, n), "return x ? (%s)((%s)1 << (%d - std::countl_zero(x))) : (%s)0;" % (n, n, w - 1, n)],
        "log2p1": ["return (int)std::bit_width(x);", "return %d - std::countl_zero(x);" % w],
    }[fn]


# frozen on the repaired pinned tree: keys of the (configuration/function/type) pairs that reach a common normal form with their
# <bit> definition (python3 check.py C18 --freeze rewrites the file; it is committed and never written by a check run)
import json as _json
_CL = os.path.join(os.path.dirname(os.path.abspath(__file__)), "C18_claimed.json")
CLAIMED_KEYS = set(_json.load(open(_CL))) if os.path.exists(_CL) else set()


def gen_eq():
    obs = []
    for cfg in ("clang", "gcc"):
        for T in UT:
            if T is U128:
                fns = ["ispow2"]
            else:
                fns = ["countl_zero", "countl_one", "countr_zero", "countr_one", "popcount", "ispow2", "floor2", "log2p1"]
            for fn in fns:
                ret = {"ispow2": "bool", "floor2": T.name}.get(fn, "int")
                obs.append(kern.Ob("%s/%s/%s" % (cfg, fn, T.short), ret, [(T.name, "x")], "return cnl::%s(x);" % fn, std_refs(fn, T), cfg=cfg, meta=dict(fn=fn, T=T.short)))
            if T is not U128:
                obs.append(kern.Ob("%s/ceil2/%s" % (cfg, T.short), T.name, [(T.name, "x")], "return cnl::ceil2(x);", ["return x ? std::bit_ceil(x) : (%s)0;" % T.name, "return x ? (%s)((%s)1 << std::bit_width((%s)(x - 1))) : (%s)0;" % (T.name, T.name, T.name, T.name),
                                    "return x ? (%s)((%s)1 << (%d - std::countl_zero((%s)(x - 1)))) : (%s)0;" % (T.name, T.name, T.bits, T.name, T.name)],
                                   pre=["x <= %s" % T.lit(1 << (T.bits - 1))], cfg=cfg, meta=dict(fn="ceil2", T=T.short)))
                for fn in ("rotl", "rotr"):
                    obs.append(kern.Ob("%s/%s/%s" % (cfg, fn, T.short), T.name, [(T.name, "x"), ("unsigned", "s")], "return cnl::%s(x, s);" % fn,
                                       ["return std::%s(x, (int)(s %% %du));" % (fn, T.bits)], cfg=cfg, meta=dict(fn=fn, T=T.short)))
                obs.append(kern.Ob("%s/countr_used/%s" % (cfg, T.short), "int", [(T.name, "x")], "return cnl::countr_used(x);", ["return %d - std::countl_zero(x);" % T.bits], cfg=cfg, meta=dict(fn="countr_used", T=T.short)))
        for T in ST:
            U = {I8: U8, I16: U16, I32: U32, I64: U64, LL: ULL}[T]
            obs.append(kern.Ob("%s/countl_rsb/%s" % (cfg, T.short), "int", [(T.name, "x")], "return cnl::countl_rsb(x);",
                               ["return std::countl_zero((%s)(x < 0 ? ~x : x)) - 1;" % U.name, "return (x < 0 ? std::countl_one((%s)x) : std::countl_zero((%s)x)) - 1;" % (U.name, U.name),
                                "return std::countl_zero((%s)(x ^ (x >> %d))) - 1;" % (U.name, T.bits - 1)], cfg=cfg, meta=dict(fn="countl_rsb", T=T.short)))
            obs.append(kern.Ob("%s/countr_used/%s" % (cfg, T.short), "int", [(T.name, "x")], "return cnl::countr_used(x);",
                               ["return %d - (std::countl_zero((%s)(x < 0 ? ~x : x)) - 1);" % (T.digits, U.name),
                                "return %d - ((x < 0 ? std::countl_one((%s)x) : std::countl_zero((%s)x)) - 1);" % (T.digits, U.name, U.name)], cfg=cfg, meta=dict(fn="countr_used", T=T.short)))
    return obs


def gen_ub():
    L = []
    for cfg in ("clang", "gcc"):
        for T in UT:
            for fn in ("countl_zero", "countl_one", "countr_zero", "countr_one", "popcount", "ispow2", "floor2", "log2p1", "ceil2", "countr_used"):
                if T is U128 and fn not in ("ispow2", "countl_zero", "countr_zero"):
                    continue
                dom = ISet.full(T.bits)
                pre = []
                if fn == "ceil2":
                    dom = C06.mkset(T, 0, 1 << (T.bits - 1))
                    pre = ["x <= %s" % T.lit(1 << (T.bits - 1))]
                ln = C06.Line("%s/ub/%s/%s" % (cfg, fn, T.short), T, T, "return (%s)cnl::%s(x);" % (T.name, fn), "return 0;", {}, domain=dom, pre=pre, cfg=cfg, vname="x", meta=dict(fn=fn, T=T.short))
                L.append(ln)
            for fn in ("rotl", "rotr"):
                for s in (0, 1, T.bits - 1, T.bits, 2 * T.bits, 3 * T.bits + 5):
                    ln = C06.Line("%s/ub/%s/%s/s=%d" % (cfg, fn, T.short, s), T, T, "return cnl::%s(x, %du);" % (fn, s), "return 0;", {}, cfg=cfg, vname="x", meta=dict(fn=fn, T=T.short, s=s))
                    L.append(ln)
        for T in ST:
            for fn in ("countl_rsb", "countl_rb", "countr_used"):
                ln = C06.Line("%s/ub/%s/%s" % (cfg, fn, T.short), T, T, "return (%s)cnl::%s(x);" % (T.name, fn), "return 0;", {}, cfg=cfg, vname="x", meta=dict(fn=fn, T=T.short))
                L.append(ln)
    return L


def whole_rot():
    obs = []
    for cfg in ("clang", "gcc"):
        for T in UT:
            for fn in ("rotl", "rotr"):
                obs.append(kern.Ob("%s/ub-whole/%s/%s" % (cfg, fn, T.short), T.name, [(T.name, "x"), ("unsigned", "s")], "return cnl::%s(x, s);" % fn, [], cfg=cfg, mode="ub", kind="ir", meta=dict(fn=fn, T=T.short)))
    return obs


def loop_bounds(work):
    """generic (recursive) definitions on 8/16-bit types: every loop LLVM forms must have a constant maximum trip count"""
    src = tc.PRELUDE["clang"] + "".join('extern "C" int lb_%s_%s(%s x) { return cnl::%s(x); }\n' % (fn, T.short, T.name, fn)
                                        for fn in ("countl_zero", "countl_one", "countr_zero", "countr_one", "popcount") for T in (U8, U16, U128))
    p = os.path.join(work, "lb.cpp")
    open(p, "w").write(src)
    out = os.path.join(work, "lb.ll")
    rc, so, se, cmd = tc.clang_ll(p, out, "eqr")
    if rc != 0:
        raise tc.AnalysisBroken("loop TU does not compile: " + se[:1500])
    rc, so, se = tc.run([tc.OPT, "-disable-output", "-passes=print<scalar-evolution>", out])
    text = se + so
    res = {}
    cur = None
    for ln in text.split("\n"):
        m = re.match(r"^Determining loop execution counts for: @(\w+)", ln)
        if m:
            cur = m.group(1)
            res.setdefault(cur, [])
            continue
        m = re.match(r"^Loop %\S+: (?:constant )?max backedge-taken count is (.*)$", ln)
        if m and cur:
            res[cur].append(m.group(1).strip())
        m = re.match(r"^Loop %\S+: Unpredictable (?:constant )?max backedge-taken count", ln)
        if m and cur:
            res[cur].append(None)
    return res


# signedness-dispatch rule (used-digit clause, structural part): cnl::used_digits<T> must take the signed algorithm exactly
# when T is a signed NUMBER (numbers::signedness_v<T>), including class-type reps for which std::is_signed is false; the
# negative-value clause ("bit length of -v-1") is computed by the signed algorithm only.
DISPATCH = [("int", True), ("unsigned", False), ("std::int8_t", True), ("cnl::int128_t", True), ("cnl::uint128_t", False), ("cnl::wide_integer<200, int>", True),
            ("cnl::wide_integer<200, unsigned>", False), ("cnl::wide_integer<40, int>", True), ("cnl::elastic_integer<20>", True), ("cnl::elastic_integer<20, unsigned>", False),
            ("cnl::overflow_integer<int, cnl::saturated_overflow_tag>", True), ("cnl::elastic_integer<150, cnl::wide_integer<31, int>>", True), ("cnl::static_integer<300>", True)]


# width rule: cnl::trailing_bits<T> of a signed T counts on the unsigned type of the SAME width (seeded changes M-C18-6 /
# M-C15-6: static_cast<std::uintmax_t>(n) loses the upper word of a 128-bit value)
TB_TYPES = [("std::int8_t", 8), ("std::int16_t", 16), ("int", 32), ("long", 64), ("long long", 64), ("cnl::int128_t", 128), ("cnl::uint128_t", 128), ("unsigned", 32)]
_UBITS = {"unsigned char": 8, "unsigned short": 16, "unsigned int": 32, "unsigned long": 64, "unsigned long long": 64, "unsigned __int128": 128}


def dispatch_rule(r, work):
    from vlib import ir
    src = tc.PRELUDE["clang"] + "".join('extern "C" int tb_%d(%s const& v) { return cnl::trailing_bits(v); }\n' % (i, t) for i, (t, w) in enumerate(TB_TYPES)) + "".join('extern "C" int ud_%d(%s const& v) { return cnl::used_digits(v); }\nextern "C" int lb_%d(%s const& v) { return cnl::leading_bits(v); }\n' % (i, t, i, t) for i, (t, sg) in enumerate(DISPATCH))
    p, out = os.path.join(work, "ud.cpp"), os.path.join(work, "ud.ll")
    open(p, "w").write(src)
    rc, so, se, cmd = tc.clang_ll(p, out, "o1ni")
    if rc != 0:
        raise tc.AnalysisBroken("used_digits TU does not compile: " + se[:1500])
    mod = ir.parse_module(open(out).read())
    dem = tc.demangle(list(mod.functions) + [d[1:] for d in mod.declares])
    edges = {}
    for n, f in mod.functions.items():
        edges[n] = set(m.group(1) for lab in f.order for l in f.blocks[lab] for m in re.finditer(r"(?:call|invoke)\s[^@]*@([\w.$]+)\(", l))
    is_alg = lambda x: re.search(r"cnl::_impl::used_digits_signed<(true|false)>::operator\(\)", dem.get(x, ""))
    n_ok = 0
    for i, (t, sg) in enumerate(DISPATCH):
        for entry in ("ud_%d" % i, "lb_%d" % i):
            if entry not in mod.functions:
                r.broke("dispatch rule: entry %s vanished" % entry)
                continue
            # frontier: the first used_digits_signed<..>::operator() on every call path from the entry
            front, seen, st = set(), set(), [entry]
            while st:
                x = st.pop()
                for y in edges.get(x, ()):
                    if y in seen:
                        continue
                    seen.add(y)
                    m = is_alg(y)
                    if m:
                        front.add(m.group(1))
                    else:
                        st.append(y)
            want = "true" if sg else "false"
            if not front:
                r.broke("dispatch rule: no used_digits_signed instantiation reachable from %s(%s)" % (entry.split("_")[0], t))
            elif front != {want}:
                r.violation("dispatch/%s/%s" % (entry.split("_")[0], t), "cnl::%s(%s): the used-digits algorithm entered is used_digits_signed<%s> but %s is a%s number: %s" % (
                    "used_digits" if entry.startswith("ud") else "leading_bits", t, ",".join(sorted(front)), t, " signed" if sg else "n unsigned",
                    "negative values are counted as if they were huge positive ones or as 0 digits" if sg else "the signed algorithm negates an unsigned value"), {"type": t, "frontier": sorted(front)})
            else:
                n_ok += 1
    for i, (t, w) in enumerate(TB_TYPES):
        entry = "tb_%d" % i
        if entry not in mod.functions:
            r.broke("width rule: entry %s vanished" % entry)
            continue
        front, seen, st = set(), set(), [entry]
        while st:
            x = st.pop()
            for y in edges.get(x, ()):
                if y in seen:
                    continue
                seen.add(y)
                m = re.search(r"cnl::countr_zero(?:<[^()]*>)?\(([^()]*)\)", dem.get(y, ""))
                if m:
                    front.add(m.group(1).replace(" const&", "").strip())
                else:
                    st.append(y)
        if not front:
            r.broke("width rule: no countr_zero reachable from trailing_bits(%s)" % t)
        elif any(_UBITS.get(u) != w for u in front):
            r.violation("width/trailing_bits/%s" % t, "cnl::trailing_bits(%s) counts the trailing zeros of %s, not of the %d-bit unsigned counterpart of its operand: bits above are ignored / invented"
                        % (t, ", ".join(sorted(front)), w), {"type": t, "frontier": sorted(front)})
        else:
            n_ok += 1
    return n_ok


# dependence rule: on a two-word (128-bit) operand every utility's result depends on both words for some value, so in the
# optimised kernel (dead code removed) both halves of the parameter must still be referenced.  A fast path that looks at
# one word only (seeded change M-C18-4: __builtin_popcountll of the truncated value at run time) leaves the other dead.
DEP_FNS = [("popcount", "cnl::uint128_t"), ("countl_zero", "cnl::uint128_t"), ("countr_zero", "cnl::uint128_t"), ("countl_one", "cnl::uint128_t"), ("countr_one", "cnl::uint128_t"),
           ("ispow2", "cnl::uint128_t"), ("log2p1", "cnl::uint128_t"), ("floor2", "cnl::uint128_t"), ("ceil2", "cnl::uint128_t"), ("countl_rsb", "cnl::int128_t"),
           ("used_digits", "cnl::int128_t"), ("used_digits", "cnl::uint128_t"), ("leading_bits", "cnl::int128_t"), ("trailing_bits", "cnl::uint128_t"), ("trailing_bits", "cnl::int128_t")]


def dependence_rule(r, work):
    from vlib import ir
    src = tc.PRELUDE["clang"] + "".join('extern "C" auto dep_%d(%s x) { return cnl::%s(x); }\n' % (i, t, f) for i, (f, t) in enumerate(DEP_FNS)) + \
        'extern "C" int dep_control(cnl::uint128_t x) { return __builtin_popcountll(static_cast<unsigned long long>(x)); }\n'
    n_ok = 0
    for cfg_extra, tag in (([], "rt"),):
        p, out = os.path.join(work, "dep.cpp"), os.path.join(work, "dep.ll")
        open(p, "w").write(src)
        rc, so, se, cmd = tc.clang_ll(p, out, "eqr")
        if rc != 0:
            raise tc.AnalysisBroken("dependence TU does not compile: " + se[:1500])
        mod = ir.parse_module(open(out).read())

        def dead_words(fn):
            body = "\n".join(l for lab in fn.order for l in fn.blocks[lab])
            return [pn for ty, pn in fn.params if not re.search(re.escape(pn) + r"(?![\w.])", body)]
        ctl = mod.functions.get("dep_control")
        if ctl is None or not dead_words(ctl):
            r.broke("dependence control: a popcount of the low word only was not reported")
        for i, (f, t) in enumerate(DEP_FNS):
            fn = mod.functions.get("dep_%d" % i)
            if fn is None:
                r.broke("dependence rule: kernel for cnl::%s(%s) vanished" % (f, t))
                continue
            if len(fn.params) != 2:
                r.broke("dependence rule: cnl::%s(%s): expected the operand as two words, got %d parameters" % (f, t, len(fn.params)))
                continue
            dw = dead_words(fn)
            if dw:
                r.violation("dependence/%s/%s" % (f, t), "cnl::%s(%s): the run-time result does not depend on the %s word of the operand (parameter %s is dead in the optimised kernel)" % (
                    f, t, "low" if dw[0] == fn.params[0][1] else "high", ",".join(dw)), {"function": f, "type": t, "ir": fn.text()})
            else:
                n_ok += 1
    return n_ok


def run(tier, seed, work):
    rng = random.Random(seed)
    r = report.Run(PROP, tier, seed, "other")
    n_dispatch = dispatch_rule(r, work)
    n_dep = dependence_rule(r, work)
    common.floor_check(r, "two-word dependence instances", n_dep, len(DEP_FNS))
    common.floor_check(r, "signedness-dispatch and width instances", n_dispatch, 2 * len(DISPATCH) + len(TB_TYPES))
    obs = gen_eq()
    ctl = common.controls()
    kern.run_obligations(work, obs + ctl, batch=10)
    common.check_controls(r, ctl)
    proved, unproved, claimed_n = 0, [], 0
    for ob in obs:
        cfg, fn, T = ob.cfg, ob.meta["fn"], ob.meta["T"]
        is_claimed = ob.key in CLAIMED_KEYS
        claimed_n += is_claimed
        if ob.status == "proved":
            proved += 1
            if not is_claimed:
                r.notes.append("note: %s is proved but not in the frozen claimed set" % ob.key)
        elif ob.status == "refuted":
            if is_claimed:
                r.violation(ob.key, "cnl::%s<%s> (%s configuration) is not equivalent to its <bit> definition `%s`" % (fn, T, cfg, ob.refs[0]), kern.ob_report(ob), finding_key="eq/%s/%s/%s" % (cfg, fn, T))
            else:
                unproved.append(ob.key)
        else:
            r.broke("%s: %s" % (ob.key, ob.detail))
    # UB lines
    L = gen_ub()
    lobs = []
    for ln in L:
        ob = kern.Ob(ln.key, ln.R.name, [(ln.F.name, "x")], ln.cnl, [], pre=ln.pre, cfg=ln.cfg, mode="ub", kind="ir")
        ob.line = ln
        lobs.append(ob)
    wobs = whole_rot()
    kern.run_obligations(work, lobs + wobs, batch=20, second_chance=False)
    uc = {"proved": 0, "refuted": 0, "undecided": 0}
    und = []
    for ob in lobs:
        ln = ob.line
        if ob.status != "compiled":
            r.broke("%s: %s" % (ln.key, ob.detail))
            continue
        kinds = set(re.findall(r"@llvm\.ubsantrap\(i8 (\d+)\)", ob.fn_text))
        if not kinds:
            uc["proved"] += 1
            continue
        var = ("arg", 0, "i%d" % ln.F.bits)
        try:
            g = gate.gated(ob.mod, ob.fn)
            parts = iset.leaves(g, var, ln.domain)
        except (gate.Unsupported, iset.Undecided, RecursionError) as e:
            uc["undecided"] += 1
            und.append({"key": ln.key, "residual_kinds": sorted(kinds), "why": str(e)[:120]})
            continue
        bad = ["for x in %s an undefined step is executed (ubsan kind %s)" % (D.describe(False if not ln.F.signed else True), leaf[2][0][2]) for D, leaf in parts if leaf[0] == "effect" and leaf[1] == "ubsantrap"]
        if bad:
            uc["refuted"] += 1
            r.violation(ln.key, "%s: `%s`: %s" % (ln.key, ln.cnl, "; ".join(bad[:2])), {"key": ln.key, "cnl": ln.cnl, "details": bad, "gated": gate.show(g)}, finding_key="ub/%s/%s/%s" % (ln.cfg, ln.meta["fn"], ln.meta["T"]))
        else:
            uc["proved"] += 1
    wclean = 0
    for ob in wobs:
        if ob.status != "compiled":
            r.broke("%s: %s" % (ob.key, ob.detail))
            continue
        kinds = set(re.findall(r"@llvm\.ubsantrap\(i8 (\d+)\)", ob.fn_text))
        if kinds:
            # an unconditional or count-dependent trap in a rotation with a free count: read the gated tree over (x, s)
            r.violation(ob.key, "%s: rotation with a free count keeps an undischarged undefined step (ubsan kinds %s): `x >> (width - s %% width)` is a full-width shift when s %% width == 0" % (ob.key, sorted(kinds)),
                        {"key": ob.key, "cnl": ob.cnl, "ir": ob.fn_text}, finding_key="ub-whole/%s/%s/%s" % (ob.cfg, ob.meta["fn"], ob.meta["T"]))
        else:
            wclean += 1
    lb = loop_bounds(work)
    nloops, unbounded = 0, []
    for fn, bounds in lb.items():
        if not fn.startswith("lb_"):
            continue
        for b in bounds:
            nloops += 1
            if b is None:
                unbounded.append(fn)
    if os.environ.get("C18_FREEZE"):
        _json.dump(sorted(o.key for o in obs if o.status == "proved"), open(_CL, "w"), indent=0)
        print("froze %d claimed keys" % proved)
    common.floor_check(r, "claimed EQ pairs", claimed_n, 50)
    common.floor_check(r, "EQ pairs proved", proved, 50)
    common.floor_check(r, "loops of generic definitions with a constant bound", nloops - len(unbounded), 4)
    common.floor_check(r, "UB kernels decided", uc["proved"] + uc["refuted"] + wclean, 180)
    r.coverage = {
        "explanation": "EQ against <bit> for a frozen claimed set (%d pairs; %d others unproved and not claimed), UB analysis of every utility on every width in both configurations (lines for pinned rotation counts, whole-domain kernels for free counts), loop bounds of the generic definitions by scalar evolution. used_digits / leading_bits / trailing_bits values and the unclaimed generic definitions are not decided." % (claimed_n, len(unproved)),
        "evaluations": len(obs) + len(L) + len(wobs) + nloops, "distinct_nontrivial": proved + uc["proved"] + uc["refuted"] + wclean + nloops,
        "rule": "non-trivial = proved EQ pair, decided UB kernel, loop with a constant bound",
        "eq_pairs": len(obs), "eq_claimed": claimed_n, "eq_proved": proved, "eq_unproved_not_claimed": unproved,
        "ub_lines": len(L), "ub_proved": uc["proved"], "ub_refuted": uc["refuted"], "ub_undecided": uc["undecided"], "ub_undecided_samples": und[:8],
        "rotation_whole_domain_kernels": len(wobs), "rotation_whole_domain_clean": wclean, "loops_bounded": nloops - len(unbounded), "loops": nloops, "loops_without_scev_bound_not_claimed": sorted(unbounded),
        "samples": [{"key": o.key, "cnl": o.cnl, "ref": o.refs[o.matched_ref]} for o in obs if o.status == "proved"][:6], "exhaustive": False,
    }
    return r.finish()


def replay(path, work):
    import json
    print(json.dumps(json.load(open(path)), indent=1)[:3000])
    return 1
