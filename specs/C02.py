"""C02 — division, remainder and quotient() obey the integer-division contract.

EQ: a/b == P(ra)/P(rb), a%b == P(ra)%P(rb) on the *unscaled* reps (so the identity, the sign of the remainder and
    |rem| < |b| are the built-in guarantees, transported by the exponent facts);
    unwrap(quotient(a,b)) == (W(ra) << digits(B)) / W(rb) in the result rep W: one truncating division.
T:  exponent of a/b is Ea-Eb, of a%b is Ea; quotient's rep has >= digits(A)+digits(B) digits, is signed iff either
    operand is, exponent Ea-Eb-digits(B).
"""
import random
from vlib import tc, kern, facts as factmod, report
from vlib.cty import *
from . import common
from .C01 import sname

PROP = "C02"


def div_pres(P, A, a="a", b="b"):
    if not P.signed:
        return [["%s != 0" % b]]
    return [["%s != 0" % b, "%s != -1" % b], ["%s == -1" % b, "(%s)%s != std::numeric_limits<%s>::lowest()" % (P.name, a, P.name)]]


def gen(tier, rng):
    obs, facts = [], []
    if tier == "quick":
        reps = [I8, U8, I16, I32, U32, I64]
        epairs = [(-3, -3), (-3, -5), (-5, -3), (4, -2), (0, 0)]
        radixes = [2, 10]
    else:
        reps = ALL64
        epairs = [(-3, -3), (-3, -5), (-5, -3), (4, -2), (0, 0), (-70, 0), (0, -70), (35, -35), (-1, 1), (55, 15)]
        radixes = [2, 10]
    cfgs = ["clang"] if tier == "quick" else ["clang", "gcc"]
    for cfg in cfgs:
        for radix in radixes:
            for A in reps:
                for B in reps:
                    P = uac(A, B)
                    for (ea, eb) in (epairs if radix == 2 else epairs[:3]):
                        TA, TB = sname(A.name, ea, radix), sname(B.name, eb, radix)
                        for op, eres in (("/", ea - eb), ("%", ea)):
                            if abs(eres) > 140:
                                continue
                            for k, pre in enumerate(div_pres(P, A)):
                                key = "%s/r%d/%s,%s/e%d,%d/%s#%d" % (cfg, radix, A.short, B.short, ea, eb, op, k)
                                obs.append(kern.Ob(key, P.name, [(A.name, "a"), (B.name, "b")],
                                                   "return unwrap(wrap<%s>(a) %s wrap<%s>(b));" % (TA, op, TB), ["return a %s b;" % op], pre=pre, cfg=cfg,
                                                   meta=dict(anchor="include/cnl/_impl/scaled/binary_operator.h (non zero-degree specialisation)")))
                            if cfg == "clang":
                                facts.append(factmod.Fact("type/r%d/%s,%s/e%d,%d/%s" % (radix, A.short, B.short, ea, eb, op),
                                                          "std::is_same_v<decltype(std::declval<%s>() %s std::declval<%s>()), %s>" % (TA, op, TB, sname(P.name, eres, radix)), 1,
                                                          meta=dict(anchor="include/cnl/_impl/scaled/definition.h operator%s on power<>" % op)))
        # quotient(): radix 2 only (fractional_digits is defined for radix 2)
        qreps = [I8, U8, I16, U16, I32, U32] if tier == "quick" else [I8, U8, I16, U16, I32, U32, I64, U64]
        for A in qreps:
            for B in qreps:
                for (ea, eb) in (epairs[:4] if tier == "quick" else epairs):
                    TA, TB = sname(A.name, ea), sname(B.name, eb)
                    signed = A.signed or B.signed
                    need = A.digits + B.digits
                    eres = ea - eb - B.digits
                    RT = "decltype(quotient(std::declval<%s>(), std::declval<%s>()))" % (TA, TB)
                    RR = "decltype(unwrap(std::declval<%s>()))" % RT
                    if cfg == "clang":
                        facts.append(factmod.Fact("quotient/%s,%s/e%d,%d/exponent" % (A.short, B.short, ea, eb), "cnl::_impl::tag_of_t<%s>::exponent" % RT, eres, may_reject=need > 127))
                        facts.append(factmod.Fact("quotient/%s,%s/e%d,%d/digits" % (A.short, B.short, ea, eb), "cnl::digits_v<%s>" % RR, None, may_reject=need > 127,
                                                  judge=lambda v, need=need: None if v >= need else "result rep has %d digits, %d are needed so that no dividend can overflow the pre-shifted numerator" % (v, need)))
                        facts.append(factmod.Fact("quotient/%s,%s/e%d,%d/signed" % (A.short, B.short, ea, eb), "cnl::numbers::signedness_v<%s>" % RR, None, may_reject=need > 127,
                                                  judge=lambda v, signed=signed: None if (v == 1 or not signed) else "the quotient of a signed and an unsigned operand is stored in an unsigned rep: negative quotients are lost (e.g. quotient(-8, 2u))",
                                                  meta=dict(anchor="include/cnl/_impl/scaled_integer/named.h make_scaled_integer(fraction): natural_result / rep_type")))
                    if need > 127:
                        continue
                    W = "using W = %s;" % RR
                    pres = [["b != 0"]] if not signed else [["b != 0"]]
                    for k, pre in enumerate(pres):
                        obs.append(kern.Ob("%s/quotient/%s,%s/e%d,%d#%d" % (cfg, A.short, B.short, ea, eb, k), RR, [(A.name, "a"), (B.name, "b")],
                                           "return unwrap(quotient(wrap<%s>(a), wrap<%s>(b)));" % (TA, TB),
                                           [W + " return (W)(((W)a << %d) / (W)b);" % B.digits, W + " return (W)(((W)a * ((W)1 << %d)) / (W)b);" % B.digits],
                                           pre=pre, cfg=cfg, meta=dict(anchor="include/cnl/_impl/scaled_integer/named.h quotient; scaled/convert_operator.h (fraction -> scaled)")))
        # elastic_scaled_integer operands of quotient
        for (da, db, ea, eb) in ([(15, 7, -8, -3), (10, 20, 0, -10), (31, 31, -16, -16)] if tier == "quick" else [(15, 7, -8, -3), (10, 20, 0, -10), (31, 31, -16, -16), (7, 15, 2, -4), (24, 8, -20, 0), (40, 20, -30, -10)]):
            for sa in ("int", "unsigned"):
                TA = "elastic_scaled_integer<%d, power<%d>, %s>" % (da, ea, sa)
                TB = "elastic_scaled_integer<%d, power<%d>, int>" % (db, eb)
                RT = "decltype(quotient(std::declval<%s>(), std::declval<%s>()))" % (TA, TB)
                RR = "decltype(unwrap(std::declval<%s>()))" % RT
                ra, rb = "decltype(unwrap(std::declval<%s>()))" % TA, "decltype(unwrap(std::declval<%s>()))" % TB
                if cfg == "clang":
                    facts.append(factmod.Fact("quotient/elastic/%d%s,%d/e%d,%d/exponent" % (da, sa[0], db, ea, eb), "cnl::_impl::tag_of_t<%s>::exponent" % RT, ea - eb - db))
                    facts.append(factmod.Fact("quotient/elastic/%d%s,%d/e%d,%d/digits" % (da, sa[0], db, ea, eb), "cnl::digits_v<%s>" % RT, None,
                                              judge=lambda v, need=da + db: None if v >= need else "quotient type has %d digits, %d needed" % (v, need)))
                lim_a = 2 ** da - 1
                lim_b = 2 ** db - 1
                pre = ["b != 0", "a <= %d" % lim_a, "b <= %d" % lim_b, "b >= -%d" % lim_b] + (["a >= -%d" % lim_a] if sa == "int" else [])
                obs.append(kern.Ob("%s/quotient/elastic/%d%s,%d/e%d,%d" % (cfg, da, sa[0], db, ea, eb), RR, [(ra, "a"), (rb, "b")],
                                   "return unwrap(quotient(wrap<%s>(a), wrap<%s>(b)));" % (TA, TB),
                                   ["using W = %s; return (W)(((W)a << %d) / (W)b);" % (RR, db), "using W = %s; return (W)(((W)a * ((W)1 << %d)) / (W)b);" % (RR, db)],
                                   pre=pre, cfg=cfg))
        # elastic_scaled_integer operands of / and %: every signedness pairing; the reference is the mathematical
        # truncating quotient / remainder of the rep values, computed in a 64-bit signed type that holds every operand
        # (40, 7): the dividend needs a wider machine type than the remainder (seeded change M-C02-5: operands cast to a type
        # that holds the result and the divisor only)
        for (da, db, ea, eb) in ([(15, 7, -8, -3), (7, 15, -3, -8), (31, 31, -16, -16), (8, 8, -2, -2), (40, 7, -8, -2), (7, 40, -2, -8)] if tier == "quick" else
                                 [(15, 7, -8, -3), (7, 15, -3, -8), (31, 31, -16, -16), (8, 8, -2, -2), (40, 7, -8, -2), (7, 40, -2, -8), (10, 20, 0, -10), (24, 8, -20, 0), (1, 31, 0, 0), (31, 1, 5, -5),
                                  (50, 20, 0, 0), (33, 3, -1, -1)]):
            for sa in ("int", "unsigned"):
                for sb in ("int", "unsigned"):
                    TA = "elastic_scaled_integer<%d, power<%d>, %s>" % (da, ea, sa)
                    TB = "elastic_scaled_integer<%d, power<%d>, %s>" % (db, eb, sb)
                    ra, rb = "decltype(unwrap(std::declval<%s>()))" % TA, "decltype(unwrap(std::declval<%s>()))" % TB
                    lim_a, lim_b = 2 ** da - 1, 2 ** db - 1
                    pre = ["b != 0", "a <= %d" % lim_a, "b <= %d" % lim_b] + (["a >= -%d" % lim_a] if sa == "int" else []) + (["b >= -%d" % lim_b] if sb == "int" else [])
                    for op, eres in (("/", ea - eb), ("%", ea)):
                        RT = "decltype(std::declval<%s>() %s std::declval<%s>())" % (TA, op, TB)
                        RR = "decltype(unwrap(std::declval<%s>()))" % RT
                        key = "%s/elastic/%d%s,%d%s/e%d,%d/%s" % (cfg, da, sa[0], db, sb[0], ea, eb, op)
                        obs.append(kern.Ob(key, RR, [(ra, "a"), (rb, "b")], "return unwrap(wrap<%s>(a) %s wrap<%s>(b));" % (TA, op, TB),
                                           ["return (%s)((long long)a %s (long long)b);" % (RR, op)], pre=pre, cfg=cfg,
                                           meta=dict(anchor="include/cnl/_impl/elastic_tag/policy.h (divide_op / modulo_op), elastic_tag/custom_operator.h")))
                        if cfg == "clang":
                            facts.append(factmod.Fact("type/elastic/%d%s,%d%s/e%d,%d/%s/exponent" % (da, sa[0], db, sb[0], ea, eb, op), "cnl::_impl::tag_of_t<%s>::exponent" % RT, eres))
                            # the remainder / quotient of a negative dividend or a negative divisor can be negative
                            if op == "%":
                                facts.append(factmod.Fact("type/elastic/%d%s,%d%s/e%d,%d/%%/signed" % (da, sa[0], db, sb[0], ea, eb), "cnl::numbers::signedness_v<%s>" % RR, None,
                                                          judge=lambda v, need=(sa == "int"): None if (v == 1 or not need) else "a %% b of a signed dividend is stored in an unsigned rep"))
    return obs, facts


FLOOR = {"quick": dict(eq=600, facts=300), "thorough": dict(eq=4000, facts=1500)}


def run(tier, seed, work):
    rng = random.Random(seed)
    r = report.Run(PROP, tier, seed, "translation_validation")
    obs, facts = gen(tier, rng)
    ctl, fctl = common.controls(), common.fact_controls()
    kern.run_obligations(work, obs + ctl)
    factmod.run_facts(work, facts + fctl)
    common.check_controls(r, ctl)
    common.check_fact_controls(r, fctl)
    n = common.settle_eq(r, obs)
    nf = common.settle_facts(r, facts)
    common.floor_check(r, "kernel pairs proved", n["proved"], FLOOR[tier]["eq"])
    common.floor_check(r, "type facts proved", nf["proved"], FLOOR[tier]["facts"])
    good = [o for o in obs if o.status == "proved"]
    r.coverage = {
        "programs": len(obs), "disagreements_checked": n["refuted"], "kernel_pairs_proved": n["proved"],
        "type_facts": len(facts), "type_facts_proved": nf["proved"], "type_facts_refuted": nf["refuted"], "rejected_by_library": n["rejected"] + nf["rejected"],
        "rule": "a/b, a%b == built-in / and % on the promoted unscaled reps; unwrap(quotient(a,b)) == ((W)ra << digits(B)) / (W)rb; exponents and widths as type facts",
        "samples": [{"key": o.key, "cnl": o.cnl, "ref": o.refs[o.matched_ref], "pre": o.pre, "normal_form": o.nf_cnl.pretty} for o in rng.sample(good, min(6, len(good)))],
        "exhaustive": tier == "thorough",
    }
    r.assumptions = ["b != 0; most-negative / -1 excluded (two conjunctive domain pieces)", "(a/b)*b + a%b == a, sign of remainder and |rem| < |b| are taken from the C++ definition of the built-in operators"]
    return r.finish()


def replay(path, work):
    from .C12 import replay as rp
    return rp(path, work)
