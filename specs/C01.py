"""C01 — scaled_integer +, -, * and unary minus are exact real arithmetic on rep x radix^exponent.

T: result exponent/rep/radix of every instantiation in the matrix; power<> tag algebra over [-70,70]^2;
   power_value<T,N,Radix>() == Radix^N.
EQ: unwrap(a op b) == (P(a) * Radix^dl) op (P(b) * Radix^dr) with exactly one of dl, dr non-zero
   (alignment by multiplication to the smaller exponent: no digit is ever discarded).
"""
import random
from vlib import tc, kern, facts as factmod, report
from vlib.cty import *
from . import common

PROP = "C01"


def sname(rep, e, radix=2):
    return "scaled_integer<%s, power<%d%s>>" % (rep, e, "" if radix == 2 else ", %d" % radix)


def factor_lit(P, radix, d):
    """Radix^d as a literal of the (promoted) operand type P — the alignment factor"""
    return P.lit(radix ** d)


def fits(P, radix, d):
    return radix ** d <= P.max


def gen(tier, rng):
    obs, facts, witnesses = [], [], []
    if tier == "quick":
        reps = [I8, U8, I16, I32, U32, I64]
        deltas = [0, 1, 3, 7, 31]
        anchors = [-3]
        radixes = [2, 10]
        pairs = [(a, b) for a in reps for b in reps]
    else:
        reps = ALL64
        deltas = list(range(0, 16)) + [20, 30, 31, 40, 62]
        anchors = [-70, -1, 0, 1, 55]
        radixes = [2, 10]
        pairs = [(a, b) for a in reps for b in reps]
    for cfg in (["clang", "gcc"] if tier == "thorough" else ["clang"]):
        for radix in radixes:
            for (A, B) in pairs:
                PA, PB = promote(A), promote(B)
                R = uac(A, B)
                for d in deltas:
                    if radix == 10 and d > (4 if tier == "quick" else 9):
                        continue
                    for order in ("lhs-coarser", "rhs-coarser"):
                        if d == 0 and order == "rhs-coarser":
                            continue
                        for e0 in (anchors if d in (0, 1, 3) or tier == "quick" else anchors[:2]):
                            if order == "lhs-coarser":
                                ea, eb = e0 + d, e0
                                dl, dr = d, 0
                            else:
                                ea, eb = e0, e0 + d
                                dl, dr = 0, d
                            if max(ea, eb) > 70 or min(ea, eb) < -70:
                                continue
                            TA, TB = sname(A.name, ea, radix), sname(B.name, eb, radix)
                            okfit = fits(PA, radix, dl) and fits(PB, radix, dr)
                            # radix 2 on a signed promoted rep needs d < digits (CNL's own static_assert)
                            for op in ("+", "-"):
                                key = "%s/r%d/%s,%s/e%d,%d/%s" % (cfg, radix, A.short, B.short, ea, eb, op)
                                la = "a" if dl == 0 else "a * %s" % factor_lit(PA, radix, dl)
                                lb = "b" if dr == 0 else "b * %s" % factor_lit(PB, radix, dr)
                                if not okfit:
                                    if cfg == "clang" and op == "+":
                                        witnesses.append(kern.Ob("witness/" + key, R.name, [(A.name, "a"), (B.name, "b")],
                                                                 "return unwrap(wrap<%s>(a) %s wrap<%s>(b));" % (TA, op, TB), [], cfg=cfg, may_reject=True, kind="ir"))
                                    continue
                                obs.append(kern.Ob(key, R.name, [(A.name, "a"), (B.name, "b")],
                                                   "return unwrap(wrap<%s>(a) %s wrap<%s>(b));" % (TA, op, TB),
                                                   ["return (%s) %s (%s);" % (la, op, lb)], cfg=cfg,
                                                   meta=dict(anchor="include/cnl/_impl/scaled/binary_operator.h (zero-degree specialisation); num_traits/scale.h; power_value.h")))
                                if cfg == "clang":
                                    facts.append(factmod.Fact("type/" + key, "std::is_same_v<decltype(std::declval<%s>() %s std::declval<%s>()), %s>" % (TA, op, TB, sname(R.name, min(ea, eb), radix)), 1,
                                                              meta=dict(anchor="include/cnl/_impl/scaled/definition.h operator%s on power<>" % op)))
                            if abs(ea + eb) <= 140:
                                key = "%s/r%d/%s,%s/e%d,%d/*" % (cfg, radix, A.short, B.short, ea, eb)
                                obs.append(kern.Ob(key, R.name, [(A.name, "a"), (B.name, "b")],
                                                   "return unwrap(wrap<%s>(a) * wrap<%s>(b));" % (TA, TB), ["return a * b;"], cfg=cfg,
                                                   meta=dict(anchor="include/cnl/_impl/scaled/binary_operator.h (non zero-degree specialisation)")))
                                if cfg == "clang":
                                    facts.append(factmod.Fact("type/" + key, "std::is_same_v<decltype(std::declval<%s>() * std::declval<%s>()), %s>" % (TA, TB, sname(R.name, ea + eb, radix)), 1))
            # unary minus / plus, built-in operands (exponent 0)
            for A in reps:
                PA = promote(A)
                for e in ([-3, 5] if tier == "quick" else [-70, -3, 0, 5, 70]):
                    TA = sname(A.name, e, radix)
                    for op in ("-", "+"):
                        key = "%s/r%d/%s/e%d/unary%s" % (cfg, radix, A.short, e, op)
                        obs.append(kern.Ob(key, PA.name, [(A.name, "a")], "return unwrap(%swrap<%s>(a));" % (op, TA), ["return %sa;" % op], cfg=cfg))
                        if cfg == "clang":
                            facts.append(factmod.Fact("type/" + key, "std::is_same_v<decltype(%sstd::declval<%s>()), %s>" % (op, TA, sname(PA.name, e, radix)), 1))
                for B in ([I16, U32, I64] if tier == "quick" else reps):
                    PB = promote(B)
                    R = uac(A, B)
                    for d in ([2] if tier == "quick" else [1, 2, 5]):
                        # scaled(e = -d) op built-in (e = 0): the built-in is aligned by multiplying with Radix^d
                        if not fits(PB, radix, d):
                            continue
                        TA = sname(A.name, -d, radix)
                        for op in ("+", "-", "*"):
                            for side in ("rhs", "lhs"):
                                key = "%s/r%d/%s,%s/e%d/builtin-%s/%s" % (cfg, radix, A.short, B.short, -d, side, op)
                                bl = "b * %s" % factor_lit(PB, radix, d)
                                if op == "*":
                                    ref = "return a * b;" if side == "rhs" else "return b * a;"
                                    eres = -d
                                else:
                                    ref = ("return a %s (%s);" % (op, bl)) if side == "rhs" else ("return (%s) %s a;" % (bl, op))
                                    eres = -d
                                cnl = ("return unwrap(wrap<%s>(a) %s b);" % (TA, op)) if side == "rhs" else ("return unwrap(b %s wrap<%s>(a));" % (op, TA))
                                obs.append(kern.Ob(key, R.name, [(A.name, "a"), (B.name, "b")], cnl, [ref], cfg=cfg,
                                                   meta=dict(anchor="include/cnl/_impl/wrapper/binary_arithmetic_operator.h (number_can_wrap overloads)")))
                                if cfg == "clang":
                                    e1 = ("std::declval<%s>() %s std::declval<%s>()" % (TA, op, B.name)) if side == "rhs" else ("std::declval<%s>() %s std::declval<%s>()" % (B.name, op, TA))
                                    facts.append(factmod.Fact("type/" + key, "std::is_same_v<decltype(%s), %s>" % (e1, sname(R.name, eres, radix)), 1))
    # CNL integer wrappers as reps
    wr = [("elastic_integer<15>", "elastic_integer<7>", 2, "short", "signed char", ["a >= -32767", "b >= -127"]),
          ("elastic_integer<31>", "elastic_integer<10, unsigned>", 3, "int", "unsigned", ["a >= -2147483647", "b <= 1023"]),
          # digits + shift at and around the 32 / 64 digit boundaries of the type the alignment is computed in (seeded change
          # M-C01-6: the elastic scale<> picked its intermediate type from digits + shift - 1)
          ("elastic_integer<16>", "elastic_integer<16>", 16, "int", "int", ["a >= -65535", "a <= 65535", "b >= -65535", "b <= 65535"]),
          ("elastic_integer<15>", "elastic_integer<20>", 16, "short", "int", ["a >= -32767", "b >= -1048575", "b <= 1048575"]),
          ("elastic_integer<17>", "elastic_integer<9>", 15, "int", "short", ["a >= -131071", "a <= 131071", "b >= -511", "b <= 511"]),
          ("elastic_integer<17, unsigned>", "elastic_integer<9, unsigned>", 16, "unsigned", "unsigned short", ["a <= 131071", "b <= 511"]),
          ("elastic_integer<31>", "elastic_integer<31>", 33, "int", "int", ["a >= -2147483647", "b >= -2147483647"]),
          ("elastic_integer<40>", "elastic_integer<12>", 24, "long", "short", ["a >= -1099511627775", "a <= 1099511627775", "b >= -4095", "b <= 4095"]),
          ("overflow_integer<int, native_overflow_tag>", "overflow_integer<short, native_overflow_tag>", 4, "int", "short", []),
          ("rounding_integer<int, native_rounding_tag>", "rounding_integer<long, native_rounding_tag>", 1, "int", "long", [])]
    for (WA, WB, d, ra, rb, wpre) in wr:
        for op in ("+", "-", "*"):
            for order in (0, 1):
                ea, eb = (-3 + d, -3) if order == 0 else (-3, -3 + d)
                TA, TB = sname(WA, ea), sname(WB, eb)
                decl = "using TA = %s; using TB = %s; using RR = decltype(unwrap(std::declval<TA>() %s std::declval<TB>()));" % (TA, TB, op)
                cmap = {"short": I16, "signed char": I8, "int": I32, "unsigned": U32, "long": I64, "unsigned short": U16}
                if op == "*":
                    ref = decl + " return (RR)a * (RR)b;"
                else:
                    # alignment happens in the operand's own (promoted) representation, then the operator in the result's
                    if WA.startswith("elastic"):
                        # elastic reps widen before they are scaled: alignment is exact for every value
                        ref = decl + (" return ((RR)a * (RR)%d) %s (RR)b;" % (2 ** d, op) if order == 0 else " return (RR)a %s ((RR)b * (RR)%d);" % (op, 2 ** d))
                    else:
                        ref = decl + (" return (RR)(a * %s) %s (RR)b;" % (promote(cmap[ra]).lit(2 ** d), op) if order == 0
                                      else " return (RR)a %s (RR)(b * %s);" % (op, promote(cmap[rb]).lit(2 ** d)))
                obs.append(kern.Ob("clang/wrapped-rep/%s,%s/e%d,%d/%s" % (WA, WB, ea, eb, op), "decltype(unwrap(std::declval<%s>() %s std::declval<%s>()))" % (TA, op, TB),
                                   [(ra, "a"), (rb, "b")], decl + " return unwrap(wrap<TA>(a) %s wrap<TB>(b));" % op, [ref], cfg="clang", pre=wpre))
                eres = min(ea, eb) if op != "*" else ea + eb
                facts.append(factmod.Fact("type/wrapped-rep/%s,%s/e%d,%d/%s" % (WA, WB, ea, eb, op),
                                          "decltype(std::declval<%s>() %s std::declval<%s>())::scale::exponent == %d" % (TA, op, TB, eres) if False else
                                          "cnl::_impl::tag_of_t<decltype(std::declval<%s>() %s std::declval<%s>())>::exponent" % (TA, op, TB), eres))
    # tag algebra alone, and the alignment factor itself
    rng_e = range(-70, 71) if tier == "thorough" else list(range(-70, 71, 7)) + [-1, 0, 1]
    for radix in (2, 10):
        for a in rng_e:
            for b in (rng_e if tier == "thorough" else [-70, -9, -1, 0, 1, 8, 70]):
                rs = "" if radix == 2 else ", %d" % radix
                for op, e in (("+", min(a, b)), ("-", min(a, b)), ("*", a + b), ("/", a - b), ("%", a)):
                    facts.append(factmod.Fact("tag/r%d/%d%s%d" % (radix, a, op, b),
                                              "std::is_same_v<decltype(power<%d%s>{} %s power<%d%s>{}), power<%d%s>>" % (a, rs, op, b, rs, e, rs), 1,
                                              meta=dict(anchor="include/cnl/_impl/scaled/definition.h")))
    for T in ALL64:
        for radix in (2, 10, 3):
            n = 0
            while radix ** n <= promote(T).max and (n < 64):
                if tier == "thorough" or n in (0, 1, 2, 7, 8, 15, 16, 30, 31, 62, 63) or radix ** (n + 1) > promote(T).max:
                    P = promote(T)
                    if not (radix == 2 and P.signed and n >= P.digits):
                        facts.append(factmod.Fact("power_value/%s/r%d/%d" % (T.short, radix, n),
                                                  "cnl::_impl::power_value<%s, %d, %d>() == %s" % (T.name, n, radix, (P if P.bits >= 32 else I32).lit(radix ** n)), 1,
                                                  meta=dict(anchor="include/cnl/_impl/power_value.h")))
                n += 1
    return obs, facts, witnesses


FLOOR = {"quick": dict(eq=1500, facts=3000, wit=20, limb=36), "thorough": dict(eq=10000, facts=15000, wit=10, limb=144)}


def limb_plan(tier):
    """scaled_integer over MULTI-LIMB reps: a + b, a - b, a * b for all limb values (limb algebra, DESIGN 2.5b):
    the result's representation equals sval(a) 2^(Ea - Er) +- sval(b) 2^(Eb - Er) (Er = min) resp. sval(a) sval(b), modulo
    2^(result width)"""
    from vlib import limbalg as la
    reps = [("cnl::wide_integer<200, int>", 224, 32, True), ("cnl::wide_integer<129, std::int64_t>", 192, 64, True), ("cnl::wide_integer<200, unsigned>", 224, 32, False)]
    exps = [(0, 0), (-10, -20), (-20, -10), (5, -3)]
    if tier != "quick":
        reps += [("cnl::wide_integer<300, std::uint64_t>", 320, 64, False), ("cnl::wide_integer<140, std::int16_t>", 144, 16, True), ("cnl::wide_integer<255, std::int64_t>", 256, 64, True)]
        exps += [(-1, -64), (-70, 0), (3, 3), (-33, -32)]
    src, plan, k = tc.PRELUDE["clang"], [], 0
    for (R, W, L, sg) in reps:
        for (Ea, Eb) in exps:
            A, B = "cnl::scaled_integer<%s, cnl::power<%d>>" % (R, Ea), "cnl::scaled_integer<%s, cnl::power<%d>>" % (R, Eb)
            for op, sym in (("add", "+"), ("sub", "-"), ("mul", "*")):
                f = "sk%d" % k
                k += 1
                src += 'extern "C" auto %s(%s a, %s b) { return a %s b; }\n' % (f, A, B, sym)
                Er = min(Ea, Eb)

                def spec(cx, v, RW, op=op, Ea=Ea, Eb=Eb, Er=Er, W=W, sg=sg):
                    a = la.sval(cx, v[0], W) if sg else v[0]
                    b = la.sval(cx, v[1], W) if sg else v[1]
                    if op == "mul":
                        return la.pmul(a, b)
                    return la.padd(la.pscale(a, 1 << (Ea - Er)), la.pscale(b, 1 << (Eb - Er)), 1 if op == "add" else -1)
                plan.append(("limb/%s/%s/%d,%d" % (op, R.replace("cnl::", "").replace("std::", ""), Ea, Eb), "scaled_integer<%s, power<%d>> %s scaled_integer<.., power<%d>>" % (R.replace("cnl::", ""), Ea, sym, Eb),
                             f, [("a", W, L), ("b", W, L)], None, spec))
    return src, plan


def run(tier, seed, work):
    rng = random.Random(seed)
    r = report.Run(PROP, tier, seed, "translation_validation")
    obs, facts, wit = gen(tier, rng)
    ctl, fctl = common.controls(), common.fact_controls()
    kern.run_obligations(work, obs + ctl)
    kern.run_obligations(work, wit, batch=3)
    factmod.run_facts(work, facts + fctl)
    common.check_controls(r, ctl)
    common.check_fact_controls(r, fctl)
    n = common.settle_eq(r, obs)
    nf = common.settle_facts(r, facts)
    nw = 0
    for w in wit:
        if w.status == "rejected":
            nw += 1
        elif w.status == "compiled":
            # accepted although no non-zero operand can be aligned without wrapping (unsigned-narrow reps): outside the
            # property's own restriction, so not a violation; counted
            pass
        else:
            r.broke("witness %s: %s %s" % (w.key, w.status, w.detail))
    common.floor_check(r, "kernel pairs proved", n["proved"], FLOOR[tier]["eq"])
    common.floor_check(r, "type facts proved", nf["proved"], FLOOR[tier]["facts"])
    common.floor_check(r, "compile-fail witnesses rejected", nw, min(FLOOR[tier]["wit"], len(wit)))
    lsrc, lplan = limb_plan(tier)
    lcnt = common.limb_block(r, work, "c01limb", lsrc, lplan, seed, FLOOR[tier]["limb"], "multi-limb scaled_integer obligations proved")
    good = [o for o in obs if o.status == "proved"]
    r.coverage = {
        "programs": len(obs), "disagreements_checked": n["refuted"], "kernel_pairs_proved": n["proved"],
        "type_facts": len(facts), "type_facts_proved": nf["proved"], "type_facts_refuted": nf["refuted"],
        "compile_fail_witnesses": len(wit), "compile_fail_witnesses_rejected": nw,
        "multi_limb_obligations": len(lplan), "multi_limb_proved": lcnt["proved"], "multi_limb_refuted": lcnt["refuted"], "multi_limb_undecided": lcnt["undecided"],
        "rule": "unwrap(a op b) == (P(a)*Radix^dl) op (P(b)*Radix^dr) as normal forms of optimised IR, one of dl,dr zero; result exponent min / sum as type facts",
        "samples": [{"key": o.key, "cnl": o.cnl, "ref": o.refs[o.matched_ref], "normal_form": o.nf_cnl.pretty} for o in rng.sample(good, min(6, len(good)))],
        "exhaustive": tier == "thorough",
    }
    r.assumptions = ["operands restricted to those whose aligned operands and exact result fit the promoted representation (where wrap-around and real arithmetic agree)"]
    return r.finish()


def replay(path, work):
    from .C12 import replay as rp
    return rp(path, work)
