"""C03 — comparisons agree with the mathematical order of the represented values.

EQ, each of the six operators separately:
 * scaled_integer over built-in reps, exponent difference d: == (P(ra) * Radix^d) op rb, the built-in comparison of the
   exponent-aligned representations (what the property prescribes for built-in reps of different signedness);
 * elastic_integer pairs over every sign/width mix: == comparison by value in a type that holds both;
 * elastic_scaled_integer pairs with different exponents: == ((W)ra << d) op (W)rb by value;
 * built-in integer vs wrapper == wrapper vs wrapper (sibling agreement, both against the same reference).
T: common_elastic_type has max digits and is signed if either is.
"""
import random
from vlib import tc, kern, facts as factmod, report
from vlib.cty import *
from . import common
from .C01 import sname, fits, factor_lit
from .C05 import ename, erange

PROP = "C03"


def _lit(v):
    """C++ literal of an operand bound (bounds beyond 64 bits are built in 128-bit arithmetic: a bare decimal literal that
    large is unsigned long long and its negation wraps)"""
    if -(1 << 63) < v < (1 << 63):
        return "%dLL" % v if v >= 0 else "(-%dLL)" % -v
    m = abs(v)
    e = "(((cnl::int128_t)%dULL << 64) | (cnl::int128_t)%dULL)" % (m >> 64, m & ((1 << 64) - 1))
    return e if v >= 0 else "(-%s)" % e

CMPS = ["==", "!=", "<", "<=", ">", ">="]


def gen(tier, rng):
    obs, facts = [], []
    if tier == "quick":
        reps = [I8, U8, I32, U32, I64, U64]
        deltas = [0, 1, 5]
        cfgs = ["clang"]
    else:
        reps = ALL64
        deltas = [0, 1, 2, 5, 8, 15, 30]
        cfgs = ["clang", "gcc"]
    for cfg in cfgs:
        for radix in (2, 10):
            for A in reps:
                for B in reps:
                    PA, PB = promote(A), promote(B)
                    for d in deltas:
                        if radix == 10 and d > 3:
                            continue
                        for order in ("lhs-coarser", "rhs-coarser"):
                            if d == 0 and order == "rhs-coarser":
                                continue
                            ea, eb = (-4 + d, -4) if order == "lhs-coarser" else (-4, -4 + d)
                            dl, dr = (d, 0) if order == "lhs-coarser" else (0, d)
                            if not (fits(PA, radix, dl) and fits(PB, radix, dr)):
                                continue
                            if radix == 2 and ((PA.signed and dl >= PA.digits) or (PB.signed and dr >= PB.digits)):
                                continue
                            TA, TB = sname(A.name, ea, radix), sname(B.name, eb, radix)
                            la = "a" if dl == 0 else "(a * %s)" % factor_lit(PA, radix, dl)
                            lb = "b" if dr == 0 else "(b * %s)" % factor_lit(PB, radix, dr)
                            for op in CMPS:
                                obs.append(kern.Ob("%s/scaled/r%d/%s,%s/e%d,%d/%s" % (cfg, radix, A.short, B.short, ea, eb, op), "bool", [(A.name, "a"), (B.name, "b")],
                                                   "return wrap<%s>(a) %s wrap<%s>(b);" % (TA, op, TB), ["return %s %s %s;" % (la, op, lb)], cfg=cfg,
                                                   meta=dict(anchor="include/cnl/_impl/scaled_integer/operators.h (shiftage, lhs_type/rhs_type); wrapper/comparison_operator.h")))
                    # built-in integer on one side == exponent-0 scaled_integer on that side
                    if radix == 2 and B in (I8, U32, I64, U64):
                        d = 2
                        if fits(PB, 2, d):
                            TA = sname(A.name, -d)
                            for op in CMPS:
                                lb = "(b * %s)" % factor_lit(PB, 2, d)
                                obs.append(kern.Ob("%s/scaled/%s,%s/e%d/rhs-builtin/%s" % (cfg, A.short, B.short, -d, op), "bool", [(A.name, "a"), (B.name, "b")],
                                                   "return wrap<%s>(a) %s b;" % (TA, op), ["return a %s %s;" % (op, lb)], cfg=cfg))
                                obs.append(kern.Ob("%s/scaled/%s,%s/e%d/lhs-builtin/%s" % (cfg, A.short, B.short, -d, op), "bool", [(A.name, "a"), (B.name, "b")],
                                                   "return b %s wrap<%s>(a);" % (op, TA), ["return %s %s a;" % (lb, op)], cfg=cfg))
        # elastic_integer: by value whatever the widths and signedness
        ed = [1, 7, 8, 15, 16, 31, 32, 33, 63] if tier == "quick" else [1, 2, 7, 8, 9, 15, 16, 17, 31, 32, 33, 47, 62, 63, 64]
        epairs = [(a, b) for a in ed for b in ed]
        if tier == "quick":
            epairs = common.sample(rng, epairs, 14) + [(8, 8), (7, 8), (31, 32), (32, 31), (63, 63), (1, 63)]
        for (L, R) in epairs:
            for Ls in (True, False):
                for Rs in (True, False):
                    for fam in (("i8", "int") if tier == "thorough" else ("i8",)):
                        EL, ER = ename(L, Ls, fam), ename(R, Rs, fam)
                        ra, rb = "cnl::_impl::rep_of_t<%s>" % EL, "cnl::_impl::rep_of_t<%s>" % ER
                        A, B = erange(L, Ls), erange(R, Rs)
                        pre = ["a >= %s" % _lit(A[0]), "a <= %s" % _lit(A[1]), "b >= %s" % _lit(B[0]), "b <= %s" % _lit(B[1])]
                        pre = [p for p in pre if not p.endswith(">= 0") or True]
                        for op in CMPS:
                            refs = ["return (%s)a %s (%s)b;" % (w, op, w) for w in ("std::int64_t", "cnl::int128_t", "std::int32_t", "std::int16_t") if {"std::int64_t": 63, "cnl::int128_t": 127, "std::int32_t": 31, "std::int16_t": 15}[w] >= max(L, R)]
                            obs.append(kern.Ob("%s/elastic/%s/%d%s,%d%s/%s" % (cfg, fam, L, "s" if Ls else "u", R, "s" if Rs else "u", op), "bool", [(ra, "a"), (rb, "b")],
                                               "return wrap<%s>(a) %s wrap<%s>(b);" % (EL, op, ER), refs, pre=pre, cfg=cfg,
                                               meta=dict(anchor="include/cnl/_impl/elastic_integer/custom_operator.h (common_elastic_type, cast_to_common_type)")))
                    if cfg == "clang":
                        facts.append(factmod.Fact("common_elastic_type/%d%s,%d%s/digits" % (L, "s" if Ls else "u", R, "s" if Rs else "u"),
                                                  "cnl::digits_v<typename cnl::_impl::common_elastic_type<%s, %s>::type>" % (ename(L, Ls, "i8"), ename(R, Rs, "i8")), max(L, R)))
                        facts.append(factmod.Fact("common_elastic_type/%d%s,%d%s/signed" % (L, "s" if Ls else "u", R, "s" if Rs else "u"),
                                                  "cnl::numbers::signedness_v<typename cnl::_impl::common_elastic_type<%s, %s>::type>" % (ename(L, Ls, "i8"), ename(R, Rs, "i8")), 1 if (Ls or Rs) else 0))
        # elastic_integer vs built-in integer: same answer as wrapped
        for (L, Ls, B) in [(7, True, U8), (15, False, I32), (31, True, U32), (40, False, I64), (20, True, U64)]:
            EL = ename(L, Ls, "int")
            ra = "cnl::_impl::rep_of_t<%s>" % EL
            A = erange(L, Ls)
            pre = ["a >= %s" % _lit(A[0]), "a <= %s" % _lit(A[1])]
            for op in CMPS:
                refs = ["return (cnl::int128_t)a %s (cnl::int128_t)b;" % op, "return (std::int64_t)a %s (std::int64_t)b;" % op] if B is not U64 else ["return (cnl::int128_t)a %s (cnl::int128_t)b;" % op]
                obs.append(kern.Ob("%s/elastic-vs-builtin/%d%s,%s/%s" % (cfg, L, "s" if Ls else "u", B.short, op), "bool", [(ra, "a"), (B.name, "b")],
                                   "return wrap<%s>(a) %s b;" % (EL, op), refs, pre=pre, cfg=cfg))
                obs.append(kern.Ob("%s/builtin-vs-elastic/%s,%d%s/%s" % (cfg, B.short, L, "s" if Ls else "u", op), "bool", [(ra, "a"), (B.name, "b")],
                                   "return b %s wrap<%s>(a);" % (op, EL), [x.replace("a %s" % op, "\0").replace("(cnl::int128_t)b", "(cnl::int128_t)a").replace("(std::int64_t)b", "(std::int64_t)a").replace("\0", "b %s" % op).replace("return (cnl::int128_t)b", "return (cnl::int128_t)b").replace("return (std::int64_t)b", "return (std::int64_t)b") for x in
                                                                       ["return (cnl::int128_t)b %s (cnl::int128_t)a;" % op]] if False else
                                   (["return (cnl::int128_t)b %s (cnl::int128_t)a;" % op, "return (std::int64_t)b %s (std::int64_t)a;" % op] if B is not U64 else ["return (cnl::int128_t)b %s (cnl::int128_t)a;" % op]),
                                   pre=pre, cfg=cfg))
        # elastic_scaled_integer with different exponents: by value after exact re-expression
        for (L, Ls, ea, R, Rs, eb) in ([(15, True, -2, 15, False, -7), (10, False, 0, 20, True, -12), (31, True, -31, 7, True, 0), (24, False, 3, 30, False, 1)] if tier == "quick" else
                                       [(15, True, -2, 15, False, -7), (10, False, 0, 20, True, -12), (31, True, -31, 7, True, 0), (24, False, 3, 30, False, 1), (8, True, 10, 50, True, -4), (33, False, -40, 12, True, -20), (1, True, 5, 1, False, 0)]):
            for swap in (False, True):
                l = (L, Ls, ea, R, Rs, eb) if not swap else (R, Rs, eb, L, Ls, ea)
                TA = "elastic_scaled_integer<%d, power<%d>, %s>" % (l[0], l[2], "int" if l[1] else "unsigned")
                TB = "elastic_scaled_integer<%d, power<%d>, %s>" % (l[3], l[5], "int" if l[4] else "unsigned")
                ra, rb = "decltype(unwrap(std::declval<%s>()))" % TA, "decltype(unwrap(std::declval<%s>()))" % TB
                A, B = erange(l[0], l[1]), erange(l[3], l[4])
                pre = ["a >= %s" % _lit(A[0]), "a <= %s" % _lit(A[1]), "b >= %s" % _lit(B[0]), "b <= %s" % _lit(B[1])]
                d = l[2] - l[5]
                for op in CMPS:
                    refs = []
                    need = max(l[0] + max(d, 0), l[3] + max(-d, 0))
                    for w in [x for x, dg in (("cnl::int128_t", 127), ("std::int64_t", 63), ("std::int32_t", 31)) if dg >= need]:
                        if d >= 0:
                            refs.append("return ((%s)a << %d) %s (%s)b;" % (w, d, op, w))
                            refs.append("return ((%s)a * ((%s)1 << %d)) %s (%s)b;" % (w, w, d, op, w))
                        else:
                            refs.append("return (%s)a %s ((%s)b << %d);" % (w, op, w, -d))
                            refs.append("return (%s)a %s ((%s)b * ((%s)1 << %d));" % (w, op, w, w, -d))
                    obs.append(kern.Ob("%s/elastic_scaled/%d%s@%d,%d%s@%d/%s" % (cfg, l[0], "s" if l[1] else "u", l[2], l[3], "s" if l[4] else "u", l[5], op), "bool", [(ra, "a"), (rb, "b")],
                                       "return wrap<%s>(a) %s wrap<%s>(b);" % (TA, op, TB), refs, pre=pre, cfg=cfg,
                                       meta=dict(anchor="include/cnl/_impl/scaled_integer/operators.h + elastic_integer/custom_operator.h")))
        # single-word wide_integer by value
        # same and mixed signedness, narrower / wider on either side (an unsigned operand against a wider negative signed
        # one is where "convert both to the left operand's signedness" shows: seeded change M-C03-3)
        for (L, Ls, R, Rs) in [(31, True, 31, True), (31, True, 63, True), (32, False, 64, False), (63, True, 15, True),
                               (16, False, 40, True), (32, False, 63, True), (40, True, 16, False), (8, False, 31, True), (31, True, 8, False), (64, False, 63, True), (63, True, 64, False)]:
            WA = "wide_integer<%d, %s>" % (L, "int" if Ls else "unsigned")
            WB = "wide_integer<%d, %s>" % (R, "int" if Rs else "unsigned")
            ra, rb = "cnl::_impl::rep_of_t<%s>" % WA, "cnl::_impl::rep_of_t<%s>" % WB
            for op in CMPS:
                obs.append(kern.Ob("%s/wide/%d%s,%d%s/%s" % (cfg, L, "s" if Ls else "u", R, "s" if Rs else "u", op), "bool", [(ra, "a"), (rb, "b")],
                                   "return wrap<%s>(a) %s wrap<%s>(b);" % (WA, op, WB),
                                   ["return a %s b;" % op, "return (cnl::int128_t)a %s (cnl::int128_t)b;" % op], cfg=cfg, may_reject=True,
                                   meta=dict(anchor="include/cnl/_impl/wide_integer/custom_operator.h")))
    return obs, facts


FLOOR = {"quick": dict(eq=2000, facts=100, limb=18), "thorough": dict(eq=20000, facts=400, limb=36)}


def limb_plan(tier):
    """the six comparison operators on scaled_integer over MULTI-LIMB reps (same exponent), for all limb values (limb algebra,
    DESIGN 2.5b): the result is the truth value of the comparison of the signed values of the reps"""
    from vlib import limbalg as la
    reps = [("cnl::wide_integer<200, int>", 224, 32, True), ("cnl::wide_integer<129, std::uint64_t>", 192, 64, False), ("cnl::wide_integer<255, std::int64_t>", 256, 64, True)]
    if tier != "quick":
        reps += [("cnl::wide_integer<300, unsigned>", 320, 32, False), ("cnl::wide_integer<140, std::int16_t>", 144, 16, True), ("cnl::wide_integer<500, std::uint64_t>", 512, 64, False)]
    src, plan, k = tc.PRELUDE["clang"], [], 0
    for (R, W, L, sg) in reps:
        A = "cnl::scaled_integer<%s, cnl::power<-7>>" % R

        def val(cx, x, W=W, sg=sg):
            return la.sval(cx, x, W) if sg else x
        for nm, sym, spec in (("lt", "<", lambda cx, v, RW, val=val: la.LT(cx, val(cx, v[0]), val(cx, v[1]))),
                              ("gt", ">", lambda cx, v, RW, val=val: la.LT(cx, val(cx, v[1]), val(cx, v[0]))),
                              ("le", "<=", lambda cx, v, RW, val=val: la.padd(la.const(1), la.LT(cx, val(cx, v[1]), val(cx, v[0])), -1)),
                              ("ge", ">=", lambda cx, v, RW, val=val: la.padd(la.const(1), la.LT(cx, val(cx, v[0]), val(cx, v[1])), -1)),
                              ("eq", "==", lambda cx, v, RW: la.padd(la.const(1), la.Z(cx, la.padd(v[0], v[1], -1)), -1)),
                              ("ne", "!=", lambda cx, v, RW: la.Z(cx, la.padd(v[0], v[1], -1)))):
            f = "qk%d" % k
            k += 1
            src += 'extern "C" bool %s(%s a, %s b) { return a %s b; }\n' % (f, A, A, sym)
            plan.append(("limb/%s/%s" % (nm, R.replace("cnl::", "").replace("std::", "")), "scaled_integer<%s, power<-7>> %s scaled_integer<..>" % (R.replace("cnl::", ""), sym),
                         f, [("a", W, L), ("b", W, L)], 8, spec))
    return src, plan


def run(tier, seed, work):
    rng = random.Random(seed)
    r = report.Run(PROP, tier, seed, "translation_validation")
    obs, facts = gen(tier, rng)
    ctl, fctl = common.controls(), common.fact_controls()
    kern.run_obligations(work, obs + ctl)
    factmod.run_facts(work, facts + fctl)
    common.check_controls(r, ctl)
    common.check_fact_controls(r, fctl)
    n = common.settle_eq(r, obs)
    nf = common.settle_facts(r, facts)
    common.floor_check(r, "kernel pairs proved", n["proved"], FLOOR[tier]["eq"])
    common.floor_check(r, "type facts proved", nf["proved"], FLOOR[tier]["facts"])
    lsrc, lplan = limb_plan(tier)
    lcnt = common.limb_block(r, work, "c03limb", lsrc, lplan, seed, FLOOR[tier]["limb"], "multi-limb comparison obligations proved")
    good = [o for o in obs if o.status == "proved"]
    r.coverage = {
        "multi_limb_obligations": len(lplan), "multi_limb_proved": lcnt["proved"], "multi_limb_refuted": lcnt["refuted"], "multi_limb_undecided": lcnt["undecided"],
        "programs": len(obs), "disagreements_checked": n["refuted"], "kernel_pairs_proved": n["proved"], "rejected_by_library": n["rejected"],
        "type_facts": len(facts), "type_facts_proved": nf["proved"],
        "rule": "each of the six comparison operators separately: CNL comparison kernel == reference comparison (aligned built-in for built-in reps; by value in a wide type for elastic/wide) as IR normal forms",
        "samples": [{"key": o.key, "cnl": o.cnl, "ref": o.refs[o.matched_ref], "normal_form": o.nf_cnl.pretty} for o in rng.sample(good, min(6, len(good)))],
        "exhaustive": tier == "thorough",
    }
    r.assumptions = ["elastic operands lie in their declared ranges", "built-in-rep scaled_integer: pairs whose exponent alignment fits the promoted rep"]
    return r.finish()


def replay(path, work):
    from .C12 import replay as rp
    return rp(path, work)
