"""C20 — exp2 and the mathematical constants are accurate to one unit in the last place.

What is decided (all without running exp2 on any input):

 K  constants (the whole second sentence of the property, for every instantiation in the grid): the initialiser the
    compiler computed for std::numbers::X_v<scaled_integer<Rep, power<E>>> is read from the -O0 IR (engine T) and must
    be floor(c / 2^E) or floor(c / 2^E) + 1, where c is the true constant, enclosed by rationals computed with integer
    arithmetic only (vlib/consts.py; cross-checked against the published digits).  No operand exists: the quantifier
    is over instantiations, and the thorough tier enumerates every (Rep, Exponent) that can hold the constant for the
    eight 8..64-bit reps.
 S  structure of exp2 (engine EQ with the polynomial cut out: the real evaluate_polynomial becomes an uninterpreted
    pure function for kernel and reference alike): for every input,
         rep(exp2(x)) == (P(frac(x) in the all-fraction format) >> (N + E - floor x)) + (1 << (floor x - E)),
    1 when floor x <= E -- i.e. 2^floor(x) * (1 + p(frac x)) truncated to the result resolution, with the right
    alignment shifts and the fraction handed to the polynomial exactly.
 Z  evaluate_polynomial(0) == 0 (EQ, the real polynomial): with S this is the clause "exact for integral x".
 R  rounding_conversion<T>(d), which builds the coefficients, equals (floor(d 2^(N+1)) + 1) >> 1 for every d in [0, 1)
    (EQ): the table is rounded to nearest, not truncated.
 P  the coefficient table: poly_coeffs<uintN, power<-N>>::a1..a7 are read as constants (engine T) and the polynomial
    they define is compared, in exact rational arithmetic, with 2^t - 1 on the grid t = j / 2^m of inputs
    representable in the finest format; |P(t) - (2^t - 1)| > 12 * 2^-N at such a t would force
    exp2(scaled_integer<uintN, power<-(N-1)>>) to be off by two or more units there (2 units of the result are 4 units
    of the polynomial's format, the truncating Horner evaluation loses at most 7 more), so the bound is a necessary
    condition of the property; it is a check of a table of constants, not of a run.
 W  type facts: exp2 returns its argument's type, the intermediate format is the all-fraction unsigned type of the
    same width, and safe_multiply of two such values has twice the digits (no product loses bits).

NOT decided: the accumulated rounding error of the fixed-point Horner evaluation (S, Z, P, W bound it by about
(approximation error + 7) units of the intermediate format but the one-unit claim itself is a statement about values),
and the constants' series fall-backs pi()/e() beyond what K reads off (on this platform long double always has enough
fractional digits, so the fall-backs are not selected for any instantiation of the grid).
"""
import random, re
from fractions import Fraction
from math import isqrt
from vlib import tc, kern, facts as factmod, report, consts
from . import common

PROP = "C20"

REPS = [("std::int8_t", 8, True), ("std::uint8_t", 8, False), ("std::int16_t", 16, True), ("std::uint16_t", 16, False),
        ("std::int32_t", 32, True), ("std::uint32_t", 32, False), ("std::int64_t", 64, True), ("std::uint64_t", 64, False)]
UNS = {8: "std::uint8_t", 16: "std::uint16_t", 32: "std::uint32_t", 64: "std::uint64_t"}
CONSTS = ["pi", "e", "ln2", "ln10", "sqrt2", "sqrt3", "log2e", "log10e", "inv_pi", "inv_sqrtpi", "inv_sqrt3", "phi", "egamma"]


def const_facts(tier, rng):
    C = consts.all_constants()
    F = []
    for name in CONSTS:
        lo, hi = C[name]
        ib = int(lo).bit_length()            # integer bits the constant needs
        for (R, W, sg) in REPS:
            D = W - 1 if sg else W
            emin = -(D - ib)
            es = list(range(emin, 2))
            if tier == "quick":
                pick = {emin, emin + 1, -1, 0, 1, (emin - 1) // 2}
                pick |= set(rng.sample(es, min(2, len(es))))
                es = sorted(e for e in pick if emin <= e <= 1)
            for E in es:
                flo = (lo.numerator << -E) // lo.denominator if E <= 0 else lo.numerator // (lo.denominator << E)
                fhi = (hi.numerator << -E) // hi.denominator if E <= 0 else hi.numerator // (hi.denominator << E)
                if flo != fhi:
                    raise tc.AnalysisBroken("constant enclosure of %s too wide at exponent %d" % (name, E))

                def judge(v, f=flo, W=W, name=name, E=E):
                    v %= 1 << 64
                    if v in (f % (1 << 64), (f + 1) % (1 << 64)):
                        return None
                    return "representation %d, but %s / 2^%d lies in (%d, %d): off by %d unit(s) of the last place" % (v, name, E, f, f + 1, min(abs(v - f), abs(v - f - 1)))
                T = "cnl::scaled_integer<%s, cnl::power<%d>>" % (R, E)
                F.append(factmod.Fact("constant/%s/%s/%d" % (name, R.replace("std::", ""), E), "cnl::_impl::to_rep(std::numbers::%s_v<%s>)" % (name, T), judge=judge,
                                      meta={"finding_key": "constant/%s" % name, "true_floor": flo}))
    return F


def coef_facts():
    F = []
    for N in (8, 16, 32):
        for k in range(1, 8):
            F.append(factmod.Fact("coefficient/%d/a%d" % (N, k), "cnl::_impl::to_rep(cnl::_impl::fp::poly_coeffs<cnl::scaled_integer<%s, cnl::power<-%d>>>::a%d)" % (UNS[N], N, k),
                                  judge=lambda v: None, meta={"N": N, "k": k}))
    return F


def width_facts():
    F = []
    for (R, W, sg) in REPS[:6]:
        D = W - 1 if sg else W
        for E in (-(D - 1), -(D // 2), -1, 0):
            T = "cnl::scaled_integer<%s, cnl::power<%d>>" % (R, E)
            F.append(factmod.Fact("type/exp2-result/%s/%d" % (R, E), "std::is_same_v<decltype(cnl::exp2(std::declval<%s>())), %s>" % (T, T), 1))
        IM = "cnl::scaled_integer<%s, cnl::power<-%d>>" % (UNS[W], W)
        F.append(factmod.Fact("type/intermediate/%s" % R, "std::is_same_v<cnl::_impl::fp::make_largest_ufraction<cnl::scaled_integer<%s, cnl::power<-3>>>, %s>" % (R, IM), 1))
        F.append(factmod.Fact("type/product-digits/%s" % R, "cnl::digits_v<decltype(cnl::_impl::fp::safe_multiply(std::declval<%s>(), std::declval<%s>()))>" % (IM, IM),
                              judge=lambda v, W=W: None if v >= 2 * W else "the product of two %d-digit factors has only %d digits" % (W, v)))
        F.append(factmod.Fact("type/product-exponent/%s" % R, "cnl::_impl::tag_of_t<decltype(cnl::_impl::fp::safe_multiply(std::declval<%s>(), std::declval<%s>()))>::exponent" % (IM, IM), -2 * W))
        F.append(factmod.Fact("type/polynomial-result/%s" % R, "std::is_same_v<decltype(cnl::_impl::fp::evaluate_polynomial(std::declval<%s>())), %s>" % (IM, IM), 1))
    return F


_POW2 = {}


def pow2_grid(m, BITS=240):
    """enclosures (lo, hi) of 2^(j / 2^m) * 2^BITS for j = 0 .. 2^m, integer arithmetic only"""
    if m in _POW2:
        return _POW2[m]
    ONE = 1 << BITS
    lo = hi = 2 * ONE
    for _ in range(m):
        lo, hi = isqrt(lo * ONE), isqrt(hi * ONE) + 1
    out = [(ONE, ONE)]
    for j in range(1, (1 << m) + 1):
        a, b = out[-1]
        out.append(((a * lo) // ONE, -((-b * hi) // ONE)))
    if not (out[-1][0] <= 2 * ONE <= out[-1][1]) or out[-1][1] - out[-1][0] > (1 << (BITS - 150)):
        raise tc.AnalysisBroken("2^t grid enclosure failed its self-check")
    _POW2[m] = (out, ONE)
    return _POW2[m]


def certificate(N, coef):
    """max over the grid of |P(t) - (2^t - 1)| in units of 2^-N, and where; coef = {k: rep of a_k}"""
    m = min(10, N - 1)
    grid, ONE = pow2_grid(m)
    worst, at = Fraction(0), 0
    for j in range(0, 1 << m):
        t = Fraction(j, 1 << m)
        P = sum(Fraction(coef[k] % (1 << N), 1 << N) * t ** k for k in range(1, 8))
        flo, fhi = Fraction(grid[j][0], ONE) - 1, Fraction(grid[j][1], ONE) - 1
        err = max(abs(P - flo), abs(P - fhi))
        if err > worst:
            worst, at = err, t
    return worst * (1 << N), at


BOUND_UNITS = 12


def exp2_obs(tier, rng):
    obs = []
    for (R, W, sg) in REPS[:6]:
        D = W - 1 if sg else W
        U = UNS[W]
        es = list(range(-(D - 1), 2))
        if tier == "quick":
            pick = {-(D - 1), -(D - 2), -(D // 2), -1, 0, 1} | set(rng.sample(es, 2))
            es = sorted(e for e in pick if -(D - 1) <= e <= 1)
        for E in es:
            T = "cnl::scaled_integer<%s, cnl::power<%d>>" % (R, E)
            IM = "cnl::scaled_integer<%s, cnl::power<-%d>>" % (U, W)
            cnl = "return cnl::_impl::to_rep(cnl::exp2(cnl::_impl::from_rep<%s>(a)));" % T
            if E < 0:
                ref = ("%s const fl = static_cast<%s>(a >> %d); if (static_cast<long long>(fl) <= %dLL) return 1; "
                       "%s const fr = static_cast<%s>(static_cast<%s>(a) << %d); "
                       "%s const p = cnl::_impl::to_rep(cnl::_impl::fp::evaluate_polynomial(cnl::_impl::from_rep<%s>(fr))); "
                       "return static_cast<%s>((p >> (%d - fl)) + (%s{1} << (fl - (%d))));") % (R, R, -E, E, U, U, U, W + E, U, IM, R, W + E, U, E)
                lim = (D + E) * (1 << -E) - 1
            else:
                ref = "%s const fl = static_cast<%s>(a << %d); if (static_cast<long long>(fl) <= %dLL) return 1; return static_cast<%s>(%s{1} << (fl - %d));" % (R, R, E, E, R, U, E)
                lim = (D + E - 1) >> E
            lo = -(1 << (W - 1)) if sg else 0
            obs.append(kern.Ob("exp2-structure/%s/%d" % (R.replace("std::", ""), E), R, [(R, "a")], cnl, [ref], pre=["a <= %d" % lim], mode="eqcut",
                               meta={"cut": [r"cnl::_impl::fp::evaluate_polynomial<"], "E": E, "finding_key": "exp2-structure"}))
    zs = []
    for W in (8, 16, 32, 64):
        IM = "cnl::scaled_integer<%s, cnl::power<-%d>>" % (UNS[W], W)
        zs.append(kern.Ob("polynomial-at-zero/%d" % W, UNS[W], [(UNS[W], "a")], "return cnl::_impl::to_rep(cnl::_impl::fp::evaluate_polynomial(cnl::_impl::from_rep<%s>(%s(a - a))));" % (IM, UNS[W]),
                          ["return 0;"], meta={"finding_key": "polynomial-at-zero"}))
    # the coefficients are converted with rounding to nearest: rep == (floor(d 2^(N+1)) + 1) >> 1 for every d in [0, 1)
    # (seeded change M-C20-3 dropped the + 1: truncated coefficients, errors of 2-3 units on int32 formats that had at most 1)
    for W in (8, 16, 32):
        U = UNS[W]
        T = "cnl::scaled_integer<%s, cnl::power<-%d>>" % (U, W)
        one_longer = "cnl::scaled_integer<cnl::set_digits_t<%s, %d>, cnl::power<-%d>>" % (U, W + 1, W + 1)
        zs.append(kern.Ob("coefficient-rounding/%d" % W, U, [("double", "d")], "return cnl::_impl::to_rep(cnl::_impl::fp::rounding_conversion<%s>(d));" % T,
                          ["auto const t = static_cast<cnl::_impl::rep_of_t<%s>>(d * %s); return static_cast<%s>((t + 1) >> 1);" % (one_longer, float(2 ** (W + 1)), U)],
                          pre=["d >= 0.0", "d < 1.0"], meta={"finding_key": "coefficient-rounding"}))
    # H: evaluate_polynomial is the whole degree-7 Horner recurrence t <- trunc(x * (a_k + t)) in the all-fraction format, for
    # every x (seeded change M-C20-5 returned after the quadratic term for small x: exp2 three units low on int32 formats).
    # Only the 32-bit format: for 8 and 16 bits LLVM narrows the kernel's products to i32 and keeps one `and 255` that it
    # removes from the reference; the normaliser does not unify the two (equal) forms, so those widths are not claimed.
    for W in (32,):
        U, U2 = UNS[W], UNS[64]
        IM = "cnl::scaled_integer<%s, cnl::power<-%d>>" % (U, W)
        co = "cnl::_impl::to_rep(cnl::_impl::fp::poly_coeffs<%s>::a%%d)" % IM
        step = "t = static_cast<%s>((static_cast<%s>(a) * static_cast<%s>(%s + t)) >> %d); " % (U, U2, U2, co, W)
        ref = ("%s t = static_cast<%s>((static_cast<%s>(%s) * static_cast<%s>(a)) >> %d); " % (U, U, U2, co % 7, U2, W)) + "".join(step % k for k in (6, 5, 4, 3, 2, 1)) + "return t;"
        zs.append(kern.Ob("horner/%d" % W, U, [(U, "a")], "return cnl::_impl::to_rep(cnl::_impl::fp::evaluate_polynomial(cnl::_impl::from_rep<%s>(a)));" % IM, [ref],
                          meta={"finding_key": "horner"}))
    return obs, zs


FLOOR = {"quick": dict(constants=500, structure=40), "thorough": dict(constants=3000, structure=95)}


def run(tier, seed, work):
    rng = random.Random(seed)
    r = report.Run(PROP, tier, seed, "other")
    bad = consts.self_check()
    if bad:
        r.broke("constant oracle disagrees with the published digits for: " + ", ".join(bad))
    K, CF, WF = const_facts(tier, rng), coef_facts(), width_facts()
    fctl = common.fact_controls()
    C = consts.all_constants()
    wrong = int(C["e"][0] * 256)
    kctl = factmod.Fact("control/constant-wrong", "cnl::_impl::to_rep(std::numbers::pi_v<cnl::scaled_integer<std::int16_t, cnl::power<-8>>>)",
                        judge=lambda v: None if v in (wrong, wrong + 1) else "differs")
    factmod.run_facts(work, K + CF + WF + fctl + [kctl], batch=200)
    common.check_fact_controls(r, fctl)
    if kctl.status != "refuted":
        r.broke("constant control: pi judged against e's oracle gave %s" % kctl.status)

    def describe(f):
        if f.key.startswith("constant/"):
            return "std::numbers::%s_v<scaled_integer<%s, power<%s>>>: %s" % (f.key.split("/")[1], f.key.split("/")[2], f.key.split("/")[3], f.detail)
        return None
    nk = common.settle_facts(r, K, describe)
    nw = common.settle_facts(r, WF)
    common.settle_facts(r, CF)
    common.floor_check(r, "constant facts proved", nk["proved"], FLOOR[tier]["constants"])
    # P: coefficient certificate
    cert = {}
    coef = {}
    for f in CF:
        if f.status == "proved":
            coef.setdefault(f.meta["N"], {})[f.meta["k"]] = f.value
    for N in (8, 16, 32):
        if len(coef.get(N, {})) != 7:
            r.broke("coefficient table of the %d-bit format incomplete" % N)
            continue
        units, at = certificate(N, coef[N])
        cert[N] = {"max_error_units": float(units), "at_t": str(at), "coefficients": [coef[N][k] % (1 << N) for k in range(1, 8)]}
        if units > BOUND_UNITS:
            r.violation("polynomial/%d" % N, "poly_coeffs<scaled_integer<uint%d_t, power<-%d>>> = %s: the polynomial differs from 2^t - 1 by %.2f units of 2^-%d at t = %s (representable in every %d-bit format); "
                        "more than %d units forces exp2 on scaled_integer<uint%d_t, power<-%d>> to be off by at least two units there" % (N, N, cert[N]["coefficients"], float(units), N, at, N, BOUND_UNITS, N, N - 1),
                        {"N": N, "certificate": cert[N]}, finding_key="polynomial")
    if 32 in coef and len(coef[32]) == 7:
        pert = dict(coef[32])
        pert[1] += 16
        u2, _ = certificate(32, pert)
        if u2 <= BOUND_UNITS:
            r.broke("polynomial control: a1 perturbed by 16 units was not reported (%.2f units)" % float(u2))
    # S, Z
    obs, zs = exp2_obs(tier, rng)
    ctl = common.controls()
    sctl = kern.Ob("control/structure-shift-off-by-one", "std::int32_t", [("std::int32_t", "a")],
                   "return cnl::_impl::to_rep(cnl::exp2(cnl::_impl::from_rep<cnl::scaled_integer<std::int32_t, cnl::power<-16>>>(a)));",
                   ["std::int32_t const fl = a >> 16; if (fl <= -16) return 1; std::uint32_t const fr = static_cast<std::uint32_t>(a) << 16; "
                    "std::uint32_t const p = cnl::_impl::to_rep(cnl::_impl::fp::evaluate_polynomial(cnl::_impl::from_rep<cnl::scaled_integer<std::uint32_t, cnl::power<-32>>>(fr))); "
                    "return static_cast<std::int32_t>((p >> (17 - fl)) + (std::uint32_t{1} << (fl + 16)));"], pre=["a <= %d" % (15 * 65536 - 1)], mode="eqcut",
                   meta={"cut": [r"cnl::_impl::fp::evaluate_polynomial<"]})
    kern.run_obligations(work, obs + [sctl], batch=12)
    kern.run_obligations(work, zs + ctl, batch=8)
    common.check_controls(r, ctl)
    if sctl.status != "refuted":
        r.broke("structure control (alignment shift off by one) gave %s" % sctl.status)
    for ob in obs:
        if ob.status == "proved" and ob.meta["E"] < 0 and not ob.meta.get("cut_done"):
            r.broke("%s: the anchor evaluate_polynomial was not found in the kernel's module" % ob.key)

    def dsc(ob):
        if ob.key.startswith("exp2-structure"):
            return "exp2 on scaled_integer<%s, power<%d>> is not 2^floor(x) * (1 + p(frac x)) aligned to the result resolution: kernel differs from `%s`" % (ob.key.split("/")[1], ob.meta["E"], ob.refs[0])
        if ob.key.startswith("coefficient-rounding"):
            return "rounding_conversion into the %s-bit coefficient format does not round to nearest: kernel differs from `%s`" % (ob.key.split("/")[1], ob.refs[0])
        if ob.key.startswith("horner"):
            return "evaluate_polynomial in the %s-bit all-fraction format is not the degree-7 Horner recurrence t <- trunc(x * (a_k + t)) for every x: kernel differs from `%s`" % (ob.key.split("/")[1], ob.refs[0][:160])
        return "evaluate_polynomial(0) is not 0 for the %s-bit format: exp2 is not exact for integral x" % ob.key.split("/")[1]
    ns = common.settle_eq(r, obs, dsc)
    nz = common.settle_eq(r, zs, dsc)
    common.floor_check(r, "exp2 structure kernels proved", ns["proved"], FLOOR[tier]["structure"])
    common.floor_check(r, "polynomial-at-zero, coefficient-rounding and Horner kernels proved", nz["proved"], 8)
    common.floor_check(r, "type facts proved", nw["proved"], len(WF))
    good = [f for f in K if f.status == "proved"]
    r.coverage = {
        "explanation": "K: the compiled initialiser of every std::numbers constant for the grid of (Rep, Exponent) instantiations against an exact oracle; S: exp2 == 2^floor * (1 + P(frac)) aligned and truncated, with the polynomial uninterpreted; "
                       "Z: P(0) == 0; P: the coefficient table against 2^t - 1 on representable points (necessary bound); W: widths of the intermediate products. H: evaluate_polynomial of the 32-bit format == the degree-7 Horner recurrence for every x. The Horner evaluation's accumulated rounding is NOT decided.",
        "evaluations": len(K) + len(obs) + len(zs) + len(WF) + 3, "distinct_nontrivial": nk["proved"] + ns["proved"] + nz["proved"] + nw["proved"] + len(cert),
        "rule": "non-trivial = proved constant fact / proved structure kernel / type fact / coefficient certificate",
        "constant_facts": len(K), "constant_facts_proved": nk["proved"], "constant_facts_refuted": nk["refuted"], "constants": len(CONSTS),
        "structure_kernels": len(obs), "structure_proved": ns["proved"], "structure_refuted": ns["refuted"], "polynomial_at_zero_proved": nz["proved"],
        "coefficient_certificates": cert, "certificate_bound_units": BOUND_UNITS, "type_facts": len(WF), "type_facts_proved": nw["proved"],
        "samples": [{"key": f.key, "value": f.value, "floor_of_true_value": f.meta["true_floor"]} for f in rng.sample(good, min(8, len(good)))],
        "exhaustive": tier == "thorough",
    }
    r.assumptions = ["x86-64 long double (64-bit significand): constant_with_fallback never selects the series for an instantiation that can hold the constant",
                     "the uninterpreted polynomial is the same pure function in kernel and reference (it is cut by name from one module)"]
    return r.finish()


def replay(path, work):
    import json
    print(json.dumps(json.load(open(path)), indent=1)[:3000])
    return 1
