"""C05 — elastic_integer arithmetic never overflows and stays within its declared digits.

Engine T: the declared digits/signedness/rep of every result type in the matrix are read from the
type checker and judged by an exact interval oracle written from the property statement.
Engine EQ (boundary-rich subset): operands are converted to the result rep before the built-in
operator is applied.
"""
import random, itertools
from vlib import tc, kern, facts as factmod, report
from vlib.cty import *
from . import common

PROP = "C05"

HELPER = """template<class T> constexpr long long c05_pack = (long long)cnl::digits_v<T> | ((long long)cnl::numbers::signedness_v<T> << 12)
    | ((long long)cnl::digits_v<cnl::_impl::rep_of_t<T>> << 16) | ((long long)cnl::numbers::signedness_v<cnl::_impl::rep_of_t<T>> << 28);"""

BIN = {"+": "add", "-": "sub", "*": "mul", "/": "div", "%": "mod"}


def erange(D, signed):
    return (-(2 ** D - 1) if signed else 0, 2 ** D - 1)


def tdiv(a, b):
    q = abs(a) // abs(b)
    return q if (a < 0) == (b < 0) else -q


def hull(op, A, B=None, k=None):
    al, ah = A
    if op == "neg":
        return (-ah, -al)
    if op == "pos":
        return A
    if op == "shl":
        return (al * 2 ** k, ah * 2 ** k)
    if op == "shr":
        return (al >> k, ah >> k)   # C++20: arithmetic shift == floor division by 2^k
    bl, bh = B
    if op == "+":
        return (al + bl, ah + bh)
    if op == "-":
        return (al - bh, ah - bl)
    if op == "*":
        c = [al * bl, al * bh, ah * bl, ah * bh]
        return (min(c), max(c))
    if op == "/":
        bs = [b for b in (bl, -1, 1, bh) if bl <= b <= bh and b != 0]
        c = [tdiv(a, b) for a in (al, ah) for b in bs]
        return (min(c), max(c))
    if op == "%":
        Bm = max(abs(bl), abs(bh))
        hi = min(ah, Bm - 1) if ah > 0 else 0
        lo = -min(-al, Bm - 1) if al < 0 else 0
        return (lo, hi)
    raise ValueError(op)


def unpack(v):
    return dict(D=v & 0xfff, S=(v >> 12) & 1, RD=(v >> 16) & 0xfff, RS=(v >> 28) & 1)


def rep_range(RD, RS):
    return (-(2 ** RD) if RS else 0, 2 ** RD - 1)


def eval_range(RD, RS):
    # the built-in operator is evaluated in the promoted rep: anything narrower than int becomes int
    if RD < 31:
        return (-(2 ** 31), 2 ** 31 - 1)
    return rep_range(RD, RS)


def judge_bin(op, L, Ls, R, Rs):
    A, B = erange(L, Ls), erange(R, Rs)
    H = hull(op, A, B)

    def j(v):
        u = unpack(v)
        dr = erange(u["D"], u["S"])
        why = []
        if not (dr[0] <= H[0] and H[1] <= dr[1]):
            why.append("exact results span [%d, %d] but the result type declares %d %s digits: [%d, %d]" % (H[0], H[1], u["D"], "signed" if u["S"] else "unsigned", dr[0], dr[1]))
        if u["D"] > u["RD"]:
            why.append("declared digits %d exceed the %d digits of its rep" % (u["D"], u["RD"]))
        if u["S"] and not u["RS"]:
            why.append("signed result stored in an unsigned rep")
        return "; ".join(why) or None
    return j


def judge_un(op, L, Ls, k=None):
    A = erange(L, Ls)
    H = hull(op, A, k=k)

    def j(v):
        u = unpack(v)
        dr = erange(u["D"], u["S"])
        why = []
        if not (dr[0] <= H[0] and H[1] <= dr[1]):
            why.append("exact results span [%d, %d] but the result type declares %d %s digits: [%d, %d]" % (H[0], H[1], u["D"], "signed" if u["S"] else "unsigned", dr[0], dr[1]))
        if u["D"] > u["RD"]:
            why.append("declared digits %d exceed the %d digits of its rep" % (u["D"], u["RD"]))
        if u["S"] and not u["RS"]:
            why.append("signed result stored in an unsigned rep")
        if op == "shl":
            er = eval_range(u["RD"], u["RS"])
            if not (er[0] <= H[0] and H[1] <= er[1]):
                why.append("shifted values span [%d, %d], outside the type the shift is evaluated in" % H)
        return "; ".join(why) or None
    return j


NARROW = {
    "i8": ("std::int8_t", "std::uint8_t"), "i16": ("std::int16_t", "std::uint16_t"),
    "int": ("int", "unsigned"), "i64": ("std::int64_t", "std::uint64_t"),
}


def ename(D, signed, fam):
    return "elastic_integer<%d, %s>" % (D, NARROW[fam][0 if signed else 1])


def gen(tier, rng):
    facts = []
    if tier == "quick":
        digs = [1, 2, 7, 8, 9, 15, 16, 17, 31, 32, 33, 62, 63, 64]
        fams = ["i8", "int"]
        pairs = [(a, b) for a in digs for b in digs]
    else:
        digs = list(range(1, 65))
        fams = ["i8", "i16", "int", "i64"]
        pairs = [(a, b) for a in digs for b in digs]
    n = 0
    for fam in fams:
        for (L, R) in pairs:
            for Ls in (True, False):
                for Rs in (True, False):
                    EL, ER = ename(L, Ls, fam), ename(R, Rs, fam)
                    for op in BIN:
                        n += 1
                        tn = "c05_t%d" % n
                        facts.append(factmod.Fact(
                            "bin/%s/%d%s%s%d%s" % (fam, L, "s" if Ls else "u", op, R, "s" if Rs else "u"),
                            "c05_pack<%s>" % tn,
                            decls=[HELPER, "using %s = decltype(std::declval<%s>() %s std::declval<%s>());" % (tn, EL, op, ER)],
                            may_reject=True, judge=judge_bin(op, L, Ls, R, Rs),
                            meta=dict(anchor="include/cnl/_impl/elastic_tag/policy.h policy<%s_op>; elastic_tag/overloads.h; elastic_tag/definition.h" % BIN[op], L=L, Ls=Ls, R=R, Rs=Rs, op=op, fam=fam)))
        # mixed narrowest families (the result narrowest must still be wide/signed enough)
    mixed = [("i8", "int"), ("int", "i8"), ("i8", "i64"), ("i64", "int")] if tier == "thorough" else [("i8", "int"), ("int", "i8")]
    mdigs = [1, 7, 8, 31, 32, 63, 64] if tier == "quick" else [1, 2, 7, 8, 9, 15, 16, 17, 31, 32, 33, 63, 64]
    for (fa, fb) in mixed:
        for L in mdigs:
            for R in mdigs:
                for Ls in (True, False):
                    for Rs in (True, False):
                        for op in BIN:
                            n += 1
                            tn = "c05_t%d" % n
                            facts.append(factmod.Fact(
                                "bin/%s,%s/%d%s%s%d%s" % (fa, fb, L, "s" if Ls else "u", op, R, "s" if Rs else "u"),
                                "c05_pack<%s>" % tn,
                                decls=[HELPER, "using %s = decltype(std::declval<%s>() %s std::declval<%s>());" % (tn, ename(L, Ls, fa), op, ename(R, Rs, fb))],
                                may_reject=True, judge=judge_bin(op, L, Ls, R, Rs), meta=dict(op=op)))
    # built-in operand on one side: behaves as elastic_integer<numeric_limits<T>::digits, T>
    for T in (I8, U8, I32, U32, I64, U64) if tier == "thorough" else (I8, U32, I64):
        for L in ([1, 7, 8, 16, 31, 32, 63] if tier == "quick" else digs[::3]):
            for Ls in (True, False):
                for op in BIN:
                    for side in ("r", "l"):
                        n += 1
                        tn = "c05_t%d" % n
                        EL = ename(L, Ls, "int")
                        e = ("std::declval<%s>() %s std::declval<%s>()" % (EL, op, T.name)) if side == "r" else ("std::declval<%s>() %s std::declval<%s>()" % (T.name, op, EL))
                        A, B = (L, Ls), (T.digits, T.signed)
                        if side == "l":
                            A, B = B, A
                        facts.append(factmod.Fact("bin-builtin/%s/%d%s%s%s" % (side, L, "s" if Ls else "u", op, T.short), "c05_pack<%s>" % tn,
                                                  decls=[HELPER, "using %s = decltype(%s);" % (tn, e)], may_reject=True,
                                                  judge=judge_bin(op, A[0], A[1], B[0], B[1]), meta=dict(op=op)))
    # unary minus / plus, shifts by a constant
    for fam in fams:
        for L in digs:
            for Ls in (True, False):
                EL = ename(L, Ls, fam)
                for op, sym in (("neg", "-"), ("pos", "+")):
                    n += 1
                    tn = "c05_t%d" % n
                    facts.append(factmod.Fact("un/%s/%s%d%s" % (fam, sym, L, "s" if Ls else "u"), "c05_pack<%s>" % tn,
                                              decls=[HELPER, "using %s = decltype(%sstd::declval<%s>());" % (tn, sym, EL)], may_reject=True,
                                              judge=judge_un(op, L, Ls), meta=dict(op=op)))
                ks = [1, 3, 8] if tier == "quick" else [1, 2, 3, 7, 8, 16, 31]
                for k in ks:
                    n += 1
                    tn = "c05_t%d" % n
                    facts.append(factmod.Fact("shl/%s/%d%s<<%d" % (fam, L, "s" if Ls else "u", k), "c05_pack<%s>" % tn,
                                              decls=[HELPER, "using %s = decltype(std::declval<%s>() << constant<%d>{});" % (tn, EL, k)], may_reject=True,
                                              judge=judge_un("shl", L, Ls, k=k), meta=dict(op="shl")))
                    if k < L:
                        n += 1
                        tn = "c05_t%d" % n
                        f = factmod.Fact("shr/%s/%d%s>>%d" % (fam, L, "s" if Ls else "u", k), "c05_pack<%s>" % tn,
                                         decls=[HELPER, "using %s = decltype(std::declval<%s>() >> constant<%d>{});" % (tn, EL, k)], may_reject=True,
                                         judge=judge_un("shr", L, Ls, k=k), meta=dict(op="shr", L=L, k=k, signed=Ls))
                        facts.append(f)
    # numeric_limits agrees with the declared range (reader's table == writer's table)
    for fam in fams:
        for D in digs:
            for s in (True, False):
                E = ename(D, s, fam)
                lo, hi = erange(D, s)
                rt = "cnl::_impl::rep_of_t<%s>" % E
                big = I128 if s else U128
                facts.append(factmod.Fact("limits/%s/%d%s/digits" % (fam, D, "s" if s else "u"), "std::numeric_limits<%s>::digits" % E, D))
                facts.append(factmod.Fact("limits/%s/%d%s/max" % (fam, D, "s" if s else "u"),
                                          "(%s)cnl::_impl::to_rep(std::numeric_limits<%s>::max()) == %s" % (big.name, E, big.lit(hi)), 1))
                facts.append(factmod.Fact("limits/%s/%d%s/lowest" % (fam, D, "s" if s else "u"),
                                          "(%s)cnl::_impl::to_rep(std::numeric_limits<%s>::lowest()) == %s" % (big.name, E, big.lit(lo)), 1))
                facts.append(factmod.Fact("limits/%s/%d%s/is_signed" % (fam, D, "s" if s else "u"), "std::numeric_limits<%s>::is_signed" % E, 1 if s else 0))
    return facts


def wide_type(need_digits, signed):
    return next(t for t in ([I8, I16, I32, I64, I128] if signed else [U8, U16, U32, U64, U128]) if t.digits >= need_digits)


def gen_eq(tier, rng, factidx):
    """EQ obligations: unwrap(a op b) == Rep(W(a) op W(b)) where W holds both operands and every exact result
    (W is the result's own rep whenever the type facts show that it is wide enough, so that the two kernels
    are compared at one width), Rep is the result's rep.  Shows that no operand is narrowed before the
    built-in operator runs and that the operator runs in a type that cannot wrap."""
    obs = []
    eqd = [1, 7, 8, 9, 15, 16, 17, 31, 32, 33] if tier == "quick" else [1, 2, 7, 8, 9, 15, 16, 17, 24, 31, 32, 33, 47, 48]
    eqpairs = [(a, b) for a in eqd for b in eqd]
    if tier == "quick":
        eqpairs = common.sample(rng, eqpairs, 30) + [(8, 8), (7, 8), (31, 31), (32, 32), (16, 17), (1, 33), (33, 1), (7, 9), (9, 7), (15, 33)]
    for cfg in ("clang", "gcc"):
        for (L, R) in eqpairs:
            for Ls in (True, False):
                for Rs in (True, False):
                    if tier == "quick" and cfg == "gcc" and (L + R) % 3:
                        continue
                    EL, ER = ename(L, Ls, "i8"), ename(R, Rs, "i8")
                    ra, rb = "cnl::_impl::rep_of_t<%s>" % EL, "cnl::_impl::rep_of_t<%s>" % ER
                    A, B = erange(L, Ls), erange(R, Rs)
                    pre_rng = ["a >= %s" % common.lit(A[0]), "a <= %s" % common.lit(A[1]), "b >= %s" % common.lit(B[0]), "b <= %s" % common.lit(B[1])]
                    for op in BIN:
                        f = factidx.get("bin/i8/%d%s%s%d%s" % (L, "s" if Ls else "u", op, R, "s" if Rs else "u"))
                        if f is None or f.value is None:
                            continue
                        u = unpack(f.value)
                        H = hull(op, A, B)
                        rr, er = rep_range(u["RD"], u["RS"]), eval_range(u["RD"], u["RS"])
                        fits = all(rr[0] <= X[0] and X[1] <= rr[1] for X in (A, B)) and er[0] <= H[0] and H[1] <= er[1]
                        decl = "using EL = %s; using ER = %s; using RT = decltype(std::declval<EL>() %s std::declval<ER>()); using RR = cnl::_impl::rep_of_t<RT>;" % (EL, ER, op)
                        if fits:
                            decl += " using W = RR;"
                        else:
                            lo = min(A[0], B[0], H[0])
                            hi = max(A[1], B[1], H[1])
                            W = wide_type(max(hi.bit_length(), (-lo).bit_length() if lo < 0 else 0), lo < 0)
                            decl += " using W = %s;" % W.name
                        pre = pre_rng + (["b != 0"] if op in ("/", "%") else [])
                        obs.append(kern.Ob(
                            "%s/eq/%d%s%s%d%s" % (cfg, L, "s" if Ls else "u", op, R, "s" if Rs else "u"),
                            "cnl::_impl::rep_of_t<decltype(std::declval<%s>() %s std::declval<%s>())>" % (EL, op, ER), [(ra, "a"), (rb, "b")],
                            decl + " return unwrap(wrap<EL>(a) %s wrap<ER>(b));" % op,
                            [decl + " return (RR)((W)a %s (W)b);" % op],
                            pre=pre, cfg=cfg, may_reject=True,
                            meta=dict(op=op, W="RR" if fits else W.name, anchor="include/cnl/_impl/elastic_tag/custom_operator.h (binary_arithmetic_op specialisation)")))
    # unary minus / plus and shifts by a constant: the operand must be brought to the result type BEFORE the operator runs
    # (negating an unsigned rep before widening wraps; found missing by seeded change M-C05-1)
    ud = [1, 7, 8, 9, 15, 16, 17, 31, 32, 33, 63, 64] if tier == "quick" else list(range(1, 65))
    for cfg in ("clang", "gcc"):
        for fam in ("i8", "int"):
            for L in ud:
                for Ls in (True, False):
                    if tier == "quick" and cfg == "gcc" and L % 3:
                        continue
                    EL = ename(L, Ls, fam)
                    ra = "cnl::_impl::rep_of_t<%s>" % EL
                    A = erange(L, Ls)
                    pre = ["a >= %s" % common.lit(A[0]), "a <= %s" % common.lit(A[1])] if L < 64 or Ls else []
                    for sym, nm in (("-", "neg"), ("+", "pos")):
                        rt = "cnl::_impl::rep_of_t<decltype(%sstd::declval<%s>())>" % (sym, EL)
                        obs.append(kern.Ob("%s/eq/%s/%s%d%s" % (cfg, fam, sym, L, "s" if Ls else "u"), rt, [(ra, "a")],
                                           "return unwrap(%swrap<%s>(a));" % (sym, EL), ["using RR = %s; return (RR)(%s(RR)a);" % (rt, sym)], pre=pre, cfg=cfg, may_reject=True,
                                           meta=dict(op=nm, anchor="include/cnl/_impl/elastic_integer/custom_operator.h (unary +/-)")))
                    for k in (1, 3):
                        if L + k > 63:
                            continue     # the result needs a 128-bit rep, which is returned as two words: outside what the normaliser relates
                        rt = "cnl::_impl::rep_of_t<decltype(std::declval<%s>() << constant<%d>{})>" % (EL, k)
                        obs.append(kern.Ob("%s/eq/%s/%d%s<<%d" % (cfg, fam, L, "s" if Ls else "u", k), rt, [(ra, "a")],
                                           "return unwrap(wrap<%s>(a) << constant<%d>{});" % (EL, k), ["using RR = %s; return (RR)((RR)a * ((RR)1 << %d));" % (rt, k), "using RR = %s; return (RR)((RR)a << %d);" % (rt, k)],
                                           pre=pre, cfg=cfg, may_reject=True, meta=dict(op="shl")))
                        if k < L:
                            rt = "cnl::_impl::rep_of_t<decltype(std::declval<%s>() >> constant<%d>{})>" % (EL, k)
                            obs.append(kern.Ob("%s/eq/%s/%d%s>>%d" % (cfg, fam, L, "s" if Ls else "u", k), rt, [(ra, "a")],
                                               "return unwrap(wrap<%s>(a) >> constant<%d>{});" % (EL, k), ["using RR = %s; return (RR)(a >> %d);" % (rt, k)], pre=pre, cfg=cfg, may_reject=True, meta=dict(op="shr")))
    # scale<-k> of an elastic_integer - every elastic_scaled_integer conversion to a coarser exponent or to an integer goes
    # through it: the quotient by 2^k, truncated, for shifts at and around the rep boundaries (seeded change M-C05-8 built
    # the divisor 2^31 in a 32-bit signed rep: INT_MIN, so the quotient changed sign)
    for cfg in ("clang",):
        for fam in ("i8", "int"):
            for (L, k) in [(40, 31), (40, 30), (40, 32), (33, 31), (63, 31), (63, 33), (63, 62), (20, 15), (20, 16), (20, 7), (12, 7), (12, 8)]:
                for Ls in (True, False):
                    EL = ename(L, Ls, fam)
                    ra = "cnl::_impl::rep_of_t<%s>" % EL
                    A = erange(L, Ls)
                    pre = ["a >= %s" % common.lit(A[0]), "a <= %s" % common.lit(A[1])]
                    rt = "cnl::_impl::rep_of_t<decltype(cnl::_impl::scale<-%d>(std::declval<%s>()))>" % (k, EL)
                    W = "long long" if Ls else "unsigned long long"
                    obs.append(kern.Ob("%s/eq/%s/%d%s/scale-%d" % (cfg, fam, L, "s" if Ls else "u", k), rt, [(ra, "a")],
                                       "return unwrap(cnl::_impl::scale<-%d>(wrap<%s>(a)));" % (k, EL), ["using RR = %s; return (RR)((%s)a / ((%s)1 << %d));" % (rt, W, W, k)],
                                       pre=pre, cfg=cfg, meta=dict(op="scale", anchor="include/cnl/_impl/elastic_integer/scale.h (negative shift)")))
    return obs


FLOOR = {"quick": dict(facts=10500, eq=800), "thorough": dict(facts=100000, eq=2500)}


def run(tier, seed, work):
    rng = random.Random(seed)
    r = report.Run(PROP, tier, seed, "proof")
    facts = gen(tier, rng)
    fctl = common.fact_controls()
    ctl = common.controls()
    # a control of the oracle itself: an instantiation judged against a deliberately wrong policy must be refuted
    octl = factmod.Fact("control/oracle-refutes-narrow-add", "c05_pack<c05_ctl>",
                        decls=[HELPER, "using c05_ctl = elastic_integer<8, int>;"], judge=judge_bin("+", 8, True, 8, True))
    factmod.run_facts(work, facts + fctl + [octl], batch=250, gcc=True)
    obs = gen_eq(tier, rng, dict((f.key, f) for f in facts))
    kern.run_obligations(work, obs + ctl, batch=20)
    common.check_fact_controls(r, fctl)
    common.check_controls(r, ctl)
    if octl.status != "refuted":
        r.broke("oracle control: an 8-digit result for 8-digit + 8-digit was not refuted (%s)" % octl.status)

    def describe(f):
        return "%s: %s -> %s [%s]" % (f.key, f.expr if len(f.expr) < 80 else f.key, f.detail or ("value %s, expected %s" % (f.value, f.expect)), f.meta.get("anchor", "include/cnl/_impl/elastic_tag, elastic_integer"))
    for f in facts:
        if f.status == "refuted" and f.meta.get("op") == "shr" and f.meta.get("signed") and f.gcc_status != "refuted":
            # accepted as the known finding D12 only if the deviation is exactly the recorded one:
            # the floor of the most negative operand is one below the declared symmetric range, nothing else is wrong
            u = unpack(f.value)
            H = hull("shr", erange(f.meta["L"], True), k=f.meta["k"])
            dr = erange(u["D"], u["S"])
            if u["S"] and u["RS"] and u["D"] <= u["RD"] and H[1] <= dr[1] and H[0] == dr[0] - 1:
                f.meta["finding_key"] = "D12/shr-constant-floors-negative"
    nf = common.settle_facts(r, facts, describe)
    n = common.settle_eq(r, obs)
    wellformed = nf["proved"] + nf["refuted"]
    common.floor_check(r, "well-formed type facts judged", wellformed, FLOOR[tier]["facts"])
    common.floor_check(r, "EQ kernels proved", n["proved"], FLOOR[tier]["eq"])
    good = [f for f in facts if f.status == "proved" and f.judge]
    r.coverage = {
        # obligations of the claim = everything generated minus the obligations that are refuted by a listed known finding
        # (those are reported separately: the property does not hold there, and the check says so on every run)
        "obligations": len(facts) + len(obs) - sum(1 for f in facts if f.status == "refuted" and f.meta.get("finding_key", "").startswith("D12/")),
        "obligations_refuted_by_known_findings": sum(1 for f in facts if f.status == "refuted" and f.meta.get("finding_key", "").startswith("D12/")),
        "discharged": nf["proved"] + n["proved"] + nf["rejected"] + n["rejected"],
        "type_facts": len(facts), "type_facts_proved": nf["proved"], "type_facts_refuted": nf["refuted"],
        "instantiations_rejected_by_the_library_at_compile_time": nf["rejected"] + n["rejected"],
        "eq_kernels": len(obs), "eq_proved": n["proved"], "eq_refuted": n["refuted"],
        "checker_cmd": "python3 check.py C05 --tier %s" % tier,
        "rule": "declared digits/signedness/rep of decltype(a op b) read from clang and g++, judged by exact interval arithmetic over the operands' declared ranges; EQ: unwrap(a op b) == Rep(Rep(a) op Rep(b))",
        "samples": [{"key": f.key, "packed": f.value, **unpack(f.value)} for f in rng.sample(good, min(6, len(good)))] +
                   [{"key": o.key, "cnl": o.cnl, "ref": o.refs[0]} for o in obs[:2]],
        "exhaustive": tier == "thorough",
    }
    r.assumptions = ["operand values lie in the declared range of their elastic type", "C++20 semantics of built-in integer operators on LP64"]
    return r.finish()


def replay(path, work):
    import json
    d = json.load(open(path))
    print(json.dumps({k: d[k] for k in d if k not in ("cnl_ir", "ref_ir")}, indent=1)[:3000])
    return 1
