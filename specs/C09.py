"""C09 — narrowing conversions under a rounding mode are correctly rounded.

A. EQ: scaled_integer -> coarser scaled_integer (radix 2, k digits dropped) == the closed forms that define the modes on
   integers: neg_inf x >> k; tie_to_pos_inf (x + 2^(k-1)) >> k; nearest (x +/- 2^(k-1)) / 2^k by the sign of x; conversions
   that drop no digits == the plain (C04) conversion under every mode.  The closed forms are validated against exact
   rational rounding on every run.
B. UB (whole domain, one free variable): the bias addition must not execute an undefined operation for any source value.
C. IR precision rule, floating -> integer: the instruction that adds the +/-0.5 bias must operate in a floating type
   with strictly more significand digits than the source (otherwise a value adjacent to a tie is rounded by the addition).
D. EQ (siblings): rounding_integer / scaled_integer<rounding_integer> constructors == convert<> with the destination's tag.
"""
import random, re, os
from fractions import Fraction
from vlib import tc, kern, gate, iset, ir, report
from vlib.iset import ISet
from vlib.cty import *
from . import common, C06
from .C01 import sname
from .C08 import rround

PROP = "C09"
TAGS = {"nearest": "nearest_rounding_tag", "tie": "tie_to_pos_inf_rounding_tag", "neg_inf": "neg_inf_rounding_tag", "native": "native_rounding_tag"}
FDIG = {"float": 24, "double": 53, "long double": 64}
IRTY = {"float": "float", "double": "double", "x86_fp80": "long double"}


def closed_ref(mode, k, S, D):
    h = 1 << (k - 1)
    P = promote(S)
    if mode == "neg_inf":
        return "return (%s)(a >> %d);" % (D.name, k)
    if mode == "tie":
        return "return (%s)((a + %s) >> %d);" % (D.name, P.lit(h), k)
    if mode == "nearest":
        return "return (%s)((a + (a >= 0 ? %s : -%s)) / %s);" % (D.name, P.lit(h), P.lit(h), P.lit(1 << k))
    return "return (%s)(a / %s);" % (D.name, P.lit(1 << k))


def pyform(mode, k, a):
    h = 1 << (k - 1)
    if mode == "neg_inf":
        return a >> k
    if mode == "tie":
        return (a + h) >> k
    if mode == "nearest":
        x = a + (h if a >= 0 else -h)
        q = abs(x) // (1 << k)
        return q if x >= 0 else -q
    q = abs(a) // (1 << k)
    return q if a >= 0 else -q


def validate():
    n = 0
    for mode in ("neg_inf", "tie", "nearest", "native"):
        for k in (1, 2, 3, 5, 8):
            for a in range(-(3 << k) - 3, (3 << k) + 4):
                n += 1
                if pyform(mode, k, a) != rround(a, 1 << k, mode):
                    raise tc.AnalysisBroken("oracle self-check: mode %s k=%d a=%d: closed form %d, rational rounding %d" % (mode, k, a, pyform(mode, k, a), rround(a, 1 << k, mode)))
    return n


def gen(tier):
    obs, ub = [], []
    reps = [I8, I16, I32, I64] if tier == "quick" else [I8, U8, I16, U16, I32, U32, I64, U64]
    dreps = [I8, I32, I64] if tier == "quick" else [I8, I16, I32, I64]
    for mode in ("nearest", "tie", "neg_inf"):
        for S in reps:
            for D in dreps:
                for k in ([1, 3, 8] if tier == "quick" else [1, 2, 3, 7, 8, 15]):
                    if k >= S.digits:
                        continue
                    es, ed = -8, -8 + k
                    TS, TD = sname(S.name, es), sname(D.name, ed)
                    srctag = ", power<>" if mode == "nearest" else ""     # nearest's specialisations take the source's scale tag
                    cnl = "return unwrap(convert<%s, %s%s>{}(wrap<%s>(a)));" % (TAGS[mode], TD, srctag, TS)
                    obs.append(kern.Ob("narrow/%s/%s@%d->%s@%d" % (mode, S.short, es, D.short, ed), D.name, [(S.name, "a")], cnl, [closed_ref(mode, k, S, D)],
                                       meta=dict(anchor="include/cnl/_impl/scaled_integer/convert_operator.h (%s, rounding is an issue)" % mode, mode=mode, k=k)))
                    if S.bits >= 32 or tier == "thorough":
                        ln = C06.Line("ub/%s/%s@%d->%s@%d" % (mode, S.short, es, D.short, ed), S, D, cnl, "return 0;", {}, meta=dict(mode=mode, k=k, A=S.short))
                        ub.append(ln)
                # scaled -> integer
                for k in ([2, 8] if tier == "quick" else [1, 2, 8]):
                    if k >= S.digits:
                        continue
                    TS = sname(S.name, -k)
                    srctag = ", power<>" if mode == "nearest" else ""
                    cnl = "return convert<%s, %s%s>{}(wrap<%s>(a));" % (TAGS[mode], D.name, srctag, TS)
                    obs.append(kern.Ob("to-int/%s/%s@%d->%s" % (mode, S.short, -k, D.short), D.name, [(S.name, "a")], cnl, [closed_ref(mode, k, S, D)], meta=dict(mode=mode, k=k)))
                # no digits lost: exact under every mode
                for d in ([0, 3] if tier == "quick" else [0, 1, 3, 8]):
                    if (1 << d) > D.max:
                        continue
                    TS, TD = sname(S.name, -4), sname(D.name, -4 - d)
                    # D11 applies here as well (widening scales in the source rep): accept the recorded behaviour as that finding only
                    PS = promote(S)
                    alts = [("D11/scaled-in-source-rep-then-widened", "return (%s)(a * %s);" % (D.name, PS.lit(1 << d)))] if (1 << d) <= PS.max else []
                    obs.append(kern.Ob("exact/%s/%s@-4->%s@%d" % (mode, S.short, D.short, -4 - d), D.name, [(S.name, "a")],
                                       "return unwrap(convert<%s, %s%s>{}(wrap<%s>(a)));" % (TAGS[mode], TD, ", power<>" if mode == "nearest" else "", TS), ["return (%s)((%s)a * %s);" % (D.name, D.name, D.lit(1 << d))], alts=alts,
                                       may_reject=(mode == "nearest"), meta=dict(mode=mode)))   # nearest: the no-rounding specialisation is declared without a body (ill-formed, not wrong)
    # radix other than 2 (nearest only: the other modes' scaled->scaled specialisations shift): the bias must be half a
    # destination unit, Radix^k / 2, whatever the radix (seeded change M-C09-4 made it Radix^k / Radix).  Operands are kept
    # where adding the bias cannot leave the promoted source rep (that overflow is the recorded finding C09-bias-overflow).
    for radix in (10, 3):
        for S in ([I16, I32, I64] if tier == "quick" else [I8, I16, I32, I64]):
            PS = promote(S)
            for D in ([I32, I64] if tier == "quick" else [I16, I32, I64]):
                for k in (1, 2, 4):
                    unit = radix ** k
                    h = unit // 2
                    if unit >= S.max // 4:
                        continue
                    lim = min(S.max, PS.max - h)
                    TS, TD = sname(S.name, -5, radix), sname(D.name, -5 + k, radix)
                    cnl = "return unwrap(convert<%s, %s, power<0, %d>>{}(wrap<%s>(a)));" % (TAGS["nearest"], TD, radix, TS)
                    ref = "return (%s)(((%s)a + (a >= 0 ? %s : %s)) / %s);" % (D.name, PS.name, PS.lit(h), PS.lit(-h), PS.lit(unit))
                    pre = ["a <= %s" % S.lit(lim), "a >= %s" % S.lit(-lim)]
                    obs.append(kern.Ob("narrow/nearest/r%d/%s@-5->%s@%d" % (radix, S.short, D.short, -5 + k), D.name, [(S.name, "a")], cnl, [ref], pre=pre, may_reject=True,
                                       meta=dict(anchor="include/cnl/_impl/scaled_integer/convert_operator.h nearest: half()", mode="nearest", k=k, radix=radix)))
    # siblings: constructors use the destination's rounding tag
    for mode in ("nearest", "tie", "neg_inf"):
        for fl in ("float", "double"):
            obs.append(kern.Ob("sibling/rounding_integer-from-%s/%s" % (fl, mode), "int", [(fl, "f")],
                               "return unwrap(rounding_integer<int, %s>{f});" % TAGS[mode], ["return convert<%s, int>{}(f);" % TAGS[mode]]))
    # floating point -> integer, the floor step of neg_inf and tie_to_pos_inf: with t = trunc(x) (conversion toward zero),
    # floor(x) == t - [x < t].  (tie adds one half in the source type first -- that addition is finding D8 and is taken as
    # it is here, so that this obligation isolates the floor.)  Decided where the destination's integers are exact in the
    # source type, through two facts about truncation the normaliser knows: int -> float -> int is the identity there, and
    # x < trunc(x) implies x < 0.
    MANT = {"float": 24, "double": 53, "long double": 64}
    for fl in ("float", "double", "long double"):
        for D in (I8, I16, I32, I64):
            if D.bits > MANT[fl]:
                continue
            obs.append(kern.Ob("float-floor/neg_inf/%s->%s" % (fl.replace(" ", "-"), D.short), D.name, [(fl, "x")], "return convert<%s, %s>{}(x);" % (TAGS["neg_inf"], D.name),
                               ["%s const t = static_cast<%s>(x); return static_cast<%s>(t - (x < static_cast<%s>(t)));" % (D.name, D.name, D.name, fl)],
                               meta=dict(anchor="include/cnl/_impl/rounding/convert_operator.h neg_inf: floor", mode="neg_inf", finding_key="float-floor/neg_inf")))
            obs.append(kern.Ob("float-floor/tie/%s->%s" % (fl.replace(" ", "-"), D.short), D.name, [(fl, "x")], "return convert<%s, %s>{}(x);" % (TAGS["tie"], D.name),
                               ["%s const y = x + static_cast<%s>(.5L); %s const t = static_cast<%s>(y); return static_cast<%s>(t - (y < static_cast<%s>(t)));" % (fl, fl, D.name, D.name, D.name, fl)],
                               meta=dict(anchor="include/cnl/_impl/rounding/convert_operator.h tie_to_pos_inf: floor", mode="tie", finding_key="float-floor/tie")))
    return obs, ub


def ctor_lines(tier):
    """constructing scaled_integer<rounding_integer<Rep,Tag>> from a finer scaled_integer must round by the destination's
    mode: decided like C08's divisor-pinned lines (divisor 2^k) against the rational-rounding closed forms"""
    L = []
    for mode in ("nearest", "tie", "neg_inf"):
        for (R, k) in ([(I32, 5), (I16, 3), (I64, 8)] if tier == "quick" else [(I32, 5), (I16, 3), (I64, 8), (I8, 2), (I32, 1), (I32, 12)]):
            TS = sname(R.name, -8)
            TD = "scaled_integer<rounding_integer<%s, %s>, power<%d>>" % (R.name, TAGS[mode], -8 + k)
            L.append(C06.Line("ctor/%s/%s/k=%d" % (mode, R.short, k), R, R, "return unwrap(%s{wrap<%s>(a)});" % (TD, TS), "return 0;", {}, meta=dict(mode=mode, K=1 << k, A=R.short)))
            TDs = "static_number<%d, %d, %s>" % (R.digits - k, -8 + k, TAGS[mode])
    return L


FP_SRC = tc.PRELUDE["clang"] + "using namespace cnl;\n" + "".join(
    'extern "C" %s fp_%s_%s_%s(%s f) { return convert<%s, %s>{}(f); }\n' % (D, m, F.replace(" ", ""), D.replace("::", "_").replace(" ", ""), F, TAGS[m], D)
    for m in ("nearest", "tie", "neg_inf") for F in ("float", "double", "long double") for D in ("int", "std::int64_t", "std::int8_t"))


def fp_rule(work):
    """returns (instances, violations): every fadd/fsub of a +/-0.5 constant on the path from the parameter to the fptosi"""
    src = os.path.join(work, "fp.cpp")
    open(src, "w").write(FP_SRC)
    out = os.path.join(work, "fp.ll")
    rc, so, se, cmd = tc.clang_ll(src, out, "eq")
    if rc != 0:
        raise tc.AnalysisBroken("fp TU does not compile: " + se[:1500])
    mod = ir.parse_module(open(out).read())
    inst, viol = [], []
    for name, fn in sorted(mod.functions.items()):
        if not name.startswith("fp_"):
            continue
        _, mode, F, D = name.split("_", 3)
        srcty = fn.params[0][0].split()[0]
        sdig = FDIG[IRTY[srcty]]
        lines = [l for lab in fn.order for l in fn.blocks[lab]]
        adds = [l for l in lines if re.search(r"=\s*(fadd|fsub)\b", l) and re.search(r"(5\.0+e-01|0x3FE0000000000000|0xK3FFE8000000000000000|0xKBFFE8000000000000000|-5\.0+e-01|0xBFE0000000000000)", l)]
        # the bias may also come through a select of +0.5 / -0.5
        sel = [l for l in lines if "select" in l and re.search(r"(5\.0+e-01|0x3FE0|0xK3FFE8|0xKBFFE8)", l)]
        if sel:
            selnames = [re.match(r"^(%\S+)", l).group(1) for l in sel]
            adds += [l for l in lines if re.search(r"=\s*(fadd|fsub)\b", l) and any(sn in l.split("=", 1)[1] for sn in selnames)]
        has_conv = any(re.search(r"\bfpto[su]i\b", l) for l in lines)
        if mode == "neg_inf":
            if adds:
                viol.append((name, "floor conversion adds a bias: %s" % adds[0]))
            inst.append((name, "no bias", has_conv))
            continue
        if not adds:
            inst.append((name, "no bias addition found", has_conv))
            continue
        for l in set(adds):
            ty = re.search(r"=\s*(?:fadd|fsub)\s+(\S+)", l).group(1)
            adig = FDIG[IRTY[ty]]
            inst.append((name, "bias added in %s (%d digits), source %s (%d digits)" % (IRTY[ty], adig, IRTY[srcty], sdig), has_conv))
            if adig <= sdig:
                viol.append((name, "the +/-0.5 bias is added in %s, which has no more significand digits than the source type %s: a source value adjacent to a tie is rounded by the addition itself" % (IRTY[ty], IRTY[srcty]), mode, IRTY[srcty]))
    return inst, viol


def _shiftform(e, var, K):
    """floor forms: (a + c) ashr k  ==  floor((a + c) / 2^k)"""
    k = K.bit_length() - 1
    if e[0] == "cast" and e[1] in ("sext", "trunc"):
        e = e[4]
    if e[0] == "op" and e[1] == "ashr" and gate.is_c(e[4]) and e[4][2] == k:
        x, c = e[3], 0
        if x[0] == "op" and x[1] == "add" and gate.is_c(x[4]):
            c, x = gate.sval(x[4]), x[3]
        if x == var:
            return ("floor", 1, c)
    return None


def _same_floor(df, cf, lo, hi, K, P=None):
    from .C08 import tdiv, members
    pts = set()
    if P is not None:
        pts = members(P, True, lo, hi, abs(K))
    else:
        for base in (lo, hi - 2 * K, (lo + hi) // 2):
            pts |= set(range(max(lo, base), min(hi, base + 2 * K) + 1))
    f = lambda a: (a + df[2]) // K
    g = lambda a: cf[0] * tdiv(cf[1] * a + cf[2], K)
    bad = next((a for a in sorted(pts) if f(a) != g(a)), None)
    return bad is None, bad


FLOOR = {"quick": dict(eq=255, ub=20, fp=18), "thorough": dict(eq=820, ub=100, fp=18)}


def run(tier, seed, work):
    rng = random.Random(seed)
    r = report.Run(PROP, tier, seed, "other")
    nval = validate()
    obs, ub = gen(tier)
    ctl = common.controls()
    kern.run_obligations(work, obs + ctl)
    common.check_controls(r, ctl)
    n = common.settle_eq(r, obs)
    uobs = []
    for ln in ub:
        ob = kern.Ob(ln.key, ln.R.name, [(ln.F.name, "a")], ln.cnl, [], cfg="clang", mode="ub", kind="ir")
        ob.line = ln
        uobs.append(ob)
    kern.run_obligations(work, uobs, batch=30, second_chance=False)
    ucnt = {"proved": 0, "refuted": 0, "undecided": 0}
    for ob in uobs:
        ln = ob.line
        if ob.status != "compiled":
            r.broke("%s: %s" % (ln.key, ob.detail))
            continue
        var = ("arg", 0, "i%d" % ln.F.bits)
        try:
            g = gate.gated(ob.mod, ob.fn)
            parts = iset.leaves(g, var, ISet.full(ln.F.bits))
        except (gate.Unsupported, iset.Undecided, RecursionError) as e:
            ucnt["proved" if "ubsantrap" not in ob.fn_text else "undecided"] += 1
            continue
        bad = ["for the source representation in %s the bias arithmetic executes an undefined step (ubsan kind %s)" % (D.describe(ln.F.signed), leaf[2][0][2])
               for D, leaf in parts if leaf[0] == "effect" and leaf[1] == "ubsantrap"]
        if bad:
            ucnt["refuted"] += 1
            fk = "ub/%s/bias-overflows-near-limit" % ln.meta["mode"]
            r.violation(ln.key, "%s: `%s`: %s" % (ln.key, ln.cnl, "; ".join(bad[:2])), {"key": ln.key, "cnl": ln.cnl, "details": bad, "gated": gate.show(g), "finding_key": fk}, finding_key=fk)
        else:
            ucnt["proved"] += 1
    # constructor lines
    from . import C08
    C08.validate_closed_forms()
    CL = ctor_lines(tier)
    cobs = []
    for ln in CL:
        ob = kern.Ob(ln.key, ln.R.name, [(ln.F.name, "a")], ln.cnl, [], cfg="clang", kind="ir")
        ob.line = ln
        cobs.append(ob)
    kern.run_obligations(work, cobs, batch=10, second_chance=False)
    ccnt = {"proved": 0, "refuted": 0, "undecided": 0}
    for ob in cobs:
        ln = ob.line
        if ob.status != "compiled":
            r.broke("%s: %s" % (ln.key, ob.detail))
            continue
        var = ("arg", 0, "i%d" % ln.F.bits)
        K, mode, A = ln.meta["K"], ln.meta["mode"], BY_SHORT[ln.meta["A"]]
        cf = C08.closed_form(mode, K)
        try:
            g = gate.gated(ob.mod, ob.fn)
            parts = iset.leaves(g, var, ISet.full(ln.F.bits))
        except (gate.Unsupported, iset.Undecided, RecursionError) as e:
            ccnt["undecided"] += 1
            continue
        verdict, details = "proved", []
        for D, leaf in parts:
            for rn, RS in (("nonneg", C06.mkset(A, 0, A.max)), ("neg", C06.mkset(A, A.min, -1))):
                P = D & RS
                if not P or P.size() < 3:
                    continue
                ivs = P.signed_intervals()
                lo, hi = ivs[0][0], ivs[-1][1]
                df = C08.divform(leaf, var, K) or _shiftform(leaf, var, K)
                if df is None:
                    verdict = "undecided" if verdict == "proved" else verdict
                    details.append("source in %s: leaf %s not recognised" % (P.describe(True), gate.show(leaf)[:100]))
                    continue
                ok, wit = C08.same_on(df, cf[rn], lo, hi, K, P, True) if df[0] != "floor" else _same_floor(df, cf[rn], lo, hi, K, P)
                if not ok:
                    verdict = "refuted"
                    details.append("source in %s: the constructor computes %s; %s rounding of a/%d demands %s — they differ e.g. at a = %s" % (P.describe(True), gate.show(leaf)[:80], mode, K, cf[rn], wit))
        ccnt[verdict] += 1
        if verdict == "refuted":
            r.violation(ln.key, "%s: `%s`: %s" % (ln.key, ln.cnl, "; ".join(details[:2])), {"key": ln.key, "cnl": ln.cnl, "details": details, "gated": gate.show(g)})
        elif verdict == "undecided":
            r.notes.append("undecided %s: %s" % (ln.key, details[:1]))
    inst, viol = fp_rule(work)
    for v in viol:
        fk = "fp-precision/%s/%s" % (v[2], v[3]) if len(v) > 2 else "fp/" + v[0]
        r.violation("fp/" + v[0], "%s: %s" % (v[0], v[1]), {"function": v[0], "why": v[1], "finding_key": fk}, finding_key=fk)
    # positive control of the FP rule: it must see the bias of the nearest/float conversion in a wider type
    if not any(i[0].startswith("fp_nearest_float") and "bias added in long double" in i[1] for i in inst):
        r.broke("fp precision rule: did not find the long double bias addition of convert<nearest_rounding_tag,int>(float)")
    common.floor_check(r, "EQ kernel pairs proved", n["proved"], FLOOR[tier]["eq"])
    common.floor_check(r, "UB kernels decided", ucnt["proved"] + ucnt["refuted"], FLOOR[tier]["ub"])
    common.floor_check(r, "floating->integer conversion functions inspected", len(set(i[0] for i in inst)), FLOOR[tier]["fp"])
    good = [o for o in obs if o.status == "proved"]
    r.coverage = {
        "explanation": "A: EQ of scaled->coarser conversions with the closed forms defining each mode on integers (validated against rational rounding, %d points). B: UB over the whole source range. C: precision rule on the bias addition of floating->integer conversions. D: constructor/convert sibling agreement. Floating-point value semantics beyond the precision rule and radix != 2 are not decided." % nval,
        "evaluations": len(obs) + len(ub) + len(inst), "distinct_nontrivial": n["proved"] + ucnt["proved"] + ucnt["refuted"] + len(set(i[0] for i in inst)),
        "rule": "non-trivial = EQ pair proved, UB kernel decided, or FP conversion function in which the rule found its instance",
        "eq_pairs": len(obs), "eq_proved": n["proved"], "eq_refuted": n["refuted"], "ub_kernels": len(ub), "ub_proved": ucnt["proved"], "ub_refuted": ucnt["refuted"], "ub_undecided": ucnt["undecided"],
        "ctor_lines": len(CL), "ctor_proved": ccnt["proved"], "ctor_refuted": ccnt["refuted"], "ctor_undecided": ccnt["undecided"],
        "fp_functions": len(set(i[0] for i in inst)), "fp_rule_violations": len(viol), "fp_instances": [list(i) for i in inst[:27]],
        "samples": [{"key": o.key, "cnl": o.cnl, "ref": o.refs[o.matched_ref]} for o in rng.sample(good, min(6, len(good)))],
        "exhaustive": False,
    }
    r.assumptions = ["rounded result representable in the destination"]
    return r.finish()


def replay(path, work):
    import json
    d = json.load(open(path))
    print(json.dumps(d, indent=1)[:3000])
    return 1
