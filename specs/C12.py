"""C12 — wrapping is transparent: native-tag wrappers compute what bare integers compute.

Engine EQ (translation validation of kernel pairs as optimised IR) + engine T (result rep).
"""
import random, itertools
from vlib import tc, kern, facts as factmod, report
from vlib.cty import *
from . import common

PROP = "C12"

NESTS = {
    "S": "scaled_integer<%s, power<0>>",
    "O": "overflow_integer<%s, native_overflow_tag>",
    "N": "rounding_integer<%s, native_rounding_tag>",
}
# nestings, outermost first
NESTINGS = ["S", "O", "N", "SO", "SN", "ON", "NO", "SON", "SNO"]
# rounding_integer has no ++/-- (custom_operator<pre_increment_op, op_value<_, native_rounding_tag>> is not
# defined): expressions that the library rejects at compile time are not in the property's scope.
NO_INCDEC = {"N", "NO"}


def wtype(nest, rep):
    t = rep
    for c in reversed(nest):
        t = NESTS[c] % t
    return t


ARITH = ["+", "-", "*", "&", "|", "^"]
DIVS = ["/", "%"]
SHIFTS = ["<<", ">>"]
CMPS = ["==", "!=", "<", "<=", ">", ">="]
UNARY = ["-", "+", "~"]


def div_pres(P, a="a", b="b"):
    """conjunctive pieces covering b != 0 && !(a == lowest && b == -1) for the promoted type P"""
    if not P.signed:
        return [["%s != 0" % b]]
    return [["%s != 0" % b, "%s != -1" % b], ["%s == -1" % b, "(%s)%s != std::numeric_limits<%s>::lowest()" % (P.name, a, P.name)]]


def gen(tier, rng):
    obs, facts = [], []
    reps = ALL64
    nestings = NESTINGS
    cfgs = ["clang", "gcc"]
    for cfg in cfgs:
        for nest in nestings:
            for R in reps:
                if tier == "quick" and cfg == "gcc" and R not in (I8, U16, I32, U64):
                    continue
                if tier == "quick" and len(nest) >= 2 and R not in (I8, U8, I32, U32, I64):
                    continue
                W = wtype(nest, R.name)
                P = promote(R)
                par2 = [(R.name, "a"), (R.name, "b")]
                par1 = [(R.name, "a")]
                base = "%s/%s/%s" % (cfg, nest, R.short)
                mk = lambda key, ret, params, cnl, refs, pre=(), **kw: obs.append(
                    kern.Ob("%s/%s" % (base, key), ret, params, cnl, refs, pre=pre, cfg=cfg, decls="", meta=dict(nest=nest, rep=R.short, W=W, **kw)))
                wa, wb = "wrap<%s>(a)" % W, "wrap<%s>(b)" % W
                for op in ARITH:
                    mk("bin" + op, P.name, par2, "return unwrap(%s %s %s);" % (wa, op, wb), ["return a %s b;" % op])
                for op in DIVS:
                    for k, pre in enumerate(div_pres(P)):
                        mk("bin%s#%d" % (op, k), P.name, par2, "return unwrap(%s %s %s);" % (wa, op, wb), ["return a %s b;" % op], pre=pre)
                for op in SHIFTS:
                    pre = ["b >= 0", "b < %d" % P.bits]
                    mk("bin%s/w" % op, P.name, par2, "return unwrap(%s %s %s);" % (wa, op, wb), ["return a %s b;" % op], pre=pre)
                    mk("bin%s/int" % op, P.name, [(R.name, "a"), ("int", "b")], "return unwrap(%s %s b);" % (wa, op), ["return a %s b;" % op], pre=pre)
                # a built-in LEFT operand shifted by a wrapper: the built-in expression's (promoted) type and value
                # (seeded change M-C12-5: the result narrowed back to the left operand's type)
                for L_ in ([I8, U8, I16, U16, I32, U64] if tier != "quick" else [U8, I16, I32]):
                    PL = promote(L_)
                    for op in SHIFTS:
                        mk("bin%s/lhs-builtin/%s" % (op, L_.short), PL.name, [(L_.name, "a"), (R.name, "b")], "return a %s %s;" % (op, wb), ["return a %s b;" % op],
                           pre=["b >= 0", "b < %d" % PL.bits] + (["a >= 0"] if (PL.signed and op == "<<") else []))
                    if cfg == "clang":
                        facts.append(factmod.Fact("type/%s/%s/lhs-builtin-shift/%s" % (nest, R.short, L_.short),
                                                  "std::is_same_v<decltype(std::declval<%s>() << std::declval<%s>()), %s>" % (L_.name, W, PL.name), 1))
                for op in CMPS:
                    mk("cmp" + op, "bool", par2, "return %s %s %s;" % (wa, op, wb), ["return a %s b;" % op])
                    mk("cmp%s/rhs-builtin" % op, "bool", par2, "return %s %s b;" % (wa, op), ["return a %s b;" % op])
                    mk("cmp%s/lhs-builtin" % op, "bool", par2, "return a %s %s;" % (op, wb), ["return a %s b;" % op])
                if R.bits < 64 and (tier != "quick" or R in (I8, U8, I32, U32)):
                    # a built-in operand of a WIDER type than the wrapper's rep: the built-in expression converts the
                    # narrow side up, never the wide side down (seeded change M-C12-3)
                    for wide in ("long long", "unsigned long long"):
                        parw = [(wide, "a"), (R.name, "b")]
                        for op in CMPS:
                            mk("cmp%s/lhs-wider-builtin/%s" % (op, wide.split()[0]), "bool", parw, "return a %s %s;" % (op, wb), ["return a %s b;" % op])
                            mk("cmp%s/rhs-wider-builtin/%s" % (op, wide.split()[0]), "bool", [(R.name, "a"), (wide, "b")], "return %s %s b;" % (wa, op), ["return a %s b;" % op])
                for op in UNARY:
                    mk("un" + op, P.name, par1, "return unwrap(%s%s);" % (op, wa), ["return %sa;" % op])
                # mixed built-in operand
                for op in ("+", "*", "-"):
                    mk("bin%s/rhs-builtin" % op, P.name, par2, "return unwrap(%s %s b);" % (wa, op), ["return a %s b;" % op])
                    mk("bin%s/lhs-builtin" % op, P.name, par2, "return unwrap(a %s %s);" % (op, wb), ["return a %s b;" % op])
                if nest not in NO_INCDEC:
                    for op, d in (("++", "+"), ("--", "-")):
                        mk("pre%s/effect" % op, R.name, par1, "auto x = %s; %sx; return unwrap(x);" % (wa, op), ["return (%s)(a %s 1);" % (R.name, d)])
                        mk("pre%s/value" % op, R.name, par1, "auto x = %s; return unwrap(%sx);" % (wa, op), ["return (%s)(a %s 1);" % (R.name, d)])
                        mk("post%s/effect" % op, R.name, par1, "auto x = %s; x%s; return unwrap(x);" % (wa, op), ["return (%s)(a %s 1);" % (R.name, d)])
                        mk("post%s/value" % op, R.name, par1, "auto x = %s; return unwrap(x%s);" % (wa, op), ["return a;"])
                for op in ARITH:
                    mk("asg%s=" % op, R.name, par2, "auto x = %s; x %s= %s; return unwrap(x);" % (wa, op, wb), ["return (%s)(a %s b);" % (R.name, op)])
                    mk("asg%s=/rhs-builtin" % op, R.name, par2, "auto x = %s; x %s= b; return unwrap(x);" % (wa, op), ["return (%s)(a %s b);" % (R.name, op)])
                for op in DIVS:
                    for k, pre in enumerate(div_pres(P)):
                        mk("asg%s=#%d" % (op, k), R.name, par2, "auto x = %s; x %s= %s; return unwrap(x);" % (wa, op, wb), ["return (%s)(a %s b);" % (R.name, op)], pre=pre)
                for op in SHIFTS:
                    pre = ["b >= 0", "b < %d" % P.bits]
                    mk("asg%s=" % op, R.name, par2, "auto x = %s; x %s= %s; return unwrap(x);" % (wa, op, wb), ["return (%s)(a %s b);" % (R.name, op)], pre=pre)
                    mk("asg%s=/int" % op, R.name, [(R.name, "a"), ("int", "b")], "auto x = %s; x %s= b; return unwrap(x);" % (wa, op), ["return (%s)(a %s b);" % (R.name, op)], pre=pre)
        # mixed representation pairs (promotion to the common type must be the built-in one)
        pairs = [(a, b) for a in reps for b in reps if a is not b]
        if tier == "quick":
            pairs = [(I8, U8), (U8, I32), (I32, U32), (U32, I64), (I64, U64), (U16, I16), (I16, U64), (U64, I8)] + common.sample(rng, pairs, 6)
        for (A, B) in pairs:
            P = uac(A, B)
            for nest in (["S", "O", "N", "SO"] if tier == "thorough" else ["S", "O", "N"]):
                WA, WB = wtype(nest, A.name), wtype(nest, B.name)
                base = "%s/%s/%s,%s" % (cfg, nest, A.short, B.short)
                par2 = [(A.name, "a"), (B.name, "b")]
                for op in ARITH:
                    obs.append(kern.Ob("%s/bin%s" % (base, op), P.name, par2, "return unwrap(wrap<%s>(a) %s wrap<%s>(b));" % (WA, op, WB), ["return a %s b;" % op], cfg=cfg, meta=dict(nest=nest)))
                for op in CMPS:
                    obs.append(kern.Ob("%s/cmp%s" % (base, op), "bool", par2, "return wrap<%s>(a) %s wrap<%s>(b);" % (WA, op, WB), ["return a %s b;" % op], cfg=cfg, meta=dict(nest=nest)))
                for k, pre in enumerate(div_pres(P)):
                    obs.append(kern.Ob("%s/bin/#%d" % (base, k), P.name, par2, "return unwrap(wrap<%s>(a) / wrap<%s>(b));" % (WA, WB), ["return a / b;"], pre=pre, cfg=cfg, meta=dict(nest=nest)))
    # documentation kernels: the fixed-point idioms the docs promise to be zero-cost
    for cfg in cfgs:
        D = lambda key, ret, params, cnl, refs, pre=(): obs.append(kern.Ob("%s/doc/%s" % (cfg, key), ret, params, cnl, refs, pre=pre, cfg=cfg))
        D("multiply-widen", "std::int64_t", [("std::int32_t", "a"), ("std::int32_t", "b")],
          "using F = scaled_integer<std::int32_t, power<-16>>; using G = scaled_integer<std::int64_t, power<-16>>;"
          " auto p = G{wrap<F>(a)} * wrap<F>(b); static_assert(std::is_same_v<decltype(p), scaled_integer<std::int64_t, power<-32>>>); return unwrap(p);",
          ["return std::int64_t{a} * b;"])
        D("mixed-exponent-add", "std::int32_t", [("std::int32_t", "a"), ("std::int16_t", "b")],
          "return unwrap(wrap<scaled_integer<std::int32_t, power<-3>>>(a) + wrap<scaled_integer<std::int16_t, power<-5>>>(b));",
          ["return a * 4 + b;"])
        D("average/scaled", "std::int64_t", [("std::int32_t", "a"), ("std::int32_t", "b")],
          "using F = scaled_integer<std::int32_t, power<-16>>; using G = scaled_integer<std::int64_t, power<-16>>;"
          " auto sum = G{wrap<F>(a)} + wrap<F>(b); auto h = sum >> constant<1>{}; static_assert(std::is_same_v<decltype(h), scaled_integer<std::int64_t, power<-17>>>); return unwrap(h);",
          ["return std::int64_t{a} + b;"])
        D("average/elastic", "std::int64_t", [("std::int32_t", "a"), ("std::int32_t", "b")],
          "using F = elastic_scaled_integer<31, power<-16>>; auto sum = wrap<F>(a) + wrap<F>(b); auto h = sum >> constant<1>{};"
          " return unwrap(h);",
          ["return std::int64_t{a} + b;"])
        D("square/scaled", "std::int64_t", [("std::int32_t", "a")],
          "using F = scaled_integer<std::int32_t, power<-16>>; using G = scaled_integer<std::int64_t, power<-16>>;"
          " return unwrap(G{wrap<F>(a)} * wrap<F>(a));",
          ["return std::int64_t{a} * a;"])
        D("square/elastic", "std::int32_t", [("std::int16_t", "a")],
          "using F = elastic_scaled_integer<15, power<-16>>; auto p = wrap<F>(a) * wrap<F>(a); static_assert(digits_v<decltype(p)> == 30); return unwrap(p);",
          ["return std::int32_t{a} * a;"])
        D("average/float-out", "float", [("std::int32_t", "a"), ("std::int32_t", "b")],
          "using F = scaled_integer<std::int32_t, power<-16>>; using G = scaled_integer<std::int64_t, power<-16>>;"
          " auto sum = G{wrap<F>(a)} + wrap<F>(b); return static_cast<float>(sum >> constant<1>{});",
          ["return static_cast<float>(std::int64_t{a} + b) * (1.F / 131072.F);", "return static_cast<float>(std::int64_t{a} + b) / 131072.F;"])
    # mixed-exponent expressions against the hand-written shift-and-operate code, different reps on the two sides and both
    # operand orders (a copy-paste slip in one of the two mirrored comparison specialisations shows only for a wider coarse
    # operand on one particular side: seeded change M-C12-1)
    from .C01 import sname, factor_lit, fits
    mp = [(I64, I32), (I32, I64), (U64, I16), (I16, U64), (I64, I8), (U32, I64), (I32, I32)] if tier == "quick" else [(a, b) for a in reps for b in reps]
    for cfg in cfgs:
        for (A, B) in mp:
            PA, PB = promote(A), promote(B)
            for d in ((4,) if tier == "quick" else (1, 4, 9)):
                for coarse in ("lhs", "rhs"):
                    ea, eb = (0, -d) if coarse == "lhs" else (-d, 0)
                    if not fits(PA if coarse == "lhs" else PB, 2, d):
                        continue
                    TA, TB = sname(A.name, ea), sname(B.name, eb)
                    la = "(a * %s)" % factor_lit(PA, 2, d) if coarse == "lhs" else "a"
                    lb = "(b * %s)" % factor_lit(PB, 2, d) if coarse == "rhs" else "b"
                    for op in CMPS:
                        obs.append(kern.Ob("%s/mixed-exponent/%s@%d,%s@%d/%s" % (cfg, A.short, ea, B.short, eb, op), "bool", [(A.name, "a"), (B.name, "b")],
                                           "return wrap<%s>(a) %s wrap<%s>(b);" % (TA, op, TB), ["return %s %s %s;" % (la, op, lb)], cfg=cfg, meta=dict(nest="S")))
                    R = uac(A, B)
                    for op in ("+", "-"):
                        obs.append(kern.Ob("%s/mixed-exponent/%s@%d,%s@%d/%s" % (cfg, A.short, ea, B.short, eb, op), R.name, [(A.name, "a"), (B.name, "b")],
                                           "return unwrap(wrap<%s>(a) %s wrap<%s>(b));" % (TA, op, TB), ["return %s %s %s;" % (la, op, lb)], cfg=cfg, meta=dict(nest="S")))
    # result representation facts
    for nest in NESTINGS:
        for A in reps:
            for B in (reps if tier == "thorough" else [A, I32, U64]):
                WA, WB = wtype(nest, A.name), wtype(nest, B.name)
                for op in (ARITH + DIVS if tier == "thorough" else ["+", "*", "/"]):
                    P = uac(A, B)
                    facts.append(factmod.Fact("rep/%s/%s%s%s" % (nest, A.short, op, B.short),
                                              "std::is_same_v<decltype(unwrap(std::declval<%s>() %s std::declval<%s>())), %s>" % (WA, op, WB, P.name), 1))
                if A is B:
                    for op in UNARY:
                        facts.append(factmod.Fact("rep/%s/%s%s" % (nest, op, A.short),
                                                  "std::is_same_v<decltype(unwrap(%sstd::declval<%s>())), %s>" % (op, WA, promote(A).name), 1))
                    for op in SHIFTS:
                        facts.append(factmod.Fact("rep/%s/%s%sint" % (nest, A.short, op),
                                                  "std::is_same_v<decltype(unwrap(std::declval<%s>() %s 1)), %s>" % (WA, op, promote(A).name), 1))
    return obs, facts


FLOOR = {"quick": (2500, 300), "thorough": (9000, 3000)}


def run(tier, seed, work):
    rng = random.Random(seed)
    r = report.Run(PROP, tier, seed, "translation_validation")
    obs, facts = gen(tier, rng)
    ctl = common.controls()
    fctl = common.fact_controls()
    kern.run_obligations(work, obs + ctl)
    factmod.run_facts(work, facts + fctl)
    common.check_controls(r, ctl)
    common.check_fact_controls(r, fctl)
    n = common.settle_eq(r, obs)
    nf = common.settle_facts(r, facts)
    common.floor_check(r, "kernel pairs proved", n["proved"], FLOOR[tier][0])
    common.floor_check(r, "type facts proved", nf["proved"], FLOOR[tier][1])
    samp = [o for o in obs if o.status == "proved"]
    r.coverage = {
        "programs": len(obs), "disagreements_checked": n["refuted"],
        "kernel_pairs_proved": n["proved"], "kernel_pairs_refuted": n["refuted"], "kernel_pairs_broken": n["broken"],
        "type_facts": len(facts), "type_facts_proved": nf["proved"], "type_facts_refuted": nf["refuted"],
        "configurations": ["clang (portable paths)", "gcc (intrinsic paths, via #undef __clang__)"],
        "rule": "for each operator x wrapper nesting x representation: normal form of the -O2 IR of the CNL kernel == normal form of the built-in expression, for all operand values at once",
        "samples": [{"key": o.key, "cnl": o.cnl, "ref": o.refs[o.matched_ref], "pre": o.pre, "normal_form": o.nf_cnl.pretty} for o in rng.sample(samp, min(6, len(samp)))],
        "controls": [c.key + "=" + str(c.status) for c in ctl + fctl],
        "exhaustive": tier == "thorough",
    }
    r.assumptions = ["LLVM 14 -O2 transformations preserve semantics", "operand domain restrictions of the property (non-zero divisor, lowest/-1 excluded, 0 <= shift < width) are assumed on both sides"]
    return r.finish()


def replay(path, work):
    import json
    d = json.load(open(path))
    ob = kern.Ob(d["key"], d["ret"], [tuple(p) for p in d["params"]], d["cnl"], d["refs"], pre=d["pre"], cfg=d["cfg"], mode=d["mode"], decls=d.get("decls", ""))
    kern.run_obligations(work, [ob])
    print(ob.key, ob.status, ob.detail)
    if ob.nf_cnl:
        print("--- CNL kernel normal form\n" + ob.nf_cnl.pretty)
        for n in ob.nf_refs:
            print("--- reference normal form\n" + n.pretty)
    return 0 if ob.status == "proved" else 1
