"""C13 — to_chars never writes outside the caller's buffer and reports failure cleanly.

A. T + oracle: to_chars_capacity<T>{}() >= the exact maximum length of the decimal expansion (sign, integer digits,
   point, fractional digits) for integers of 8..128 bits and scaled_integer over exponents in [-70,70]; the static
   result holds capacity + 1 characters.
B. CFG dominance rule on the integer path and the entry of the scaled path (-O1 -fno-inline IR, every CNL function still
   a function): every `store i8` through a pointer into the caller's buffer is dominated by the failing edge of a
   comparison of that same pointer with `last` (or of distance(first,last) with 2 / first with last when the pointer is
   `first`); for the scaled overload's '-' the guard is required in the (unique) caller.
C. Result rule: whenever a function of the family returns errc::value_too_large the returned pointer is `last`.
D. Who-may-call: the digit-writing internals are only called from the to_chars family; to_chars_static, to_string and
   operator<< reach the buffer only through cnl::to_chars.
Not decided: the layout arithmetic of solve_fixed / solve_scientific / fill (relational facts over run-time integers).
"""
import random, re, os
from vlib import tc, ir, facts as factmod, report
from vlib.cty import *
from . import common
from .C01 import sname

PROP = "C13"
EOVERFLOW = "75"


def gen_facts(tier):
    F = []
    for T in ALL128:
        need = max(len(str(T.min)), len(str(T.max)))
        F.append(factmod.Fact("capacity/int/%s" % T.short, "cnl::_impl::to_chars_capacity<%s>{}()" % T.name, None,
                              judge=lambda v, need=need, T=T: None if v >= need else "capacity %d < %d characters needed for %d" % (v, need, T.min if T.signed else T.max)))
        F.append(factmod.Fact("static-result/int/%s" % T.short, "sizeof(decltype(cnl::to_chars_static(std::declval<%s>()).chars)) == cnl::_impl::to_chars_capacity<%s>{}() + 1" % (T.name, T.name), 1))
    # wide and elastic integers: the capacity formula is a function of the digit count alone, and approximations of
    # log10(2) go wrong at specific digit counts only (d*3/10 is first short at d = 103), so the count is swept
    wd = [31, 63, 64, 100, 103, 113, 127, 128, 129, 193, 196, 200, 203, 206, 255, 256, 300, 500, 1000] if tier == "quick" else sorted(set(list(range(8, 300, 1)) + [500, 777, 1000, 2000]))
    for d in wd:
        for sg, nm in ((True, "int"), (False, "unsigned")):
            T = "cnl::wide_integer<%d, %s>" % (d, nm)
            need = len(str(2 ** d - 1)) + (1 if sg else 0)
            F.append(factmod.Fact("capacity/wide/%d%s" % (d, "s" if sg else "u"), "cnl::_impl::to_chars_capacity<%s>{}()" % T, None, may_reject=True,
                                  judge=lambda v, need=need, d=d, sg=sg: None if v >= need else "capacity %d < %d characters needed for the %s %d-digit value" % (v, need, "most negative" if sg else "largest", d),
                                  meta=dict(anchor="include/cnl/_impl/charconv/to_chars_capacity.h")))
    for d in ([1, 7, 14, 20, 31, 40, 63] if tier == "quick" else range(1, 64)):
        for sg, nm in ((True, "int"), (False, "unsigned")):
            T = "cnl::elastic_integer<%d, %s>" % (d, nm)
            need = len(str(2 ** d - 1)) + (1 if sg else 0)
            F.append(factmod.Fact("capacity/elastic/%d%s" % (d, "s" if sg else "u"), "cnl::_impl::to_chars_capacity<%s>{}()" % T, None, may_reject=True,
                                  judge=lambda v, need=need, d=d: None if v >= need else "capacity %d < %d characters needed for a %d-digit elastic value" % (v, need, d)))
    # scaled_integer: whether to_chars succeeds within the static capacity depends on the layout arithmetic (fixed vs
    # scientific, truncation), which is not decided here.  What is decided is the arithmetic of the capacity formula
    # itself for integral scaled types (exponent >= 0, where no truncation of the integer part is possible in fixed
    # notation) and that the static result always has room for capacity + 1 characters.
    exps = [0, 1, 3, 8, 15] if tier == "quick" else list(range(0, 40))
    for R in ([I8, U8, I16, I32, U32, I64, U64] if tier == "quick" else ALL64):
        for radix in (2, 10, 8, 16, 3):          # 8 / 16 / other: the capacity formula has a case of its own for each (M-C13-6)
            for e in exps:
                if radix == 10 and e > 18:
                    continue
                if radix in (8, 16, 3) and (e > 15 or (tier == "quick" and e not in (0, 1, 8, 15))):
                    continue
                T = sname(R.name, e, radix)
                mag = max(abs(R.min), R.max)
                need = (1 if R.signed else 0) + len(str(mag * radix ** e))
                F.append(factmod.Fact("capacity/scaled/%s/r%d/e%d" % (R.short, radix, e), "cnl::_impl::to_chars_capacity<%s>{}()" % T, None, may_reject=True,
                                      judge=lambda v, need=need, mag=mag, radix=radix, e=e: None if v >= need else "capacity %d < %d characters of the integer %d x %d^%d" % (v, need, mag, radix, e),
                                      meta=dict(anchor="include/cnl/_impl/scaled_integer/to_chars_capacity.h")))
        for e in ([-8, -1, 0, 5] if tier == "quick" else [-40, -8, -1, 0, 5, 20]):
            T = sname(R.name, e)
            F.append(factmod.Fact("static-result/scaled/%s/e%d" % (R.short, e), "sizeof(decltype(cnl::to_chars_static(std::declval<%s>()).chars)) == cnl::_impl::to_chars_capacity<%s>{}() + 1" % (T, T), 1))
    return F


IR_SRC = tc.PRELUDE["clang"] + "using namespace cnl;\n" + "".join(
    'extern "C" std::to_chars_result tc_%s(char* f, char* l, %s v) { return cnl::to_chars(f, l, v); }\n' % (T.short, T.name) for T in ALL128) + """
extern "C" std::to_chars_result tc_s1(char* f, char* l, scaled_integer<int, power<-8>> v) { return cnl::to_chars(f, l, v); }
extern "C" std::to_chars_result tc_s2(char* f, char* l, scaled_integer<std::uint64_t, power<-30>> v) { return cnl::to_chars(f, l, v); }
extern "C" std::to_chars_result tc_s3(char* f, char* l, scaled_integer<std::int16_t, power<5, 10>> v) { return cnl::to_chars(f, l, v); }
extern "C" std::to_chars_result tc_e(char* f, char* l, elastic_integer<20> v) { return cnl::to_chars(f, l, v); }
extern "C" void use_static(int v, long w, scaled_integer<int, power<-8>> s, char* out) { auto a = cnl::to_chars_static(v); auto b = cnl::to_chars_static(w); auto c = cnl::to_chars_static(s); out[0] = a.chars[0] ^ b.chars[0] ^ c.chars[0]; }
extern "C" void use_string(scaled_integer<int, power<-8>> s, scaled_integer<std::int64_t, power<-20>> t, std::string* out) { *out = cnl::to_string(s) + cnl::to_string(t); }
extern "C" void use_stream(std::ostream* o, scaled_integer<int, power<-8>> s, cnl::int128_t i, cnl::uint128_t u, overflow_integer<int, saturated_overflow_tag> w) { *o << s << i << u << w; }
"""


class Cfg:
    def __init__(self, fn):
        self.fn = fn
        self.succ, self.pred = {}, {}
        for lab in fn.order:
            ins = fn.blocks[lab]
            t = ins[-1] if ins else ""
            body = t.split("=", 1)[1].strip() if re.match(r"^%\S+\s*=", t) else t
            self.succ[lab] = [x[1:] for x in ir._successors(body)]
        for a, ss in self.succ.items():
            for b in ss:
                self.pred.setdefault(b, []).append(a)
        # dominators (iterative)
        order = fn.order
        self.dom = {b: set(order) for b in order}
        self.dom[order[0]] = {order[0]}
        changed = True
        while changed:
            changed = False
            for b in order[1:]:
                ps = [self.dom[p] for p in self.pred.get(b, []) if p in self.dom]
                new = ({b} | set.intersection(*ps)) if ps else {b}
                if new != self.dom[b]:
                    self.dom[b], changed = new, True
        self.defs = {}
        for lab in order:
            for l in fn.blocks[lab]:
                m = re.match(r"^(%\S+)\s*=\s*(.*)$", l)
                if m:
                    self.defs[m.group(1)] = (lab, m.group(2))


def guard_implies_ne_last(cfg, cond, P, first, last, depth=0, truth=False):
    """does `cond == truth` imply P != last (or that P == first has room)?  Both spellings of the test are recognised:
    `if (p == last || ...) fail; store` (the store on the false edge of an or of eq tests) and
    `if (p != nullptr && p != last) store` (the store on the true edge of an and of ne tests)."""
    if cond not in cfg.defs or depth > 4:
        return False
    body = cfg.defs[cond][1]
    m = re.match(r"^icmp (eq|ne) i8\* (%\S+), (%\S+|null)$", body)
    if m:
        a, b = m.group(2), m.group(3)
        if (m.group(1) == "eq") != (not truth):
            return False
        return {a, b} == {P, last} or ({a, b} == {first, last} and P == first)
    m = re.match(r"^xor i1 (%\S+), true$", body)
    if m:
        return guard_implies_ne_last(cfg, m.group(1), P, first, last, depth + 1, not truth)
    if not truth:
        m = re.match(r"^or i1 (%\S+), (%\S+)$", body) or re.match(r"^select i1 (%\S+), i1 true, i1 (%\S+)$", body)
    else:
        m = re.match(r"^and i1 (%\S+), (%\S+)$", body) or re.match(r"^select i1 (%\S+), i1 (%\S+), i1 false$", body)
    if m:
        return guard_implies_ne_last(cfg, m.group(1), P, first, last, depth + 1, truth) or guard_implies_ne_last(cfg, m.group(2), P, first, last, depth + 1, truth)
    m = re.match(r"^icmp (slt|sgt) i64 (%\S+), (2|1)$", body)
    if m and P == first and m.group(2) in cfg.defs and ((m.group(1), m.group(3), truth) in (("slt", "2", False), ("sgt", "1", True))):
        d = cfg.defs[m.group(2)][1]
        if re.search(r"call .*@_ZSt8distanceIPcE[^(]*\(i8\* (?:noundef )?%s, i8\* (?:noundef )?%s\)" % (re.escape(first), re.escape(last)), d) or re.match(r"^sub i64 ", d):
            return True
    return False


def store_rule(fn, first, last):
    """returns (n_stores, problems)"""
    cfg = Cfg(fn)
    n, probs = 0, []
    for lab in fn.order:
        for l in fn.blocks[lab]:
            m = re.match(r"^store i8 [^,]+, i8\* (%[^\s,]+)", l)
            if not m:
                continue
            P = m.group(1)
            if P in cfg.defs and re.match(r"^(alloca|getelementptr inbounds \[)", cfg.defs[P][1]):
                continue   # a local array
            n += 1
            ok = False
            for d in cfg.dom[lab]:
                t = fn.blocks[d][-1] if fn.blocks[d] else ""
                mb = re.match(r"^br i1 (%\S+), label %(\S+), label %(\S+)$", t)
                if not mb:
                    continue
                cond, tl, fl = mb.groups()
                if tl == fl:
                    continue
                for edge, truth in ((fl, False), (tl, True)):
                    if edge not in cfg.dom[lab] and edge != lab:
                        continue
                    if len(cfg.pred.get(edge, [])) != 1:
                        continue
                    if guard_implies_ne_last(cfg, cond, P, first, last, 0, truth):
                        ok = True
                        break
                if ok:
                    break
            if not ok:
                probs.append("store through %s in block %s is not dominated by a failed comparison of that pointer with `last`: %s" % (P, lab, l))
    return n, probs


def result_rule(fn, last):
    """every path on which ec == value_too_large returns ptr == last.  Recognises insertvalue chains with constant /
    select / phi components.  Returns (instances, problems, unrecognised)"""
    cfg = Cfg(fn)
    inst, probs, unrec = 0, [], []

    def agg(v, lab):
        # returns (ptr_operand, ec_operand) for aggregate value v
        if v not in cfg.defs:
            m = re.match(r"^\{ i8\* (\S+), i32 (\S+) \}$", v)
            return (m.group(1), m.group(2)) if m else None
        body = cfg.defs[v][1]
        m = re.match(r"^insertvalue \{ i8\*, i32 \} (.+), i32 (\S+), 1$", body)
        if m:
            inner = m.group(1).strip()
            a = agg(inner, lab) if inner.startswith("%") else None
            if a:
                return (a[0], m.group(2))
            m2 = re.match(r"^\{ i8\* (\S+), i32 \S+ \}$", inner)
            return (m2.group(1), m.group(2)) if m2 else None
        m = re.match(r"^insertvalue \{ i8\*, i32 \} (.+), i8\* (\S+), 0$", body)
        if m:
            inner = m.group(1).strip()
            a = agg(inner, lab) if inner.startswith("%") else None
            return (m.group(2), a[1] if a else "undef")
        if body.startswith("call ") or body.startswith("phi ") or body.startswith("select "):
            return ("@" + body.split(" ", 1)[0], None)
        return None

    def cases(v):
        """expand a scalar into [(guard, value)] through select / phi (one level)"""
        if v not in cfg.defs:
            return [((), v)]
        body = cfg.defs[v][1]
        m = re.match(r"^select i1 (%\S+), \S+ (\S+), \S+ (\S+)$", body)
        if m:
            return [((("sel", m.group(1), True),), m.group(2)), ((("sel", m.group(1), False),), m.group(3))]
        m = re.match(r"^phi \S+ (.*)$", body)
        if m:
            return [((("phi", cfg.defs[v][0], b),), x.strip()) for x, b in re.findall(r"\[\s*([^,\]]+),\s*%([^\s\]]+)\s*\]", m.group(1))]
        return [((), v)]

    for lab in fn.order:
        t = fn.blocks[lab][-1] if fn.blocks[lab] else ""
        m = re.match(r"^ret \{ i8\*, i32 \} (.+)$", t)
        if not m:
            continue
        v = m.group(1).strip()
        vs = [v]
        if v in cfg.defs and cfg.defs[v][1].startswith("phi "):
            vs = [x.strip() for x, b in re.findall(r"\[\s*([^\]]+?),\s*%([^\s\]]+)\s*\]", cfg.defs[v][1])]
        for one in vs:
            a = agg(one, lab)
            if a is None:
                unrec.append(one)
                continue
            if a[1] is None:
                continue      # the result of a callee of the same family (checked there) or a merge of such
            ptr, ec = a
            for g_ec, ecv in cases(ec):
                if ecv != EOVERFLOW:
                    continue
                inst += 1
                ok = False
                for g_p, pv in cases(ptr):
                    if g_p == g_ec or not g_p:
                        if g_p == g_ec and pv == last:
                            ok = True
                        if not g_p and pv == last:
                            ok = True
                    elif g_ec and g_p and g_ec[0][0] == g_p[0][0] == "phi" and g_ec[0][2] == g_p[0][2] and pv == last:
                        ok = True
                if not ok:
                    probs.append("returns errc::value_too_large with ptr = %s (not `last`)" % (cfg.defs.get(ptr, ("", ptr))[1] if ptr in cfg.defs else ptr))
    return inst, probs, unrec


# ---------------------------------------------------------------- E. layout contract between the solvers, the selection and fill
_FILL_SCI = "cnl::_impl::fill(cnl::_impl::descaled_info const&, cnl::_impl::scientific_solution const&)"
_FILL_FIX = "cnl::_impl::fill(cnl::_impl::descaled_info const&, cnl::_impl::fixed_solution const&)"
_STATIC10 = "auto cnl::to_chars_static<10, int>(int const&)"
_MMAX = 4096


def layout_lines(tier):
    """One line per (significand length S, decimal exponent E); the buffer size m is the free variable.

    Three facts about the real solvers, each a kernel `bool(int m, char const*)` that builds a descaled_info with S, E and
    the exponent text pinned and calls the real solve_scientific / solve_fixed:
      Vs  the scientific layout is one fill can carry out inside m characters: at least one digit, num_chars <= m, and
          num_chars is what fill(scientific) writes (digits, point, 'e', exponent text);
      Vf  the same for the fixed layout: at least one digit, num_chars <= m, the digits before the point and the trailing
          zeros (which fill(fixed) writes unconditionally) fit, and no more digits than the significand has;
      Ps  the property's preference: (digits, -chars) of the scientific layout is greater than that of the fixed one.
    and one kernel that calls the real to_chars_positive (the real selection, with the real solvers inlined into it), in
    which the two fill overloads are cut to never-returning declarations, so that the control-only ite tree over m says
    which of fill(scientific) / fill(fixed) / value_too_large / a failing CNL_ASSERT every buffer size reaches."""
    L = []
    Ss = [1, 2, 3, 5, 10, 19] if tier == "quick" else list(range(1, 21)) + [38, 39]
    Es = [-70, -40, -20, -9, -3, -1, 0, 1, 2, 5, 20] if tier == "quick" else list(range(-80, 41))
    for S in Ss:
        for E in Es:
            X = len(str(E + S - 1))
            info = ("cnl::_impl::descaled_info info; info.num_significand_digits = %d; info.exponent = %d; info.max_chars = m; "
                    "info.exponent_chars = std::string_view(p, %d); info.exponent_has_sign = %s; "
                    "auto const f = cnl::_impl::solve_fixed(info); auto const s = cnl::_impl::solve_scientific(info); ") % (S, E, X, "true" if E + S - 1 < 0 else "false")
            L.append(dict(key="layout/S=%d/E=%d" % (S, E), S=S, E=E, X=X,
                          Vs=info + "return s.num_significand_digits > 0 && s.num_chars <= m && s.num_chars == s.num_significand_digits + 2 + %d;" % X,
                          Vf=info + "return f.num_significand_digits > 0 && f.num_chars <= m && %d + f.trailing_zeros <= m && f.num_significand_digits <= %d;" % (max(0, S + min(0, E)), S),
                          Ps=info + "return std::tuple{s.num_significand_digits, -s.num_chars} > std::tuple{f.num_significand_digits, -f.num_chars};",
                          sel="if (m < 0 || m > %d) __builtin_unreachable(); auto const r = cnl::_impl::to_chars_positive(f, f + m, std::string_view(p, %d), %d); return int(r.ec);" % (_MMAX, S, E),
                          full="if (m < 0 || m > %d) __builtin_unreachable(); auto const r = cnl::_impl::to_chars_positive(f, f + m, std::string_view(\"%s\", %d), %d); return int(r.ec) * 100000 + int(r.ptr - f);" % (_MMAX, ("1234567891" * 5)[:max(S, 1)], S, E)))
    return L


def _static10_stub(name, values):
    """to_chars_static<10,int>(n) is modelled by what it is specified to return, the decimal text of n and its length
    (to_chars_static_result{std::array<char, 12>, int}, returned as {i64, i64}); only the exponents the lines use"""
    out = ["define linkonce_odr dso_local { i64, i64 } @%s(i32* noundef nonnull align 4 dereferenceable(4) %%0) {" % name,
           "  %v = load i32, i32* %0, align 4", "  switch i32 %v, label %dflt ["]
    for k, v in enumerate(values):
        out.append("    i32 %d, label %%c%d" % (v, k))
    out.append("  ]")
    for k, v in enumerate(values):
        t = str(v).encode() + b"\0" * 12
        c0 = int.from_bytes(t[:8], "little")
        c1 = int.from_bytes(t[8:12], "little") | (len(str(v)) << 32)
        out += ["c%d:" % k, "  ret { i64, i64 } { i64 %d, i64 %d }" % (c0, c1)]
    out += ["dflt:", "  unreachable", "}"]
    return out


def selection_trees(work, L, tag, full=False):
    """compile the to_chars_positive kernels, cut fill to noreturn declarations (full=False) or leave the real fill in
    (full=True: the significand characters are then a literal, so that fill's character-driven loop folds), model
    to_chars_static, inline, and return {key: control-only ite tree}"""
    from vlib import gate
    src = os.path.join(work, "sel_%s.cpp" % tag)
    with open(src, "w") as f:
        f.write(tc.PRELUDE["clang"] + "\n")
        for i, ln in enumerate(L):
            f.write('extern "C" int sel%d(char* f, int m, char const* p) { %s }\n' % (i, ln["full" if full else "sel"]))
        f.write('extern "C" int selctl(char* f, int m, char const* p) { if (m < 0 || m > %d) __builtin_unreachable(); if (m == 7) cnl::_impl::unreachable<void>("control"); return 75; }\n' % _MMAX)
    raw = os.path.join(work, "sel_%s.raw.ll" % tag)
    cmd = [tc.CLANGXX, "-std=gnu++20", "-I", os.path.join(tc.REPO, "include"), "-O2", "-Xclang", "-disable-llvm-passes", "-fwrapv", "-S", "-emit-llvm", src, "-o", raw]
    rc, so, se = tc.run(cmd)
    if rc != 0:
        raise tc.AnalysisBroken("selection TU does not compile: " + se[:1500])
    lines = open(raw).read().split("\n")
    names = re.findall(r"^define [^@]*@([\w.$]+)\(", "\n".join(lines), re.M)
    dem = tc.demangle(names)
    want = {_FILL_SCI: None, _FILL_FIX: None, _STATIC10: None}
    for n, d in dem.items():
        if d in want:
            want[d] = n
    missing = [d for d, n in want.items() if n is None]
    if missing:
        raise tc.AnalysisBroken("anchor vanished from the to_chars_positive unit: " + ", ".join(missing))
    vals = sorted({ln["E"] + ln["S"] - 1 for ln in L})
    out, i = [], 0
    while i < len(lines):
        l = lines[i]
        m = re.match(r"^define [^@]*@([\w.$]+)\(", l)
        if m and not full and m.group(1) in (want[_FILL_SCI], want[_FILL_FIX]):
            sig = l[:l.rindex(")") + 1]
            sig = re.sub(r"^define (linkonce_odr )?(dso_local )?", "declare ", sig)
            sig = re.sub(r" %\d+(?=[,)])", "", sig)
            out.append(sig + " noreturn nounwind")
            while lines[i] != "}":
                i += 1
        elif m and m.group(1) == want[_STATIC10]:
            out += _static10_stub(want[_STATIC10], vals)
            while lines[i] != "}":
                i += 1
        else:
            out.append(l)
        i += 1
    ed = os.path.join(work, "sel_%s.ed.ll" % tag)
    open(ed, "w").write("\n".join(out))
    o1, o2 = os.path.join(work, "sel_%s.o1.ll" % tag), os.path.join(work, "sel_%s.o2.ll" % tag)
    for a_, b_ in ((ed, o1), (o1, o2)):
        rc, so, se = tc.run([tc.OPT, "-S", "-O2", "-inline-threshold=1000000", a_, "-o", b_])
        if rc != 0:
            raise tc.AnalysisBroken("opt failed on the selection module: " + se[:800])
    mod = ir.parse_module(open(o2).read())
    trees = {}
    for i, ln in enumerate(L + [dict(key="control/selection")]):
        fn = mod.functions.get("sel%d" % i if i < len(L) else "selctl")
        if fn is None:
            trees[ln["key"]] = gate.Unsupported("kernel vanished")
            continue
        try:
            with gate.LOCK:
                trees[ln["key"]] = gate.gated(mod, fn, control_only=True)
        except (gate.Unsupported, RecursionError) as e:
            trees[ln["key"]] = e
    return trees, want


def run_layout(r, work, tier):
    from vlib import kern, gate, iset
    from vlib.iset import ISet
    L = layout_lines(tier)
    obs = []
    P = [("int", "m"), ("char const*", "p")]
    for ln in L:
        for part in ("Vs", "Vf", "Ps"):
            ob = kern.Ob(ln["key"] + "/" + part, "bool", P, ln[part], [], pre=["m >= 0", "m <= %d" % _MMAX], kind="ir")
            ob.line, ob.part = ln, part
            obs.append(ob)
    ctl = kern.Ob("control/layout", "bool", P, "return m != 7;", [], pre=["m >= 0", "m <= %d" % _MMAX], kind="ir")
    kern.run_obligations(work, obs + [ctl], batch=60, second_chance=False)
    step = min(40, max(8, -(-len(L) // 8)))
    chunks = [L[i:i + step] for i in range(0, len(L), step)]
    trees, ftrees = {}, {}
    jobs = [(i, c, False) for i, c in enumerate(chunks)] + [(i, c, True) for i, c in enumerate(chunks)]
    for (i, c, full), (res, _) in zip(jobs, tc.fmap(lambda a: selection_trees(work, a[1], ("full" if a[2] else "") + str(a[0]), full=a[2]), jobs)):
        (ftrees if full else trees).update(res)
    cnt = {"proved": 0, "refuted": 0, "undecided": 0}
    dom = ISet.from_signed(32, 0, _MMAX)

    def full_judge(tree):
        """the real to_chars_positive with the real solvers AND the real fill: for every buffer size the call either
        succeeds having written 1..m characters, or reports value_too_large with ptr == last; no CNL_ASSERT of fill
        (out == begin + num_chars, out <= end) or of the selection can fail.  Returns [(kind, ISet, text)]"""
        if isinstance(tree, Exception):
            raise tree
        var = ("arg", 1, "i32")
        probs = []
        for D, leaf in iset.leaves(tree, var, dom):
            if leaf[0] == "effect":
                msg = leaf[2][0][2] if leaf[2] else leaf[1]
                probs.append(("fill-assertion-reached", D, "a CNL_ASSERT fails (%s)" % msg[-120:]))
                continue
            aff = iset.affine(leaf, var)
            if aff is None:
                raise iset.Undecided("result not affine in the buffer size: " + gate.show(leaf)[:120])
            k, c = aff
            for a, b in D.signed_intervals():
                for mm in sorted({a, b}):
                    v = k * mm + c
                    ec, wr = divmod(v, 100000)
                    if ec == 0 and not (1 <= wr <= mm):
                        probs.append(("written-outside-buffer", ISet.from_signed(32, a, b), "success is reported with %d characters written into a buffer of %d" % (wr, mm)))
                        break
                    if ec == 75 and wr != mm:
                        probs.append(("failure-not-at-last", ISet.from_signed(32, a, b), "value_too_large is reported with ptr - first == %d for a buffer of %d" % (wr, mm)))
                        break
                    if ec not in (0, 75):
                        probs.append(("unknown-result", ISet.from_signed(32, a, b), "result code %d" % ec))
                        break
        return probs

    def truthset(ob):
        """the set of buffer sizes on which a boolean kernel is true"""
        var = ("arg", 0, "i32")
        g = gate.gated(ob.mod, ob.fn)
        T = ISet.empty(32)
        for D, leaf in iset.leaves(g, var, dom):
            if gate.is_c(leaf):
                if leaf[2] == 1:
                    T = T | D
                continue
            iset._HINT[0] = D
            t = iset.truth(leaf, var)
            if t is None:
                raise iset.Undecided("leaf " + gate.show(leaf)[:120])
            T = T | (D & t)
        return T

    def exits(tree):
        """partition of the buffer sizes by the exit the real to_chars_positive takes"""
        if isinstance(tree, Exception):
            raise tree
        var = ("arg", 1, "i32")
        E = {"sci": ISet.empty(32), "fix": ISet.empty(32), "fail": ISet.empty(32), "assert": ISet.empty(32)}
        msgs = {}
        for D, leaf in iset.leaves(tree, var, dom):
            if leaf[0] == "effect":
                d = tc.demangle([leaf[1]])[leaf[1]]
                if d == _FILL_SCI:
                    E["sci"] = E["sci"] | D
                elif d == _FILL_FIX:
                    E["fix"] = E["fix"] | D
                else:
                    E["assert"] = E["assert"] | D
                    msgs[D.describe(True)] = leaf[2][0][2] if leaf[2] else d
            elif gate.is_c(leaf) and leaf[2] == 0:
                raise iset.Undecided("to_chars_positive returns success without calling fill")
            elif gate.is_c(leaf):
                E["fail"] = E["fail"] | D
            else:
                raise iset.Undecided("exit not classified: " + gate.show(leaf)[:120])
        return E, msgs
    try:
        if truthset(ctl).describe(True) != (dom - ISet.from_signed(32, 7, 7)).describe(True):
            r.broke("layout control: `m != 7` is not decided true exactly off {7}")
        E, msgs = exits(trees.get("control/selection", gate.Unsupported("missing")))
        if E["assert"].describe(True) != "{7}" or "control" not in " ".join(msgs.values()):
            r.broke("selection control: the seeded assertion at m == 7 was not found exactly on {7}")
    except Exception as e:
        r.broke("layout/selection control failed: %r" % (e,))
    byline = {}
    for ob in obs:
        byline.setdefault(ob.line["key"], {})[ob.part] = ob
    for ln in L:
        key = ln["key"]
        try:
            sets = {}
            for part, ob in byline[key].items():
                if ob.status != "compiled":
                    raise tc.AnalysisBroken("%s: %s" % (ob.key, ob.detail))
                sets[part] = truthset(ob)
            E, msgs = exits(trees.get(key, gate.Unsupported("missing")))
        except tc.AnalysisBroken as e:
            r.broke(str(e))
            continue
        except (gate.Unsupported, iset.Undecided, RecursionError) as e:
            cnt["undecided"] += 1
            ln["undecided"] = repr(e)[:200]
            continue
        Vs, Vf, Ps = sets["Vs"], sets["Vf"], sets["Ps"]
        probs = []
        try:
            probs += full_judge(ftrees.get(key, gate.Unsupported("missing")))
            ln["full"] = "decided"
        except (gate.Unsupported, iset.Undecided, RecursionError) as e:
            ln["full"] = "undecided: " + repr(e)[:160]
            cnt.setdefault("full_undecided", 0)
            cnt["full_undecided"] += 1
        if E["assert"]:
            probs.append(("assertion-reached", E["assert"], "a CNL_ASSERT of to_chars_positive fails (%s)" % "; ".join(sorted(set(msgs.values())))[:300]))
        if E["sci"] - Vs:
            probs.append(("scientific-chosen-without-room", E["sci"] - Vs, "fill(scientific) is reached with a layout it cannot carry out inside the buffer"))
        if E["fix"] - Vf:
            probs.append(("fixed-chosen-without-room", E["fix"] - Vf, "fill(fixed) is reached with a layout whose integer digits, trailing zeros or characters exceed the buffer"))
        if E["fail"] & (Vs | Vf):
            probs.append(("too-large-although-a-layout-fits", E["fail"] & (Vs | Vf), "value_too_large is reported although a layout with at least one significant digit fits"))
        both = Vs & Vf
        if (E["sci"] & both) - Ps or (E["fix"] & both & Ps):
            probs.append(("preference", ((E["sci"] & both) - Ps) | (E["fix"] & both & Ps), "both layouts fit and the one with fewer significant digits (or as many and more characters) is chosen"))
        if probs:
            cnt["refuted"] += 1
            for kind, D, text in probs:
                if kind == "assertion-reached" and "num_significand_digits > 0" in text:
                    kind = "scientific-chosen-without-room"
                r.violation(key + "/" + kind, "to_chars_positive with a %d-digit significand and decimal exponent %d, buffer sizes %s: %s" % (ln["S"], ln["E"], D.describe(True), text),
                            {"key": key, "kind": kind, "buffer_sizes": D.describe(True), "exits": {k: v.describe(True) for k, v in E.items()},
                             "Vs": Vs.describe(True), "Vf": Vf.describe(True), "Ps": Ps.describe(True), "kernel": ln["sel"]}, finding_key="layout/%s" % kind)
        else:
            cnt["proved"] += 1
    return L, cnt


FLOOR = {"quick": dict(facts=100, stores=20, results=12, layout=60), "thorough": dict(facts=500, stores=20, results=12, layout=2000)}


def run(tier, seed, work):
    r = report.Run(PROP, tier, seed, "other")
    F = gen_facts(tier)
    fctl = common.fact_controls()
    factmod.run_facts(work, F + fctl, batch=200)
    common.check_fact_controls(r, fctl)
    nf = common.settle_facts(r, F)
    src = os.path.join(work, "tc.cpp")
    open(src, "w").write(IR_SRC)
    out = os.path.join(work, "tc.ll")
    rc, so, se, cmd = tc.clang_ll(src, out, "o1ni")
    if rc != 0:
        raise tc.AnalysisBroken("to_chars TU does not compile: " + se[:2000])
    mod = ir.parse_module(open(out).read())
    dem = tc.demangle(list(mod.functions))
    n_st, n_res, samples = 0, 0, []
    fam = {}
    for n, fn in mod.functions.items():
        dn = dem[n]
        if re.match(r"^(char\* )?cnl::_impl::to_chars_natural<", dn):
            fam[n] = "natural"
        elif dn.startswith("auto cnl::_impl::to_chars_non_zero<") and "cnl::_impl::descaled<" not in dn.split(">(char*, char*,", 1)[-1]:
            fam[n] = "non_zero"
        elif dn.startswith("auto cnl::_impl::to_chars_positive<"):
            fam[n] = "positive"
        elif dn.startswith("auto cnl::to_chars<"):
            fam[n] = "to_chars"
        elif dn.startswith("auto cnl::_impl::to_chars_non_zero<"):
            fam[n] = "scaled_non_zero"
        elif re.match(r"^cnl::_impl::to_chars_positive\(char\*, char\*, std::basic_string_view", dn):
            fam[n] = "scaled_positive"
    for n, kind in sorted(fam.items()):
        fn = mod.functions[n]
        first, last = fn.params[0][1], fn.params[1][1]
        if kind in ("natural", "non_zero", "to_chars"):
            ns, probs = store_rule(fn, first, last)
            n_st += ns
            for p in probs:
                r.violation("store/" + dem[n][:120], "%s: %s" % (dem[n][:150], p), {"function": dem[n], "problem": p, "ir": fn.text()})
        if kind == "scaled_non_zero":
            # `*first = '-'` has no local guard: every caller must have compared first with last on the path to the call
            ns, probs = store_rule(fn, first, last)
            n_st += ns
            if probs:
                callers = [(m2, f2) for m2, f2 in mod.functions.items() if any(("@" + n + "(") in l for lab in f2.order for l in f2.blocks[lab])]
                for m2, f2 in callers:
                    cfg2 = Cfg(f2)
                    okc = False
                    for lab in f2.order:
                        for l in f2.blocks[lab]:
                            if ("@" + n + "(") in l:
                                cf, cl = f2.params[0][1], f2.params[1][1]
                                for d in cfg2.dom[lab]:
                                    t = f2.blocks[d][-1] if f2.blocks[d] else ""
                                    mb = re.match(r"^br i1 (%\S+), label %(\S+), label %(\S+)$", t)
                                    if mb and (mb.group(3) in cfg2.dom[lab] or mb.group(3) == lab) and guard_implies_ne_last(cfg2, mb.group(1), cf, cf, cl):
                                        okc = True
                    if not okc:
                        r.violation("store/caller/" + dem[m2][:100], "%s writes '-' through `first` without a guard and its caller %s does not compare first with last before the call" % (dem[n][:100], dem[m2][:100]), {"function": dem[n], "caller": dem[m2]})
                if not callers:
                    r.broke("no caller found for %s" % dem[n][:100])
        if kind in ("non_zero", "positive", "to_chars", "scaled_positive"):
            inst, probs, unrec = result_rule(fn, last)
            n_res += inst
            for p in probs:
                r.violation("result/" + dem[n][:120], "%s: %s" % (dem[n][:150], p), {"function": dem[n], "problem": p, "ir": fn.text()}, finding_key="result/" + kind)
            for u in unrec:
                r.broke("result rule: unrecognised aggregate construction in %s: %s" % (dem[n][:100], u))
            if inst:
                samples.append({"function": dem[n][:140], "value_too_large_returns": inst})
    # who-may-call
    allowed = {"natural": ("natural", "positive"), "positive": ("non_zero",), "non_zero": ("to_chars",), "scaled_positive": ("scaled_non_zero",), "scaled_non_zero": ("to_chars",)}
    internals = dict((n, k) for n, k in fam.items())
    for n2, f2 in mod.functions.items():
        for lab in f2.order:
            for l in f2.blocks[lab]:
                for m in re.finditer(r"(?:call|invoke)\s[^@]*@([\w.$]+)\(", l):
                    callee = m.group(1)
                    if callee in internals and internals[callee] in allowed:
                        ck = fam.get(n2)
                        if ck not in allowed[internals[callee]]:
                            r.violation("who-may-call/" + dem[n2][:100], "%s calls the digit-writing internal %s directly (only %s may)" % (dem[n2][:120], dem[callee][:120], allowed[internals[callee]]), {"caller": dem[n2], "callee": dem[callee]})
                fill = re.search(r"@(_ZN3cnl5_impl4fill\w+)\(", l)
                if fill and fam.get(n2) != "scaled_positive":
                    r.violation("who-may-call/fill/" + dem[n2][:100], "%s calls cnl::_impl::fill directly" % dem[n2][:120], {"caller": dem[n2]})
    # E. bound passing: a function of the family that calls another one hands on ITS OWN `last` as the callee's `last`.  The
    # store rule is per function (every store is guarded by a comparison with the function's `last` parameter), so it says
    # something about the caller's buffer only if that parameter is the caller's bound all the way down (M-C13-8: a
    # "buffer is large enough" fast path called to_chars_natural with last = nullptr)
    n_pass = 0
    for n2, f2 in mod.functions.items():
        if n2 not in fam or len(f2.params) < 2:
            continue
        own_last = f2.params[1][1]
        for lab in f2.order:
            for l in f2.blocks[lab]:
                for m in re.finditer(r"(?:call|invoke)\s[^@]*@([\w.$]+)\(", l):
                    callee = m.group(1)
                    if callee not in fam:
                        continue
                    args, depth, cur = [], 0, ""
                    for ch in l[m.end():]:
                        if ch in "([{<":
                            depth += 1
                        elif ch in ")]}>":
                            if depth == 0:
                                break
                            depth -= 1
                        if ch == "," and depth == 0:
                            args.append(cur.strip())
                            cur = ""
                        else:
                            cur += ch
                    args.append(cur.strip())
                    if len(args) < 2:
                        r.broke("bound-passing rule: cannot read the arguments of the call to %s in %s" % (dem[callee][:80], dem[n2][:80]))
                        continue
                    n_pass += 1
                    got = args[1].split()[-1]
                    if got != own_last:
                        r.violation("bound/" + dem[n2][:100], "%s calls %s with `%s` as the end of the buffer, not with its own `last` (%s): the callee's bounds checks no longer refer to the caller's buffer"
                                    % (dem[n2][:140], dem[callee][:100], got, own_last), {"caller": dem[n2], "callee": dem[callee], "call": l.strip()[:300]}, finding_key="bound-passing")
    common.floor_check(r, "family-internal calls under the bound-passing rule", n_pass, 50)
    # fixed-capacity users reach to_chars
    users = {"use_static": "to_chars_static", "use_string": "to_string", "use_stream": "operator<<"}
    edges = dict((n, set(m.group(1) for lab in f.order for l in f.blocks[lab] for m in re.finditer(r"(?:call|invoke)\s[^@]*@([\w.$]+)\(", l))) for n, f in mod.functions.items())

    def reach(s):
        seen, st = set(), [s]
        while st:
            x = st.pop()
            for y in edges.get(x, ()):
                if y not in seen:
                    seen.add(y)
                    st.append(y)
        return seen
    nu = 0
    for u, what in users.items():
        if not any(fam.get(x) == "to_chars" for x in reach(u)):
            r.broke("%s: no path to cnl::to_chars found" % what)
        else:
            nu += 1
    LL, lcnt = run_layout(r, work, tier)
    common.floor_check(r, "layout lines decided", lcnt["proved"] + lcnt["refuted"], FLOOR[tier]["layout"])
    n_full = sum(1 for ln in LL if ln.get("full") == "decided")
    common.floor_check(r, "layout lines decided with the real fill inlined", n_full, FLOOR[tier]["layout"])
    common.floor_check(r, "capacity facts judged", nf["proved"] + nf["refuted"], FLOOR[tier]["facts"])
    common.floor_check(r, "buffer stores checked", n_st, FLOOR[tier]["stores"])
    common.floor_check(r, "value_too_large returns checked", n_res, FLOOR[tier]["results"])
    r.coverage = {
        "explanation": "capacity type facts vs an exact decimal-length oracle; dominance rule for every byte store of the integer path and the scaled overload's sign; ptr == last on every value_too_large return; who-may-call for the digit-writing internals; fixed-capacity users reach the buffer through cnl::to_chars. E: the layout contract, decided for every buffer size along lines with significand length and exponent pinned: (1) the real selection against the real solvers and fill's stated consumption; (2) the whole real to_chars_positive with the real solvers and the real fill inlined (significand characters pinned to a literal so that fill's character-driven loop folds): no CNL_ASSERT of fill or of the selection can fail, success writes 1..m characters, failure returns ptr == last. Only to_chars_static<10,int> (the exponent's text) is modelled by its specification.",
        "evaluations": len(F) + n_st + n_res + len(fam), "distinct_nontrivial": nf["proved"] + n_st + n_res,
        "rule": "non-trivial = judged capacity fact, checked store, checked failure return",
        "capacity_facts": len(F), "capacity_facts_proved": nf["proved"], "capacity_rejected_by_library": nf["rejected"],
        "layout_lines": len(LL), "layout_proved": lcnt["proved"], "layout_refuted": lcnt["refuted"], "layout_undecided": lcnt["undecided"], "layout_lines_with_real_fill": n_full,
        "functions_in_family": len(fam), "buffer_stores_checked": n_st, "bound_passing_calls_checked": n_pass, "value_too_large_returns_checked": n_res, "fixed_capacity_users_reaching_to_chars": nu,
        "samples": samples[:6] + [{"function": dem[n][:140], "kind": k} for n, k in sorted(fam.items())[:6]],
        "exhaustive": False,
    }
    return r.finish()


def replay(path, work):
    import json
    print(json.dumps(json.load(open(path)), indent=1)[:4000])
    return 1
