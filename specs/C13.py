"""C13 — to_chars never writes outside the caller's buffer and reports failure cleanly.

A. T + oracle: to_chars_capacity<T>{}() >= the exact maximum length of the decimal expansion (sign, integer digits,
   point, fractional digits) for integers of 8..128 bits and scaled_integer over exponents in [-70,70]; the static
   result holds capacity + 1 characters.
B. CFG dominance rule on the integer path and the entry of the scaled path (-O1 -fno-inline IR, every CNL function still
   a function): every `store i8` through a pointer into the caller's buffer is dominated by the failing edge of a
   comparison of that same pointer with `last` (or of distance(first,last) with 2 / first with last when the pointer is
   `first`); for the scaled overload's '-' the guard is required in the (unique) caller.
C. Result rule: whenever a function of the family returns errc::value_too_large the returned pointer is `last`.
D. Who-may-call: the digit-writing internals are only called from the to_chars family; to_chars_static, to_string and
   operator<< reach the buffer only through cnl::to_chars.
Not decided: the layout arithmetic of solve_fixed / solve_scientific / fill (relational facts over run-time integers).
"""
import random, re, os
from vlib import tc, ir, facts as factmod, report
from vlib.cty import *
from . import common
from .C01 import sname

PROP = "C13"
EOVERFLOW = "75"


def gen_facts(tier):
    F = []
    for T in ALL128:
        need = max(len(str(T.min)), len(str(T.max)))
        F.append(factmod.Fact("capacity/int/%s" % T.short, "cnl::_impl::to_chars_capacity<%s>{}()" % T.name, None,
                              judge=lambda v, need=need, T=T: None if v >= need else "capacity %d < %d characters needed for %d" % (v, need, T.min if T.signed else T.max)))
        F.append(factmod.Fact("static-result/int/%s" % T.short, "sizeof(decltype(cnl::to_chars_static(std::declval<%s>()).chars)) == cnl::_impl::to_chars_capacity<%s>{}() + 1" % (T.name, T.name), 1))
    # scaled_integer: whether to_chars succeeds within the static capacity depends on the layout arithmetic (fixed vs
    # scientific, truncation), which is not decided here.  What is decided is the arithmetic of the capacity formula
    # itself for integral scaled types (exponent >= 0, where no truncation of the integer part is possible in fixed
    # notation) and that the static result always has room for capacity + 1 characters.
    exps = [0, 1, 3, 8, 15] if tier == "quick" else list(range(0, 40))
    for R in ([I8, U8, I16, I32, U32, I64, U64] if tier == "quick" else ALL64):
        for radix in (2, 10):
            for e in exps:
                if radix == 10 and e > 18:
                    continue
                T = sname(R.name, e, radix)
                mag = max(abs(R.min), R.max)
                need = (1 if R.signed else 0) + len(str(mag * radix ** e))
                F.append(factmod.Fact("capacity/scaled/%s/r%d/e%d" % (R.short, radix, e), "cnl::_impl::to_chars_capacity<%s>{}()" % T, None, may_reject=True,
                                      judge=lambda v, need=need, mag=mag, radix=radix, e=e: None if v >= need else "capacity %d < %d characters of the integer %d x %d^%d" % (v, need, mag, radix, e),
                                      meta=dict(anchor="include/cnl/_impl/scaled_integer/to_chars_capacity.h")))
        for e in ([-8, -1, 0, 5] if tier == "quick" else [-40, -8, -1, 0, 5, 20]):
            T = sname(R.name, e)
            F.append(factmod.Fact("static-result/scaled/%s/e%d" % (R.short, e), "sizeof(decltype(cnl::to_chars_static(std::declval<%s>()).chars)) == cnl::_impl::to_chars_capacity<%s>{}() + 1" % (T, T), 1))
    return F


IR_SRC = tc.PRELUDE["clang"] + "using namespace cnl;\n" + "".join(
    'extern "C" std::to_chars_result tc_%s(char* f, char* l, %s v) { return cnl::to_chars(f, l, v); }\n' % (T.short, T.name) for T in ALL128) + """
extern "C" std::to_chars_result tc_s1(char* f, char* l, scaled_integer<int, power<-8>> v) { return cnl::to_chars(f, l, v); }
extern "C" std::to_chars_result tc_s2(char* f, char* l, scaled_integer<std::uint64_t, power<-30>> v) { return cnl::to_chars(f, l, v); }
extern "C" std::to_chars_result tc_s3(char* f, char* l, scaled_integer<std::int16_t, power<5, 10>> v) { return cnl::to_chars(f, l, v); }
extern "C" std::to_chars_result tc_e(char* f, char* l, elastic_integer<20> v) { return cnl::to_chars(f, l, v); }
extern "C" void use_static(int v, long w, scaled_integer<int, power<-8>> s, char* out) { auto a = cnl::to_chars_static(v); auto b = cnl::to_chars_static(w); auto c = cnl::to_chars_static(s); out[0] = a.chars[0] ^ b.chars[0] ^ c.chars[0]; }
extern "C" void use_string(scaled_integer<int, power<-8>> s, scaled_integer<std::int64_t, power<-20>> t, std::string* out) { *out = cnl::to_string(s) + cnl::to_string(t); }
extern "C" void use_stream(std::ostream* o, scaled_integer<int, power<-8>> s, cnl::int128_t i, cnl::uint128_t u, overflow_integer<int, saturated_overflow_tag> w) { *o << s << i << u << w; }
"""


class Cfg:
    def __init__(self, fn):
        self.fn = fn
        self.succ, self.pred = {}, {}
        for lab in fn.order:
            ins = fn.blocks[lab]
            t = ins[-1] if ins else ""
            body = t.split("=", 1)[1].strip() if re.match(r"^%\S+\s*=", t) else t
            self.succ[lab] = [x[1:] for x in ir._successors(body)]
        for a, ss in self.succ.items():
            for b in ss:
                self.pred.setdefault(b, []).append(a)
        # dominators (iterative)
        order = fn.order
        self.dom = {b: set(order) for b in order}
        self.dom[order[0]] = {order[0]}
        changed = True
        while changed:
            changed = False
            for b in order[1:]:
                ps = [self.dom[p] for p in self.pred.get(b, []) if p in self.dom]
                new = ({b} | set.intersection(*ps)) if ps else {b}
                if new != self.dom[b]:
                    self.dom[b], changed = new, True
        self.defs = {}
        for lab in order:
            for l in fn.blocks[lab]:
                m = re.match(r"^(%\S+)\s*=\s*(.*)$", l)
                if m:
                    self.defs[m.group(1)] = (lab, m.group(2))


def guard_implies_ne_last(cfg, cond, P, first, last, depth=0):
    """does `cond == false` imply P != last (or that P == first has room)?"""
    if cond not in cfg.defs or depth > 4:
        return False
    body = cfg.defs[cond][1]
    m = re.match(r"^icmp eq i8\* (%\S+), (%\S+|null)$", body)
    if m:
        a, b = m.group(1), m.group(2)
        return {a, b} == {P, last} or ({a, b} == {first, last} and P == first)
    m = re.match(r"^or i1 (%\S+), (%\S+)$", body) or re.match(r"^select i1 (%\S+), i1 true, i1 (%\S+)$", body)
    if m:
        return guard_implies_ne_last(cfg, m.group(1), P, first, last, depth + 1) or guard_implies_ne_last(cfg, m.group(2), P, first, last, depth + 1)
    m = re.match(r"^icmp slt i64 (%\S+), 2$", body)
    if m and P == first and m.group(1) in cfg.defs:
        d = cfg.defs[m.group(1)][1]
        if re.search(r"call .*@_ZSt8distanceIPcE[^(]*\(i8\* (?:noundef )?%s, i8\* (?:noundef )?%s\)" % (re.escape(first), re.escape(last)), d) or re.match(r"^sub i64 ", d):
            return True
    return False


def store_rule(fn, first, last):
    """returns (n_stores, problems)"""
    cfg = Cfg(fn)
    n, probs = 0, []
    for lab in fn.order:
        for l in fn.blocks[lab]:
            m = re.match(r"^store i8 [^,]+, i8\* (%[^\s,]+)", l)
            if not m:
                continue
            P = m.group(1)
            if P in cfg.defs and re.match(r"^(alloca|getelementptr inbounds \[)", cfg.defs[P][1]):
                continue   # a local array
            n += 1
            ok = False
            for d in cfg.dom[lab]:
                t = fn.blocks[d][-1] if fn.blocks[d] else ""
                mb = re.match(r"^br i1 (%\S+), label %(\S+), label %(\S+)$", t)
                if not mb:
                    continue
                cond, tl, fl = mb.groups()
                if tl == fl or fl not in cfg.dom[lab] and fl != lab:
                    continue
                if len(cfg.pred.get(fl, [])) != 1:
                    continue
                if guard_implies_ne_last(cfg, cond, P, first, last):
                    ok = True
                    break
            if not ok:
                probs.append("store through %s in block %s is not dominated by a failed comparison of that pointer with `last`: %s" % (P, lab, l))
    return n, probs


def result_rule(fn, last):
    """every path on which ec == value_too_large returns ptr == last.  Recognises insertvalue chains with constant /
    select / phi components.  Returns (instances, problems, unrecognised)"""
    cfg = Cfg(fn)
    inst, probs, unrec = 0, [], []

    def agg(v, lab):
        # returns (ptr_operand, ec_operand) for aggregate value v
        if v not in cfg.defs:
            m = re.match(r"^\{ i8\* (\S+), i32 (\S+) \}$", v)
            return (m.group(1), m.group(2)) if m else None
        body = cfg.defs[v][1]
        m = re.match(r"^insertvalue \{ i8\*, i32 \} (.+), i32 (\S+), 1$", body)
        if m:
            inner = m.group(1).strip()
            a = agg(inner, lab) if inner.startswith("%") else None
            if a:
                return (a[0], m.group(2))
            m2 = re.match(r"^\{ i8\* (\S+), i32 \S+ \}$", inner)
            return (m2.group(1), m.group(2)) if m2 else None
        m = re.match(r"^insertvalue \{ i8\*, i32 \} (.+), i8\* (\S+), 0$", body)
        if m:
            inner = m.group(1).strip()
            a = agg(inner, lab) if inner.startswith("%") else None
            return (m.group(2), a[1] if a else "undef")
        if body.startswith("call ") or body.startswith("phi ") or body.startswith("select "):
            return ("@" + body.split(" ", 1)[0], None)
        return None

    def cases(v):
        """expand a scalar into [(guard, value)] through select / phi (one level)"""
        if v not in cfg.defs:
            return [((), v)]
        body = cfg.defs[v][1]
        m = re.match(r"^select i1 (%\S+), \S+ (\S+), \S+ (\S+)$", body)
        if m:
            return [((("sel", m.group(1), True),), m.group(2)), ((("sel", m.group(1), False),), m.group(3))]
        m = re.match(r"^phi \S+ (.*)$", body)
        if m:
            return [((("phi", cfg.defs[v][0], b),), x.strip()) for x, b in re.findall(r"\[\s*([^,\]]+),\s*%([^\s\]]+)\s*\]", m.group(1))]
        return [((), v)]

    for lab in fn.order:
        t = fn.blocks[lab][-1] if fn.blocks[lab] else ""
        m = re.match(r"^ret \{ i8\*, i32 \} (.+)$", t)
        if not m:
            continue
        v = m.group(1).strip()
        vs = [v]
        if v in cfg.defs and cfg.defs[v][1].startswith("phi "):
            vs = [x.strip() for x, b in re.findall(r"\[\s*([^\]]+?),\s*%([^\s\]]+)\s*\]", cfg.defs[v][1])]
        for one in vs:
            a = agg(one, lab)
            if a is None:
                unrec.append(one)
                continue
            if a[1] is None:
                continue      # the result of a callee of the same family (checked there) or a merge of such
            ptr, ec = a
            for g_ec, ecv in cases(ec):
                if ecv != EOVERFLOW:
                    continue
                inst += 1
                ok = False
                for g_p, pv in cases(ptr):
                    if g_p == g_ec or not g_p:
                        if g_p == g_ec and pv == last:
                            ok = True
                        if not g_p and pv == last:
                            ok = True
                    elif g_ec and g_p and g_ec[0][0] == g_p[0][0] == "phi" and g_ec[0][2] == g_p[0][2] and pv == last:
                        ok = True
                if not ok:
                    probs.append("returns errc::value_too_large with ptr = %s (not `last`)" % (cfg.defs.get(ptr, ("", ptr))[1] if ptr in cfg.defs else ptr))
    return inst, probs, unrec


FLOOR = {"quick": dict(facts=100, stores=20, results=12), "thorough": dict(facts=500, stores=20, results=12)}


def run(tier, seed, work):
    r = report.Run(PROP, tier, seed, "other")
    F = gen_facts(tier)
    fctl = common.fact_controls()
    factmod.run_facts(work, F + fctl, batch=200)
    common.check_fact_controls(r, fctl)
    nf = common.settle_facts(r, F)
    src = os.path.join(work, "tc.cpp")
    open(src, "w").write(IR_SRC)
    out = os.path.join(work, "tc.ll")
    rc, so, se, cmd = tc.clang_ll(src, out, "o1ni")
    if rc != 0:
        raise tc.AnalysisBroken("to_chars TU does not compile: " + se[:2000])
    mod = ir.parse_module(open(out).read())
    dem = tc.demangle(list(mod.functions))
    n_st, n_res, samples = 0, 0, []
    fam = {}
    for n, fn in mod.functions.items():
        dn = dem[n]
        if re.match(r"^(char\* )?cnl::_impl::to_chars_natural<", dn):
            fam[n] = "natural"
        elif dn.startswith("auto cnl::_impl::to_chars_non_zero<") and "cnl::_impl::descaled<" not in dn.split(">(char*, char*,", 1)[-1]:
            fam[n] = "non_zero"
        elif dn.startswith("auto cnl::_impl::to_chars_positive<"):
            fam[n] = "positive"
        elif dn.startswith("auto cnl::to_chars<"):
            fam[n] = "to_chars"
        elif dn.startswith("auto cnl::_impl::to_chars_non_zero<"):
            fam[n] = "scaled_non_zero"
        elif re.match(r"^cnl::_impl::to_chars_positive\(char\*, char\*, std::basic_string_view", dn):
            fam[n] = "scaled_positive"
    for n, kind in sorted(fam.items()):
        fn = mod.functions[n]
        first, last = fn.params[0][1], fn.params[1][1]
        if kind in ("natural", "non_zero", "to_chars"):
            ns, probs = store_rule(fn, first, last)
            n_st += ns
            for p in probs:
                r.violation("store/" + dem[n][:120], "%s: %s" % (dem[n][:150], p), {"function": dem[n], "problem": p, "ir": fn.text()})
        if kind == "scaled_non_zero":
            # `*first = '-'` has no local guard: every caller must have compared first with last on the path to the call
            ns, probs = store_rule(fn, first, last)
            n_st += ns
            if probs:
                callers = [(m2, f2) for m2, f2 in mod.functions.items() if any(("@" + n + "(") in l for lab in f2.order for l in f2.blocks[lab])]
                for m2, f2 in callers:
                    cfg2 = Cfg(f2)
                    okc = False
                    for lab in f2.order:
                        for l in f2.blocks[lab]:
                            if ("@" + n + "(") in l:
                                cf, cl = f2.params[0][1], f2.params[1][1]
                                for d in cfg2.dom[lab]:
                                    t = f2.blocks[d][-1] if f2.blocks[d] else ""
                                    mb = re.match(r"^br i1 (%\S+), label %(\S+), label %(\S+)$", t)
                                    if mb and (mb.group(3) in cfg2.dom[lab] or mb.group(3) == lab) and guard_implies_ne_last(cfg2, mb.group(1), cf, cf, cl):
                                        okc = True
                    if not okc:
                        r.violation("store/caller/" + dem[m2][:100], "%s writes '-' through `first` without a guard and its caller %s does not compare first with last before the call" % (dem[n][:100], dem[m2][:100]), {"function": dem[n], "caller": dem[m2]})
                if not callers:
                    r.broke("no caller found for %s" % dem[n][:100])
        if kind in ("non_zero", "positive", "to_chars", "scaled_positive"):
            inst, probs, unrec = result_rule(fn, last)
            n_res += inst
            for p in probs:
                r.violation("result/" + dem[n][:120], "%s: %s" % (dem[n][:150], p), {"function": dem[n], "problem": p, "ir": fn.text()}, finding_key="result/" + kind)
            for u in unrec:
                r.broke("result rule: unrecognised aggregate construction in %s: %s" % (dem[n][:100], u))
            if inst:
                samples.append({"function": dem[n][:140], "value_too_large_returns": inst})
    # who-may-call
    allowed = {"natural": ("natural", "positive"), "positive": ("non_zero",), "non_zero": ("to_chars",), "scaled_positive": ("scaled_non_zero",), "scaled_non_zero": ("to_chars",)}
    internals = dict((n, k) for n, k in fam.items())
    for n2, f2 in mod.functions.items():
        for lab in f2.order:
            for l in f2.blocks[lab]:
                for m in re.finditer(r"(?:call|invoke)\s[^@]*@([\w.$]+)\(", l):
                    callee = m.group(1)
                    if callee in internals and internals[callee] in allowed:
                        ck = fam.get(n2)
                        if ck not in allowed[internals[callee]]:
                            r.violation("who-may-call/" + dem[n2][:100], "%s calls the digit-writing internal %s directly (only %s may)" % (dem[n2][:120], dem[callee][:120], allowed[internals[callee]]), {"caller": dem[n2], "callee": dem[callee]})
                fill = re.search(r"@(_ZN3cnl5_impl4fill\w+)\(", l)
                if fill and fam.get(n2) != "scaled_positive":
                    r.violation("who-may-call/fill/" + dem[n2][:100], "%s calls cnl::_impl::fill directly" % dem[n2][:120], {"caller": dem[n2]})
    # fixed-capacity users reach to_chars
    users = {"use_static": "to_chars_static", "use_string": "to_string", "use_stream": "operator<<"}
    edges = dict((n, set(m.group(1) for lab in f.order for l in f.blocks[lab] for m in re.finditer(r"(?:call|invoke)\s[^@]*@([\w.$]+)\(", l))) for n, f in mod.functions.items())

    def reach(s):
        seen, st = set(), [s]
        while st:
            x = st.pop()
            for y in edges.get(x, ()):
                if y not in seen:
                    seen.add(y)
                    st.append(y)
        return seen
    nu = 0
    for u, what in users.items():
        if not any(fam.get(x) == "to_chars" for x in reach(u)):
            r.broke("%s: no path to cnl::to_chars found" % what)
        else:
            nu += 1
    common.floor_check(r, "capacity facts judged", nf["proved"] + nf["refuted"], FLOOR[tier]["facts"])
    common.floor_check(r, "buffer stores checked", n_st, FLOOR[tier]["stores"])
    common.floor_check(r, "value_too_large returns checked", n_res, FLOOR[tier]["results"])
    r.coverage = {
        "explanation": "capacity type facts vs an exact decimal-length oracle; dominance rule for every byte store of the integer path and the scaled overload's sign; ptr == last on every value_too_large return; who-may-call for the digit-writing internals; fixed-capacity users reach the buffer through cnl::to_chars. The layout arithmetic of solve_fixed/solve_scientific/fill is not decided.",
        "evaluations": len(F) + n_st + n_res + len(fam), "distinct_nontrivial": nf["proved"] + n_st + n_res,
        "rule": "non-trivial = judged capacity fact, checked store, checked failure return",
        "capacity_facts": len(F), "capacity_facts_proved": nf["proved"], "capacity_rejected_by_library": nf["rejected"],
        "functions_in_family": len(fam), "buffer_stores_checked": n_st, "value_too_large_returns_checked": n_res, "fixed_capacity_users_reaching_to_chars": nu,
        "samples": samples[:6] + [{"function": dem[n][:140], "kind": k} for n, k in sorted(fam.items())[:6]],
        "exhaustive": False,
    }
    return r.finish()


def replay(path, work):
    import json
    print(json.dumps(json.load(open(path)), indent=1)[:4000])
    return 1
