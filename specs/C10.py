"""C10 — wide_integer behaves as an N-bit two's-complement integer for any N (widths beyond the widest built-in).

Decided: only what is visible in TYPES (engine T, clang values + g++ static_assert), for a grid of digit counts and
narrowest types:
 S  storage: beyond the widest built-in the rep is a multi-limb uintwide_t whose limb is the unsigned narrowest type, whose
    signedness is the narrowest type's, and whose width is the smallest multiple of the limb width that holds the
    digits plus the sign bit (a narrower store cannot hold the N-bit range; a differently-signed one changes comparisons,
    division and right shifts);
 L  numeric_limits / digits_v / signedness_v of wide_integer<D, N>: digits == D, is_signed as the narrowest type;
 R  operator results: +, -, *, /, %, &, |, ^ of wide_integer<A, N1> and wide_integer<B, N2> have max(A, B) digits and are
    signed when either operand is; shifts and unary operators keep the left operand's digits and signedness;
    comparisons return bool.
Necessary conditions of the property; the limb arithmetic itself (carry propagation, Knuth division, shifts across
limbs, sign handling of / and %) has data-dependent loops and is NOT decided — e.g. the seeded change M-C02-3 (remainder
takes the divisor's sign in uintwide_t) is invisible here.
"""
import random
from vlib import tc, facts as factmod, report
from . import common

PROP = "C10"

DECLS = """namespace vw {
template<class T> struct uw { static constexpr long long multi = 0, width = 0, limb = 0, sgn = 0; };
template<std::uint32_t W, class L, class A, bool S> struct uw<cnl::_impl::math::wide_integer::uintwide_t<W, L, A, S>> {
  static constexpr long long multi = 1, width = W, limb = sizeof(L) * 8, sgn = S; static constexpr bool limb_unsigned = std::is_unsigned_v<L>; };
template<class T> using rep = cnl::_impl::rep_of_t<T>;
}"""

NARROWEST = [("std::int8_t", 8, True), ("std::uint8_t", 8, False), ("std::int16_t", 16, True), ("std::uint16_t", 16, False), ("int", 32, True), ("unsigned", 32, False),
             ("std::int64_t", 64, True), ("std::uint64_t", 64, False)]


def gen(tier):
    F = []
    Ds = [128, 129, 160, 191, 192, 200, 255, 256, 257, 512, 1000, 2048] if tier == "quick" else sorted(set(list(range(128, 400)) + [511, 512, 513, 1000, 1023, 1024, 1025, 2048]))
    narrow = NARROWEST if tier != "quick" else [NARROWEST[i] for i in (0, 3, 4, 5, 6, 7)]
    for D in Ds:
        for (N, lw, sg) in narrow:
            if not sg and D == 128:
                continue            # 128 unsigned digits still fit the widest built-in
            T = "cnl::wide_integer<%d, %s>" % (D, N)
            R = "vw::rep<%s>" % T
            need = D + (1 if sg else 0)
            width = -(-need // lw) * lw
            k = "%d/%s" % (D, N.replace("std::", ""))
            F.append(factmod.Fact("storage/%s/multi" % k, "vw::uw<%s>::multi" % R, 1, decls=DECLS, may_reject=True))
            F.append(factmod.Fact("storage/%s/width" % k, "vw::uw<%s>::width" % R, width, decls=DECLS, may_reject=True))
            F.append(factmod.Fact("storage/%s/limb" % k, "vw::uw<%s>::limb" % R, lw, decls=DECLS, may_reject=True))
            F.append(factmod.Fact("storage/%s/signed" % k, "vw::uw<%s>::sgn" % R, 1 if sg else 0, decls=DECLS, may_reject=True))
            F.append(factmod.Fact("limits/%s/digits" % k, "std::numeric_limits<%s>::digits" % T, D, decls=DECLS, may_reject=True))
            F.append(factmod.Fact("limits/%s/digits_v" % k, "cnl::digits_v<%s>" % T, D, decls=DECLS, may_reject=True))
            F.append(factmod.Fact("limits/%s/is_signed" % k, "std::numeric_limits<%s>::is_signed" % T, 1 if sg else 0, decls=DECLS, may_reject=True))
            F.append(factmod.Fact("limits/%s/signedness_v" % k, "cnl::numbers::signedness_v<%s>" % T, 1 if sg else 0, decls=DECLS, may_reject=True))
            F.append(factmod.Fact("limits/%s/is_integer" % k, "std::numeric_limits<%s>::is_integer" % T, 1, decls=DECLS, may_reject=True))
    # operator results
    pairs = [(128, 200), (200, 128), (200, 200), (129, 1000), (257, 256), (300, 64), (40, 300)] if tier == "quick" else [(a, b) for a in (40, 64, 128, 129, 200, 256, 257, 1000) for b in (40, 128, 200, 257, 1000) if max(a, b) > 128]
    nn = [("int", True), ("unsigned", False)] if tier == "quick" else [("int", True), ("unsigned", False), ("std::int64_t", True), ("std::uint8_t", False)]
    for (A, B) in pairs:
        for (N1, s1) in nn:
            for (N2, s2) in nn:
                TA, TB = "cnl::wide_integer<%d, %s>" % (A, N1), "cnl::wide_integer<%d, %s>" % (B, N2)
                for op in ("+", "-", "*", "/", "%", "&", "|", "^"):
                    RT = "decltype(std::declval<%s>() %s std::declval<%s>())" % (TA, op, TB)
                    k = "%d%s%s%d%s" % (A, "s" if s1 else "u", op, B, "s" if s2 else "u")
                    F.append(factmod.Fact("result/%s/digits" % k, "cnl::digits_v<%s>" % RT, max(A, B), decls=DECLS, may_reject=True))
                    F.append(factmod.Fact("result/%s/signed" % k, "cnl::numbers::signedness_v<%s>" % RT, 1 if (s1 or s2) else 0, decls=DECLS, may_reject=True))
                for op in ("==", "<", ">="):
                    F.append(factmod.Fact("cmp/%d%s%s%d%s" % (A, "s" if s1 else "u", op, B, "s" if s2 else "u"),
                                          "std::is_same_v<decltype(std::declval<%s>() %s std::declval<%s>()), bool>" % (TA, op, TB), 1, decls=DECLS, may_reject=True))
    for D in ([129, 200, 1000] if tier == "quick" else [129, 160, 200, 256, 257, 1000, 2048]):
        for (N, s) in [("int", True), ("unsigned", False)]:
            T = "cnl::wide_integer<%d, %s>" % (D, N)
            for e, nm in (("std::declval<%s>() << 3" % T, "shl"), ("std::declval<%s>() >> 3" % T, "shr"), ("-std::declval<%s>()" % T, "neg"), ("~std::declval<%s>()" % T, "not"), ("+std::declval<%s>()" % T, "pos")):
                F.append(factmod.Fact("unary/%d%s/%s/digits" % (D, "s" if s else "u", nm), "cnl::digits_v<decltype(%s)>" % e, D, decls=DECLS, may_reject=True))
                F.append(factmod.Fact("unary/%d%s/%s/signed" % (D, "s" if s else "u", nm), "cnl::numbers::signedness_v<decltype(%s)>" % e, 1 if s else 0, decls=DECLS, may_reject=True))
    # a digit count / narrowest pair whose multi-limb width the vendored uintwide_t does not support (e.g. 2048 signed digits
    # on 32-bit limbs: width 2080) is rejected by the library as soon as the rep is instantiated: "ill-formed" is never
    # counted as "wrong", and how early the rejection comes is not a property (a behaviour-preserving refactor moved it)
    return F


FLOOR = {"quick": 900, "thorough": 12000}


def run(tier, seed, work):
    r = report.Run(PROP, tier, seed, "other")
    F = gen(tier)
    fctl = common.fact_controls()
    factmod.run_facts(work, F + fctl, batch=150)
    common.check_fact_controls(r, fctl)
    nf = common.settle_facts(r, F)
    common.floor_check(r, "type facts proved", nf["proved"], FLOOR[tier])
    good = [f for f in F if f.status == "proved"]
    rng = random.Random(seed)
    r.coverage = {
        "explanation": "Type-level clauses only: multi-limb storage (limb type, signedness, smallest sufficient width incl. the sign bit), numeric_limits/digits/signedness, result digits (max) and signedness (either) of the binary operators, shifts and unary operators keep the operand's type, comparisons return bool. The limb arithmetic itself (values) is NOT decided.",
        "evaluations": len(F), "distinct_nontrivial": nf["proved"], "rule": "non-trivial = proved type fact (clang value equal to the oracle's and confirmed by g++ static_assert)",
        "type_facts": len(F), "type_facts_proved": nf["proved"], "type_facts_refuted": nf["refuted"], "rejected_by_library": nf["rejected"],
        "samples": [{"key": f.key, "expr": f.expr, "value": f.value} for f in rng.sample(good, min(8, len(good)))], "exhaustive": False,
    }
    return r.finish()


def replay(path, work):
    import json
    print(json.dumps(json.load(open(path)), indent=1)[:3000])
    return 1
