"""C10 — wide_integer behaves as an N-bit two's-complement integer for any N (widths beyond the widest built-in).

Decided: only what is visible in TYPES (engine T, clang values + g++ static_assert), for a grid of digit counts and
narrowest types:
 S  storage: beyond the widest built-in the rep is a multi-limb uintwide_t whose limb is the unsigned narrowest type, whose
    signedness is the narrowest type's, and whose width is the smallest multiple of the limb width that holds the
    digits plus the sign bit (a narrower store cannot hold the N-bit range; a differently-signed one changes comparisons,
    division and right shifts);
 L  numeric_limits / digits_v / signedness_v of wide_integer<D, N>: digits == D, is_signed as the narrowest type;
 R  operator results: +, -, *, /, %, &, |, ^ of wide_integer<A, N1> and wide_integer<B, N2> have max(A, B) digits and are
    signed when either operand is; shifts and unary operators keep the left operand's digits and signedness;
    comparisons return bool.
SIGN (engine CFG, vlib/signflow.py, on -O1 -fno-inline IR): how the signed multi-limb type reduces its operations to the
unsigned limb arithmetic --
 G1 is_neg tests the top bit of the most significant limb;
 G2 operator/= and operator%= take magnitudes of exactly the negative operands, run ONE unsigned division on (copy of
    *this, copy of other) and negate the quotient iff the signs differ, the remainder iff the dividend is negative
    (division truncating toward zero), for each of the four sign valuations and every path;
 G3 compare: a negative value is below a non-negative one, equal signs defer to the limb comparison of (this, other);
 G4 right_shift_fill_value is all-ones for negative values and 0 otherwise (right shift of negatives arithmetic).
Necessary conditions of the property; the limb arithmetic itself (carry propagation, Knuth division, shifts across
limbs) has data-dependent loops and is NOT decided.  The seeded change M-C02-3 (remainder takes the divisor's sign in
uintwide_t) was invisible to the type facts and is what rule G2 was written for.
"""
import random
from vlib import tc, facts as factmod, report
from . import common

PROP = "C10"

DECLS = """namespace vw {
template<class T> struct uw { static constexpr long long multi = 0, width = 0, limb = 0, sgn = 0; };
template<std::uint32_t W, class L, class A, bool S> struct uw<cnl::_impl::math::wide_integer::uintwide_t<W, L, A, S>> {
  static constexpr long long multi = 1, width = W, limb = sizeof(L) * 8, sgn = S; static constexpr bool limb_unsigned = std::is_unsigned_v<L>; };
template<class T> using rep = cnl::_impl::rep_of_t<T>;
}"""

NARROWEST = [("std::int8_t", 8, True), ("std::uint8_t", 8, False), ("std::int16_t", 16, True), ("std::uint16_t", 16, False), ("int", 32, True), ("unsigned", 32, False),
             ("std::int64_t", 64, True), ("std::uint64_t", 64, False)]


def gen(tier):
    F = []
    Ds = [128, 129, 160, 191, 192, 200, 255, 256, 257, 512, 1000, 2048] if tier == "quick" else sorted(set(list(range(128, 400)) + [511, 512, 513, 1000, 1023, 1024, 1025, 2048]))
    narrow = NARROWEST if tier != "quick" else [NARROWEST[i] for i in (0, 3, 4, 5, 6, 7)]
    for D in Ds:
        for (N, lw, sg) in narrow:
            if not sg and D == 128:
                continue            # 128 unsigned digits still fit the widest built-in
            T = "cnl::wide_integer<%d, %s>" % (D, N)
            R = "vw::rep<%s>" % T
            need = D + (1 if sg else 0)
            width = -(-need // lw) * lw
            k = "%d/%s" % (D, N.replace("std::", ""))
            F.append(factmod.Fact("storage/%s/multi" % k, "vw::uw<%s>::multi" % R, 1, decls=DECLS, may_reject=True))
            F.append(factmod.Fact("storage/%s/width" % k, "vw::uw<%s>::width" % R, width, decls=DECLS, may_reject=True))
            F.append(factmod.Fact("storage/%s/limb" % k, "vw::uw<%s>::limb" % R, lw, decls=DECLS, may_reject=True))
            F.append(factmod.Fact("storage/%s/signed" % k, "vw::uw<%s>::sgn" % R, 1 if sg else 0, decls=DECLS, may_reject=True))
            F.append(factmod.Fact("limits/%s/digits" % k, "std::numeric_limits<%s>::digits" % T, D, decls=DECLS, may_reject=True))
            F.append(factmod.Fact("limits/%s/digits_v" % k, "cnl::digits_v<%s>" % T, D, decls=DECLS, may_reject=True))
            F.append(factmod.Fact("limits/%s/is_signed" % k, "std::numeric_limits<%s>::is_signed" % T, 1 if sg else 0, decls=DECLS, may_reject=True))
            F.append(factmod.Fact("limits/%s/signedness_v" % k, "cnl::numbers::signedness_v<%s>" % T, 1 if sg else 0, decls=DECLS, may_reject=True))
            F.append(factmod.Fact("limits/%s/is_integer" % k, "std::numeric_limits<%s>::is_integer" % T, 1, decls=DECLS, may_reject=True))
    # operator results
    pairs = [(128, 200), (200, 128), (200, 200), (129, 1000), (257, 256), (300, 64), (40, 300)] if tier == "quick" else [(a, b) for a in (40, 64, 128, 129, 200, 256, 257, 1000) for b in (40, 128, 200, 257, 1000) if max(a, b) > 128]
    nn = [("int", True), ("unsigned", False)] if tier == "quick" else [("int", True), ("unsigned", False), ("std::int64_t", True), ("std::uint8_t", False)]
    for (A, B) in pairs:
        for (N1, s1) in nn:
            for (N2, s2) in nn:
                TA, TB = "cnl::wide_integer<%d, %s>" % (A, N1), "cnl::wide_integer<%d, %s>" % (B, N2)
                for op in ("+", "-", "*", "/", "%", "&", "|", "^"):
                    RT = "decltype(std::declval<%s>() %s std::declval<%s>())" % (TA, op, TB)
                    k = "%d%s%s%d%s" % (A, "s" if s1 else "u", op, B, "s" if s2 else "u")
                    F.append(factmod.Fact("result/%s/digits" % k, "cnl::digits_v<%s>" % RT, max(A, B), decls=DECLS, may_reject=True))
                    F.append(factmod.Fact("result/%s/signed" % k, "cnl::numbers::signedness_v<%s>" % RT, 1 if (s1 or s2) else 0, decls=DECLS, may_reject=True))
                for op in ("==", "<", ">="):
                    F.append(factmod.Fact("cmp/%d%s%s%d%s" % (A, "s" if s1 else "u", op, B, "s" if s2 else "u"),
                                          "std::is_same_v<decltype(std::declval<%s>() %s std::declval<%s>()), bool>" % (TA, op, TB), 1, decls=DECLS, may_reject=True))
    for D in ([129, 200, 1000] if tier == "quick" else [129, 160, 200, 256, 257, 1000, 2048]):
        for (N, s) in [("int", True), ("unsigned", False)]:
            T = "cnl::wide_integer<%d, %s>" % (D, N)
            for e, nm in (("std::declval<%s>() << 3" % T, "shl"), ("std::declval<%s>() >> 3" % T, "shr"), ("-std::declval<%s>()" % T, "neg"), ("~std::declval<%s>()" % T, "not"), ("+std::declval<%s>()" % T, "pos")):
                F.append(factmod.Fact("unary/%d%s/%s/digits" % (D, "s" if s else "u", nm), "cnl::digits_v<decltype(%s)>" % e, D, decls=DECLS, may_reject=True))
                F.append(factmod.Fact("unary/%d%s/%s/signed" % (D, "s" if s else "u", nm), "cnl::numbers::signedness_v<decltype(%s)>" % e, 1 if s else 0, decls=DECLS, may_reject=True))
    # a digit count / narrowest pair whose multi-limb width the vendored uintwide_t does not support (e.g. 2048 signed digits
    # on 32-bit limbs: width 2080) is rejected by the library as soon as the rep is instantiated: "ill-formed" is never
    # counted as "wrong", and how early the rejection comes is not a property (a behaviour-preserving refactor moved it)
    return F


FLOOR = {"quick": 900, "thorough": 12000}

SIGN_TYPES = {"quick": [(200, "int"), (200, "std::int64_t"), (129, "std::int8_t"), (1000, "int")],
              "thorough": [(200, "int"), (200, "std::int64_t"), (129, "std::int8_t"), (1000, "int"), (129, "int"), (200, "std::int16_t"), (257, "std::int64_t"), (512, "std::int16_t"), (2000, "std::int64_t")]}


def sign_rules(r, work, tier):
    """G1..G4 on every signed multi-limb instantiation of SIGN_TYPES; returns the number of rule instances decided"""
    import os, re
    from vlib import ir, signflow
    types = SIGN_TYPES[tier]
    src = tc.PRELUDE["clang"]
    for i, (D, N) in enumerate(types):
        src += "using SW%d = cnl::wide_integer<%d, %s>;\n" % (i, D, N)
        src += 'extern "C" void sg_rem%d(SW%d& a, SW%d const& b) { a = a %% b; }\n' % (i, i, i)
        src += 'extern "C" void sg_div%d(SW%d& a, SW%d const& b) { a = a / b; }\n' % (i, i, i)
        src += 'extern "C" bool sg_lt%d(SW%d const& a, SW%d const& b) { return a < b; }\n' % (i, i, i)
        src += 'extern "C" void sg_shr%d(SW%d& a, int n) { a = a >> n; }\n' % (i, i)
    p, out = os.path.join(work, "sign.cpp"), os.path.join(work, "sign.ll")
    open(p, "w").write(src)
    rc, so, se, cmd = tc.clang_ll(p, out, "o1ni")
    if rc != 0:
        raise tc.AnalysisBroken("sign-rule TU does not compile: " + se[:1500])
    text = open(out).read()
    mod = ir.parse_module(text)
    dem = tc.demangle(sorted(set(list(mod.functions) + re.findall(r"@([\w.$]+)\(", text))))
    done = {"G1": 0, "G2": 0, "G3": 0, "G4": 0}
    control_seen = False
    insts = {}
    for n, d in dem.items():
        if n not in mod.functions:
            continue
        m = re.match(r"^(?:[\w ]+ )?cnl::_impl::math::wide_integer::uintwide_t<(\d+)u, ([^,<>]+), void, true>::(operator/=|operator%=|is_neg<true|compare<true|right_shift_fill_value)(?:, \(void const\*\)0>)?\(", d)
        if not m:
            continue
        insts.setdefault((m.group(1), m.group(2)), {})[m.group(3)] = n
    for (W, L), fns in sorted(insts.items()):
        tag = "uintwide_t<%s, %s, signed>" % (W, L)
        for what, rule in (("is_neg<true", "G1"), ("operator/=", "G2"), ("operator%=", "G2"), ("compare<true", "G3"), ("right_shift_fill_value", "G4")):
            n = fns.get(what)
            if n is None:
                r.broke("sign rule %s: %s::%s is not in the module (anchor vanished)" % (rule, tag, what))
                continue
            fn = mod.functions[n]
            key = "sign/%s/%s/%s" % (rule, tag, what)
            try:
                if rule == "G1":
                    t = signflow.sign_test(mod, fn, dem)
                    if t:
                        r.violation(key, "%s::is_neg: %s" % (tag, t), {"function": dem[n], "ir": fn.text()}, finding_key="sign/G1")
                elif rule == "G2":
                    op = "/" if what == "operator/=" else "%"
                    probs, st = signflow.analyse(mod, fn, dem, op)
                    if not control_seen:
                        cp, _ = signflow.analyse(mod, fn, dem, op, swap=True)
                        if not cp:
                            r.broke("sign rule control: %s judged with dividend and divisor exchanged was not refuted" % what)
                        control_seen = True
                    for (val, path, txt) in probs[:1]:
                        r.violation(key, "%s::%s with %s: %s (path through blocks %s; %d problem(s) over the four sign valuations)" % (tag, what, val, txt, " -> ".join(path), len(probs)),
                                    {"function": dem[n], "problems": [(v, " -> ".join(pp), t) for v, pp, t in probs], "ir": fn.text()}, finding_key="sign/G2")
                elif rule == "G3":
                    outv, idxs, ps = signflow.returned(mod, fn, dem)
                    if idxs != [0, 1]:
                        raise signflow.Undecided("compare: sign tests of both operands expected")
                    bad = []
                    for (s, t), vals in sorted(outv.items()):
                        if any(v[0] == "opaque" for v in vals):
                            raise signflow.Undecided("compare: returned value not recognised: %r" % (sorted(vals),))
                        if s and not t:
                            ok = vals == {("const", -1)}
                            want = "-1"
                        elif t and not s:
                            ok = vals == {("const", 1)}
                            want = "1"
                        else:
                            ok = len(vals) == 1 and all(v[0] == "call" and "::compare_ranges<" in v[1] and v[2][:2] == (ps[0], ps[1]) for v in vals)
                            want = "compare_ranges(this->values, other.values)"
                        if not ok:
                            bad.append("this %s, other %s: returns %s, expected %s" % ("negative" if s else "non-negative", "negative" if t else "non-negative",
                                                                                         ", ".join(("%s(%s)" % (v[1].split("(")[0].split("::")[-1], ", ".join(v[2])) if v[0] == "call" else str(v[1])) for v in sorted(vals, key=str)), want))
                    if bad:
                        r.violation(key, "%s::compare: %s" % (tag, "; ".join(bad)), {"function": dem[n], "ir": fn.text()}, finding_key="sign/G3")
                else:
                    outv, idxs, ps = signflow.returned(mod, fn, dem)
                    if idxs != [0]:
                        raise signflow.Undecided("right_shift_fill_value: a sign test of *this expected")
                    neg, pos = outv[(True,)], outv[(False,)]
                    lw = {"unsigned char": 8, "unsigned short": 16, "unsigned int": 32, "unsigned long": 64}.get(L)
                    ones = {("const", -1), ("const", 2 ** lw - 1)} if lw else {("const", -1)}
                    okn = len(neg) == 1 and (neg <= ones or all(v[0] == "call" and re.match(r"^std::numeric_limits<%s>::max\(\)$" % re.escape(L), v[1]) for v in neg))
                    if any(v[0] == "opaque" for v in neg | pos):
                        raise signflow.Undecided("fill value not recognised: %r / %r" % (sorted(neg, key=str), sorted(pos, key=str)))
                    if not okn or pos != {("const", 0)}:
                        r.violation(key, "%s::right_shift_fill_value: negative -> %s, non-negative -> %s (expected all-ones / 0)" % (tag, sorted(neg, key=str), sorted(pos, key=str)),
                                    {"function": dem[n], "ir": fn.text()}, finding_key="sign/G4")
                done[rule] += 1
            except signflow.Undecided as e:
                r.broke("%s: undecided: %s" % (key, e))
    if not control_seen:
        r.broke("sign rule control did not run")
    return done, len(insts)


# ---------------------------------------------------------------------------------------------------------------------
# LIMB: the limb arithmetic at fixed limb counts, for all limb values (vlib/limbalg.py)

LIMB_TYPES = {
    "quick": [(200, "unsigned", 32, False), (129, "std::uint64_t", 64, False), (256, "std::uint64_t", 64, False), (500, "std::uint64_t", 64, False),
              (130, "std::uint16_t", 16, False), (136, "std::uint8_t", 8, False), (200, "int", 32, True), (255, "std::int64_t", 64, True)],
    "thorough": [(D, N, L, sg) for (N, L, sg) in (("unsigned", 32, False), ("int", 32, True), ("std::uint64_t", 64, False), ("std::int64_t", 64, True), ("std::uint16_t", 16, False),
                                                   ("std::int16_t", 16, True), ("std::uint8_t", 8, False), ("std::int8_t", 8, True))
                 for D in (129, 136, 160, 192, 200, 255, 256, 320, 384, 500, 512) if not (L == 8 and D > 200) and not (L == 16 and D > 384)],
}


def _limb_ops(W, L, sg, tier):
    """[(name, C++ body, operands [(name, bits, limb bits)], result bits, spec(cx, values))]"""
    from vlib import limbalg as la
    ks = sorted({1, L - 1, L, L + 1, 37, W - 1} if tier == "quick" else {1, 3, L - 1, L, L + 1, 2 * L, 2 * L + 5, 37, W - L, W - 1})
    two = [("a", W, L), ("b", W, L)]
    one = [("a", W, L)]
    ops = [("add", "return a + b;", two, W, lambda cx, v: la.padd(v[0], v[1])),
           ("sub", "return a - b;", two, W, lambda cx, v: la.padd(v[0], v[1], -1)),
           ("mul", "return a * b;", two, W, lambda cx, v: la.pmul(v[0], v[1])),
           ("neg", "return -a;", one, W, lambda cx, v: la.pscale(v[0], -1)),
           ("inc", "T r = a; ++r; return r;", one, W, lambda cx, v: la.padd(v[0], la.const(1))),
           ("dec", "T r = a; --r; return r;", one, W, lambda cx, v: la.padd(v[0], la.const(-1)))]
    # bitwise operators: limb i of the result is the machine operation on limb i of the operands
    for (nm, sym) in (("and", "&"), ("or", "|"), ("xor", "^")):
        ops.append((nm, "return a %s b;" % sym, two, W, lambda cx, v, nm=nm: la.bitwise(cx, nm, v[0], v[1], L, W)))
    # a built-in right (left) operand: the operator converts it to the multi-limb type first (sign / zero extension)
    B = "std::int64_t" if sg else "std::uint64_t"
    mix = [("a", W, L), ("b", 64, min(L, 64), B)]
    bval = (lambda cx, x: la.sval(cx, x, 64)) if sg else (lambda cx, x: x)
    ops += [("add_builtin", "return a + b;", mix, W, lambda cx, v: la.padd(v[0], bval(cx, v[1]))),
            ("builtin_sub", "return b - a;", mix, W, lambda cx, v: la.padd(bval(cx, v[1]), v[0], -1)),
            ("mul_builtin", "return a * b;", mix, W, lambda cx, v: la.pmul(v[0], bval(cx, v[1])))]
    # comparisons: the result is the truth value of the comparison of the mathematical (signed) values
    def val(cx, x):
        return la.sval(cx, x, W) if sg else x
    cmps = [("lt", "<", lambda cx, v: la.LT(cx, val(cx, v[0]), val(cx, v[1]))), ("gt", ">", lambda cx, v: la.LT(cx, val(cx, v[1]), val(cx, v[0]))),
            ("le", "<=", lambda cx, v: la.padd(la.const(1), la.LT(cx, val(cx, v[1]), val(cx, v[0])), -1)), ("ge", ">=", lambda cx, v: la.padd(la.const(1), la.LT(cx, val(cx, v[0]), val(cx, v[1])), -1)),
            ("eq", "==", lambda cx, v: la.padd(la.const(1), la.Z(cx, la.padd(v[0], v[1], -1)), -1)), ("ne", "!=", lambda cx, v: la.Z(cx, la.padd(v[0], v[1], -1)))]
    for (nm, sym, spec) in cmps:
        ops.append((nm, "return a %s b;" % sym, two, 8, spec))
    for k in ks:
        if not (0 < k < W):
            continue
        ops.append(("shl%d" % k, "return a << %d;" % k, one, W, lambda cx, v, k=k: la.pscale(v[0], 1 << k)))
        if sg:
            ops.append(("shr%d" % k, "return a >> %d;" % k, one, W,
                        lambda cx, v, k=k: la.F(cx, la.padd(v[0], la.pscale(la.F(cx, v[0], W - 1), 1 << W), -1), k)))
        else:
            ops.append(("shr%d" % k, "return a >> %d;" % k, one, W, lambda cx, v, k=k: la.F(cx, v[0], k)))
    return ops


def limb_rules(r, work, tier, seed):
    import os, re, time
    from vlib import ir, limbalg as la
    types = LIMB_TYPES[tier]
    src = tc.PRELUDE["clang"]
    plan = []
    for ti, (D, N, L, sg) in enumerate(types):
        need = D + (1 if sg else 0)
        W = -(-need // L) * L
        src += "using LT%d = cnl::wide_integer<%d, %s>;\n" % (ti, D, N)
        for (name, body, opds, RW, spec) in _limb_ops(W, L, sg, tier):
            fname = "lk%d_%s" % (ti, name)
            src += 'extern "C" %s %s(%s) { using T = LT%d; %s }\n' % ("bool" if RW == 8 else "LT%d" % ti, fname, ", ".join("%s %s" % (o[3] if len(o) > 3 else "LT%d" % ti, o[0]) for o in opds), ti, body)
            plan.append((fname, "wide_integer<%d, %s>" % (D, N.replace("std::", "")), name, W, L, [o[:3] for o in opds], RW, spec))
    # positive control: a + b judged against a - b must be refuted with a counterexample
    src += 'extern "C" LT0 lk_control(LT0 a, LT0 b) { return a + b; }\n'
    p, out = os.path.join(work, "limb.cpp"), os.path.join(work, "limb.ll")
    open(p, "w").write(src)
    cmd = [tc.CLANGXX] + tc.COMMON + ["-O2", "-DNDEBUG", "-fno-vectorize", "-fno-slp-vectorize", "-mllvm", "-inline-threshold=1000000", "-S", "-emit-llvm", p, "-o", out]
    rc, so, se = tc.run(cmd)
    if rc != 0:
        raise tc.AnalysisBroken("limb-arithmetic TU does not compile: " + se[:1500])
    text = open(out).read()
    mod = ir.parse_module(text)

    def one(job):
        fname, tname, opname, W, L, opds, RW, spec = job
        fn = mod.functions.get(fname)
        if fn is None:
            return ("broken", {"why": "kernel vanished"})
        t0 = time.time()
        try:
            v, d = la.check_kernel(text, fn, RW, opds, spec, seed=seed)
        except la.Undecided as e:
            v, d = "undecided", {"why": str(e)[:200]}
        except RecursionError:
            v, d = "undecided", {"why": "recursion limit"}
        d["wall"] = round(time.time() - t0, 2)
        return (v, d)
    res = tc.fmap(one, plan)
    D0, N0, L0, sg0 = types[0]
    W0 = -(-(D0 + (1 if sg0 else 0)) // L0) * L0
    try:
        cv, cd = la.check_kernel(text, mod.functions["lk_control"], W0, [("a", W0, L0), ("b", W0, L0)], lambda cx, v: la.padd(v[0], v[1], -1))
    except la.Undecided as e:
        cv, cd = "undecided", {"why": str(e)}
    if cv != "refuted" or "counterexample" not in cd:
        r.broke("limb-arithmetic control: a + b judged as a - b gave %s" % cv)
    cnt = {"proved": 0, "refuted": 0, "undecided": 0}
    und = []
    for job, (v, d) in zip(plan, res):
        fname, tname, opname, W, L, opds, RW, spec = job
        key = "limb/%s/%s" % (tname, opname)
        if v == "proved":
            cnt["proved"] += 1
        elif v == "refuted":
            cnt["refuted"] += 1
            ce = d.get("counterexample", {})
            r.violation(key, "%s: `%s` on %d-bit limbs does not agree with integer arithmetic modulo 2^%d: for limbs %s (least significant first) the result should be %s but the code computes %s"
                        % (tname, opname, L, RW, ", ".join("%s=%#x" % kv for kv in sorted(ce.items())), hex(d.get("expected", 0)), hex(d.get("computed", 0))),
                        {"type": tname, "op": opname, "detail": d}, finding_key="limb/%s" % re.sub(r"\d+$", "", opname))
        else:
            cnt["undecided"] += 1
            und.append("%s (%s)" % (key, d.get("why", "residue not discharged, no counterexample among the samples")))
    return cnt, und, len(types)


LIMB_FLOOR = {"quick": 240, "thorough": 2666}


def run(tier, seed, work):
    r = report.Run(PROP, tier, seed, "other")
    F = gen(tier)
    fctl = common.fact_controls()
    factmod.run_facts(work, F + fctl, batch=150)
    common.check_fact_controls(r, fctl)
    nf = common.settle_facts(r, F)
    common.floor_check(r, "type facts proved", nf["proved"], FLOOR[tier])
    done, ninst = sign_rules(r, work, tier)
    want = len(SIGN_TYPES[tier])
    common.floor_check(r, "signed multi-limb instantiations under the sign rules", ninst, want)
    for g, k in (("G1", 1), ("G2", 2), ("G3", 1), ("G4", 1)):
        common.floor_check(r, "sign rule %s instances decided" % g, done[g], k * want)
    lcnt, lund, ltypes = limb_rules(r, work, tier, seed)
    for u in lund[:10]:
        r.notes.append("note: limb obligation undecided: " + u)
    common.floor_check(r, "limb-arithmetic obligations proved", lcnt["proved"], LIMB_FLOOR[tier])
    # conversions (shared with C04): to a wider multi-limb type, from and to built-in integers
    from . import C04 as c04
    csrc, cplan = c04.limb_plan(tier)
    cplan = [j for j in cplan if not j[0].startswith("limb/finer")]
    ccnt = common.limb_block(r, work, "c10conv", csrc, cplan, seed, len(cplan), "multi-limb conversion obligations proved")
    good = [f for f in F if f.status == "proved"]
    rng = random.Random(seed)
    r.coverage = {
        "explanation": "Type-level clauses and the sign discipline G1-G4 of the signed multi-limb type (path rule over the four sign valuations on -O1 -fno-inline IR): multi-limb storage (limb type, signedness, smallest sufficient width incl. the sign bit), numeric_limits/digits/signedness, result digits (max) and signedness (either) of the binary operators, shifts and unary operators keep the operand's type, comparisons return bool. The limb arithmetic itself (values) is NOT decided.",
        "evaluations": len(F), "distinct_nontrivial": nf["proved"], "rule": "non-trivial = proved type fact (clang value equal to the oracle's and confirmed by g++ static_assert)",
        "limb_types": ltypes, "conversion_obligations_proved": ccnt["proved"], "limb_obligations_proved": lcnt["proved"], "limb_obligations_refuted": lcnt["refuted"], "limb_obligations_undecided": lcnt["undecided"],
        "sign_rule_instantiations": ninst, "sign_rule_G1_is_neg": done["G1"], "sign_rule_G2_division": done["G2"], "sign_rule_G3_compare": done["G3"], "sign_rule_G4_shift_fill": done["G4"],
        "type_facts": len(F), "type_facts_proved": nf["proved"], "type_facts_refuted": nf["refuted"], "rejected_by_library": nf["rejected"],
        "samples": [{"key": f.key, "expr": f.expr, "value": f.value} for f in rng.sample(good, min(8, len(good)))], "exhaustive": False,
    }
    return r.finish()


def replay(path, work):
    import json
    print(json.dumps(json.load(open(path)), indent=1)[:3000])
    return 1
