"""C08 — integer division under a rounding mode returns the correctly rounded quotient.

A. EQ: every operator other than / on rounding_integer<Rep,Tag> == the built-in operator; native_rounding_tag / == a / b.
B. EQ (two free operands): neg_inf / == the textbook definition of floor division in terms of the truncating one.
C. LINES (divisor pinned to K): the kernel's ite tree partitions the dividend's range by sign; on each part the leaf
   must be a member of the family  s_out * trunc((s_in * a + c) / K)  with exactly the offset the rounding mode
   demands.  The demanded closed form is derived from the definition of the mode and validated against exact rational
   rounding (Python fractions) over full residue periods on every run; two members of the family with different
   offsets differ somewhere on any stretch of 2|K| consecutive dividends, so a wrong offset is a definite refutation.
D. UB lines: the bias arithmetic must not execute an undefined operation for any dividend (divisor pinned) or divisor
   (dividend pinned).
"""
import random, re
from fractions import Fraction
from vlib import tc, kern, gate, iset, facts as factmod, report
from vlib.iset import ISet
from vlib.cty import *
from . import common, C06

PROP = "C08"
TAGS = {"nearest": "nearest_rounding_tag", "tie": "tie_to_pos_inf_rounding_tag", "neg_inf": "neg_inf_rounding_tag", "native": "native_rounding_tag"}


def ri(T, tag):
    return "rounding_integer<%s, %s>" % (T.name, TAGS[tag])


# ---- the oracle: exact rational rounding
def rround(a, b, mode):
    q = Fraction(a, b)
    fl = q.numerator // q.denominator
    if mode == "neg_inf":
        return fl
    if mode == "native":
        return fl if q >= 0 or q == fl else fl + 1
    fr = q - fl
    if fr < Fraction(1, 2):
        return fl
    if fr > Fraction(1, 2):
        return fl + 1
    # tie
    if mode == "tie":
        return fl + 1
    return fl + 1 if q > 0 else fl      # nearest: ties away from zero


def tdiv(a, b):
    q = abs(a) // abs(b)
    return q if (a < 0) == (b < 0) else -q


def closed_form(mode, K):
    """the demanded function on the two sign regions of the dividend, as (s_out, s_in, c) meaning
    s_out * trunc((s_in * a + c) / |K|); derived from the definition, validated by validate_closed_forms()"""
    k = abs(K)
    sk = 1 if K > 0 else -1
    if mode == "nearest":
        h = k // 2
        return {"nonneg": (sk, 1, h), "neg": (-sk, -1, h)}       # sign(a)sign(K) * ((|a| + k//2) div k)
    if mode == "tie":
        if K > 0:
            return {"nonneg": (1, 1, k // 2), "neg": (-1, -1, (k - 1) // 2)}     # floor((2a + k) / 2k)
        return {"nonneg": (-1, 1, (k - 1) // 2), "neg": (1, -1, k // 2)}         # a / K == (-a) / k
    if mode == "native":
        return {"nonneg": (sk, 1, 0), "neg": (-sk, -1, 0)}
    if mode == "neg_inf":
        if K > 0:
            return {"nonneg": (1, 1, 0), "neg": (-1, -1, k - 1)}      # floor(a/k) = -trunc((-a + k-1)/k) for a < 0
        return {"nonneg": (-1, 1, k - 1), "neg": (1, -1, 0)}
    return None


def evalform(f, a, K):
    s_out, s_in, c = f
    return s_out * ((s_in * a + c) // abs(K))


def validate_closed_forms():
    n = 0
    for mode in ("nearest", "tie", "native", "neg_inf"):
        for K in list(range(-12, 13)) + [127, -128, 1000, -1001]:
            if K == 0:
                continue
            cf = closed_form(mode, K)
            for a in range(-3 * abs(K) - 3, 3 * abs(K) + 4):
                want = rround(a, K, mode)
                got = evalform(cf["nonneg"] if a >= 0 else cf["neg"], a, K)
                n += 1
                if want != got:
                    raise tc.AnalysisBroken("oracle self-check failed: mode %s a=%d K=%d closed form %d, rational rounding %d" % (mode, a, K, got, want))
    return n


def divform(e, var, K, region=None):
    """recognise  s_out * DIV(s_in * a + c, |K| or K)  in a gated leaf; returns (s_out, s_in, c) normalised to division by |K|, or None.
    Shifts by log2|K| are divisions when the sign of the numerator over `region` (lo,hi) makes them so."""
    k = abs(K)
    if region is not None and k & (k - 1) == 0 and k > 1:
        sh = k.bit_length() - 1
        s0, e0 = 1, e
        if e0[0] == "op" and e0[1] == "sub" and gate.is_c(e0[3]) and e0[3][2] == 0:
            s0, e0 = -1, e0[4]
        if e0[0] == "cast" and e0[1] in ("trunc", "sext", "zext"):
            e0 = e0[4]
        if e0[0] == "op" and e0[1] in ("lshr", "ashr") and gate.is_c(e0[4]) and e0[4][2] == sh:
            bits = gate._bits(e0[2])
            as_div = ("op", "sdiv", e0[2], e0[3], gate.C(bits, k))
            inner = divform(as_div, var, K)
            if inner is not None:
                _, s_in, c = inner
                ys = sorted((s_in * region[0] + c, s_in * region[1] + c))
                if ys[0] >= 0:
                    return (s0, s_in, c)                     # non-negative numerator: both shifts truncate
                if ys[1] < 0 and e0[1] == "ashr":
                    return (-s0, -s_in, -c + k - 1)          # floor(y/k) = -trunc((-y + k - 1)/k) for y < 0
            return None
    s_out = 1
    bits = None
    # outer negation
    if e[0] == "op" and e[1] == "sub" and gate.is_c(e[3]) and e[3][2] == 0:
        s_out, e = -1, e[4]
    if e[0] == "cast" and e[1] in ("trunc", "sext", "zext"):
        e = e[4]
        if e[0] == "op" and e[1] == "sub" and gate.is_c(e[3]) and e[3][2] == 0:
            s_out, e = -s_out, e[4]
    if not (e[0] == "op" and e[1] in ("sdiv", "udiv") and gate.is_c(e[4])):
        if e == var or (e[0] == "cast" and e[4] == var):
            return (s_out, 1, 0) if k == 1 else None
        if e[0] == "op" and e[1] == "sub" and gate.is_c(e[3]) and e[3][2] == 0 and (e[4] == var or (e[4][0] == "cast" and e[4][4] == var)):
            return (-s_out, 1, 0) if k == 1 else None
        return None
    bits = gate._bits(e[2])
    d = gate.sval(e[4]) if e[1] == "sdiv" else e[4][2]
    if abs(d) != k:
        return None
    if d < 0:
        s_out = -s_out
    x = e[3]
    # x = s_in * a + c
    c, s_in = 0, 1
    if x[0] == "op" and x[1] == "add" and gate.is_c(x[4]):
        c, x = gate.sval(x[4]), x[3]
    elif x[0] == "op" and x[1] == "add" and gate.is_c(x[3]):
        c, x = gate.sval(x[3]), x[4]
    elif x[0] == "op" and x[1] == "sub" and gate.is_c(x[3]):
        c, x, s_in = gate.sval(x[3]), x[4], -1
    if x[0] == "op" and x[1] == "xor" and gate.is_c(x[4]) and x[4][2] == (1 << gate._bits(x[2])) - 1:
        # ~a == -a - 1
        c, x, s_in = c - s_in, x[3], -s_in
    if x[0] == "cast" and x[1] in ("sext", "zext"):
        x = x[4]
    if x != var:
        # nested constant adjustments, e.g. -1 + (1 - a): the numerator as an affine function of the dividend (same
        # reading as above: wrap-around of the bias is the UB lines' subject, not this one's)
        aff = iset.affine(e[3], var)
        if aff is None or aff[0] not in (1, -1):
            return None
        return (s_out, aff[0], aff[1])
    # trunc(y / k) with y = s_in*a + c: normalise a negative numerator: trunc(y/k) = -floor(-y/k)
    return (s_out, s_in, c)


def members(P, signed, lo, hi, k):
    """members of the operand set P (a union of intervals, possibly one residue class) covering two periods at each end
    and in the middle of [lo, hi]"""
    ivs = P.signed_intervals() if signed else sorted(P.ivs)
    out = set()
    def take(seq, limit):
        n = 0
        for a, b in seq:
            for x in (range(a, b + 1) if seq is ivs else range(b, a - 1, -1)):
                out.add(x)
                n += 1
                if n >= limit:
                    return
    take(ivs, 2 * k + 2)
    take(list(reversed(ivs)), 2 * k + 2)
    mid = (lo + hi) // 2
    n = 0
    for a, b in ivs:
        if b < mid:
            continue
        for x in range(max(a, mid), b + 1):
            out.add(x)
            n += 1
            if n >= 2 * k + 2:
                break
        if n >= 2 * k + 2:
            break
    return out


def same_on(f, g, lo, hi, K, P=None, signed=True):
    """are s_out*trunc((s_in*a+c)/k) forms f and g the same function of a on [lo,hi] (one sign region)?
    Decided on one full residue period at each end and in the middle: both are quasi-periodic with period k.
    With P given, only members of P are compared (LLVM may split a region by residue class: a leaf is then only
    claimed for the residues it is reached with)."""
    k = abs(K)
    def val(h, a):
        s_out, s_in, c = h
        return s_out * tdiv(s_in * a + c, k)
    pts = set()
    if P is not None and k <= 50000:
        pts = members(P, signed, lo, hi, k)
        return all(val(f, a) == val(g, a) for a in pts), next((a for a in sorted(pts) if val(f, a) != val(g, a)), None)
    if k <= 50000:
        for base in (lo, hi - 2 * k, (lo + hi) // 2):
            for a in range(max(lo, base), min(hi, base + 2 * k) + 1):
                pts.add(a)
    else:
        # few jumps: the neighbourhoods of every point where either numerator crosses a multiple of k
        if (hi - lo) // k > 5000:
            return True, None      # not judged (never generated: large divisors are used with narrow ranges only)
        for (s_out, s_in, c) in (f, g):
            y_lo, y_hi = sorted((s_in * lo + c, s_in * hi + c))
            m = y_lo // k - 1
            while m * k <= y_hi + k:
                a0 = (m * k - c) // s_in if s_in == 1 else -(m * k - c)
                for a in range(a0 - 2, a0 + 3):
                    if lo <= a <= hi:
                        pts.add(a)
                m += 1
        pts |= {lo, hi, min(hi, lo + 1), max(lo, hi - 1)}
    return all(val(f, a) == val(g, a) for a in pts), next((a for a in sorted(pts) if val(f, a) != val(g, a)), None)


def gen_lines(tier):
    L = []
    reps = [I8, I16, I32, I64] if tier == "quick" else [I8, U8, I16, U16, I32, U32, I64, U64]
    for mode in ("nearest", "tie", "native"):
        for A in reps:
            R = promote(A)
            Ks = [1, 2, 3, 4, 5, 7, 8, 10, 16, 100, A.max, -1, -2, -3, -4, -7, -8, -100, A.min] if A.signed else [1, 2, 3, 4, 5, 7, 8, 10, 16, 100, A.max]
            for K in Ks:
                if not (A.min <= K <= A.max):
                    continue
                ln = C06.Line("%s/%s/a/%d" % (mode, A.short, K), A, R, "return unwrap(wrap<%s>(a) / wrap<%s>(%s));" % (ri(A, mode), ri(A, mode), A.lit(K)), "return 0;", {},
                              meta=dict(mode=mode, K=K, A=A.short))
                L.append(ln)
    # operands of different signedness whose common type is signed and holds both ranges exactly (seeded change M-C08-7
    # skipped the sign tests whenever one operand type was unsigned): the same family argument, the divisor a constant of
    # the other type
    mixed = [(I8, U8), (U8, I8), (I32, U16), (U16, I32), (U32, I64), (I64, U32)]
    for mode in ("nearest", "tie"):
        for (A, B) in mixed:
            R = promote(uac(A, B))
            for K in ([3, 5, 6, 7, -3, -5, -7] if B.signed else [3, 5, 6, 7]):
                ln = C06.Line("%s/mixed/%s,%s/a/%d" % (mode, A.short, B.short, K), A, R, "return unwrap(wrap<%s>(a) / wrap<%s>(%s));" % (ri(A, mode), ri(B, mode), B.lit(K)), "return 0;", {},
                              meta=dict(mode=mode, K=K, A=A.short, B=B.short))
                L.append(ln)
                ln = C06.Line("%s/mixed-builtin-rhs/%s,%s/a/%d" % (mode, A.short, B.short, K), A, R, "return unwrap(wrap<%s>(a) / %s);" % (ri(A, mode), B.lit(K)), "return 0;", {},
                              meta=dict(mode=mode, K=K, A=A.short, B=B.short))
                L.append(ln)
    return L


def gen_ub_lines(tier):
    L = []
    reps = [I8, I32, U32, I64] if tier == "quick" else ALL64
    for mode in ("nearest", "tie", "neg_inf"):
        for A in reps:
            R = promote(A)
            Ks = [k for k in (1, 2, 3, A.max - 1, A.max, -1, -2, A.min, A.min + 1) if A.min <= k <= A.max and k != 0]
            for K in Ks:
                dom = ISet.full(A.bits)
                if A.signed and K == -1:
                    dom = dom - C06.mkset(A, A.min, A.min)       # lowest / -1 is excluded by the property
                ln = C06.Line("ub/%s/%s/a/%d" % (mode, A.short, K), A, R, "return unwrap(wrap<%s>(a) / wrap<%s>(%s));" % (ri(A, mode), ri(A, mode), A.lit(K)), "return 0;", {},
                              domain=dom, pre=(["a != std::numeric_limits<%s>::lowest()" % A.name] if (A.signed and K == -1) else []), meta=dict(mode=mode, K=K, A=A.short, side="rhs"))
                L.append(ln)
                dom = ISet.full(A.bits) - C06.mkset(A, 0, 0)
                pre = ["b != 0"]
                if A.signed and K == A.min:
                    dom = dom - C06.mkset(A, -1, -1)
                    pre.append("b != -1")
                ln = C06.Line("ub/%s/%s/%d/b" % (mode, A.short, K), A, R, "return unwrap(wrap<%s>(%s) / wrap<%s>(b));" % (ri(A, mode), A.lit(K), ri(A, mode)), "return 0;", {},
                              domain=dom, pre=pre, meta=dict(mode=mode, K=K, A=A.short, side="lhs"))
                L.append(ln)
    return L


def gen_eq(tier):
    obs, facts = [], []
    reps = [I8, U8, I32, U32, I64] if tier == "quick" else ALL64
    for cfg in ("clang",):
        for mode in TAGS:
            for A in reps:
                P = promote(A)
                W = ri(A, mode)
                par2 = [(A.name, "a"), (A.name, "b")]
                for op in ("+", "-", "*", "&", "|", "^"):
                    obs.append(kern.Ob("%s/other-ops/%s/%s%s" % (cfg, mode, A.short, op), P.name, par2, "return unwrap(wrap<%s>(a) %s wrap<%s>(b));" % (W, op, W), ["return a %s b;" % op], cfg=cfg))
                for op in ("==", "<", ">="):
                    obs.append(kern.Ob("%s/other-ops/%s/%s%s" % (cfg, mode, A.short, op), "bool", par2, "return wrap<%s>(a) %s wrap<%s>(b);" % (W, op, W), ["return a %s b;" % op], cfg=cfg))
                for k, pre in enumerate([["b != 0", "b != -1"]] if P.signed else [["b != 0"]]):
                    obs.append(kern.Ob("%s/other-ops/%s/%s%%#%d" % (cfg, mode, A.short, k), P.name, par2, "return unwrap(wrap<%s>(a) %% wrap<%s>(b));" % (W, W), ["return a % b;"], pre=pre, cfg=cfg))
                obs.append(kern.Ob("%s/other-ops/%s/-%s" % (cfg, mode, A.short), P.name, [(A.name, "a")], "return unwrap(-wrap<%s>(a));" % W, ["return -a;"], cfg=cfg))
                obs.append(kern.Ob("%s/other-ops/%s/%s<<" % (cfg, mode, A.short), P.name, [(A.name, "a"), ("int", "b")], "return unwrap(wrap<%s>(a) << b);" % W, ["return a << b;"], pre=["b >= 0", "b < %d" % P.bits], cfg=cfg))
                facts.append(factmod.Fact("type/%s/%s/" % (mode, A.short), "std::is_same_v<decltype(std::declval<%s>() / std::declval<%s>()), rounding_integer<%s, %s>>" % (W, W, P.name, TAGS[mode]), 1))
                if mode == "native":
                    for k, pre in enumerate([["b != 0", "b != -1"], ["b == -1", "(%s)a != std::numeric_limits<%s>::lowest()" % (P.name, P.name)]] if P.signed else [["b != 0"]]):
                        obs.append(kern.Ob("%s/native-div/%s#%d" % (cfg, A.short, k), P.name, par2, "return unwrap(wrap<%s>(a) / wrap<%s>(b));" % (W, W), ["return a / b;"], pre=pre, cfg=cfg))
                if mode == "neg_inf":
                    # floor division, textbook definition in terms of the truncating division
                    ref = "auto q = a / b; auto r = a % b; return (r != 0 && ((r < 0) != (b < 0))) ? q - 1 : q;"
                    for k, pre in enumerate([["b != 0", "b != -1"]] if P.signed else [["b != 0"]]):
                        obs.append(kern.Ob("%s/neg_inf-div/%s#%d" % (cfg, A.short, k), P.name, par2, "return unwrap(wrap<%s>(a) / wrap<%s>(b));" % (W, W), [ref], pre=pre, cfg=cfg,
                                           meta=dict(anchor="include/cnl/_impl/rounding/neg_inf_rounding_tag.h")))
    # mixed operand types: which divide is chosen must not depend on the operand types' signedness or rank (seeded change
    # M-C08-4 sent unsigned dividends to the truncating fallback): floor division in the usual-arithmetic-conversion type
    ref = "auto q = a / b; auto r = a % b; return (r != 0 && ((r < 0) != (b < 0))) ? q - 1 : q;"
    for cfg in ("clang",):
        for (A, B) in ([(U8, I8), (U16, I32), (U32, I64), (I8, U8), (I32, U16), (I64, U32), (U8, I32), (I16, I64)] if tier == "quick" else [(U8, I8), (U16, I32), (U32, I64), (I8, U8), (I32, U16), (I64, U32), (U8, I32), (I16, I64), (U16, I16), (U8, I64), (I32, I64), (I64, I32), (U32, U64), (U64, U32)]):
            P = uac(A, B)
            WA, WB = ri(A, "neg_inf"), ri(B, "neg_inf")
            for k, pre in enumerate([["b > 0"], ["b < -1"]]):       # the two sign pieces of the divisor: conjunctive pieces fold
                refs2 = ["%s x = a; %s y = b; auto q = x / y; auto r = x %% y; return (r != 0 && ((r < 0) != (y < 0))) ? q - 1 : q;" % (P.name, P.name)]
                if not A.signed:
                    # the same floor for a dividend known to be non-negative, in the shape LLVM gives it
                    refs2.append("%s x = a; %s y = b; if (y > 0 || x %% y == 0) return x / y; return -(x / -y) - 1;" % (P.name, P.name))
                obs.append(kern.Ob("%s/neg_inf-div/mixed/%s,%s#%d" % (cfg, A.short, B.short, k), P.name, [(A.name, "a"), (B.name, "b")], "return unwrap(wrap<%s>(a) / wrap<%s>(b));" % (WA, WB),
                                   refs2, pre=pre, cfg=cfg,
                                   meta=dict(anchor="include/cnl/_impl/rounding/neg_inf_rounding_tag.h (dispatch for mixed operand types)")))
                obs.append(kern.Ob("%s/neg_inf-div/mixed-builtin-rhs/%s,%s#%d" % (cfg, A.short, B.short, k), P.name, [(A.name, "a"), (B.name, "b")], "return unwrap(wrap<%s>(a) / b);" % WA,
                                   refs2, pre=pre, cfg=cfg))
    return obs, facts


FLOOR = {"quick": dict(eq=230, lines=280, ub=150), "thorough": dict(eq=400, lines=380, ub=350)}


def run(tier, seed, work):
    rng = random.Random(seed)
    r = report.Run(PROP, tier, seed, "other")
    nval = validate_closed_forms()
    obs, facts = gen_eq(tier)
    ctl, fctl = common.controls(), common.fact_controls()
    kern.run_obligations(work, obs + ctl)
    factmod.run_facts(work, facts + fctl)
    common.check_controls(r, ctl)
    common.check_fact_controls(r, fctl)
    n = common.settle_eq(r, obs)
    nf = common.settle_facts(r, facts)
    # ---- direction lines
    L = gen_lines(tier)
    ctlL = [C06.Line("control/wrong-bias", I32, I32, "return (a < 0 ? a - 2 : a + 2) / 3;", "return 0;", {}, meta=dict(mode="nearest", K=3, A="i32")),
            C06.Line("control/right-bias", I32, I32, "return (a < 0 ? a - 1 : a + 1) / 3;", "return 0;", {}, meta=dict(mode="nearest", K=3, A="i32"))]
    lobs = []
    for ln in L + ctlL:
        ob = kern.Ob(ln.key, ln.R.name, [(ln.F.name, "a")], ln.cnl, [], cfg="clang", kind="ir")
        ob.line = ln
        lobs.append(ob)
    U = gen_ub_lines(tier)
    uobs = []
    for ln in U:
        ob = kern.Ob(ln.key, ln.R.name, [(ln.F.name, ln.vname)], ln.cnl, [], pre=ln.pre, cfg="clang", mode="ub", kind="ir")
        ob.line = ln
        uobs.append(ob)
    kern.run_obligations(work, lobs + uobs, batch=30, second_chance=False)
    cnt = {"proved": 0, "refuted": 0, "undecided": 0}
    for ob in lobs:
        ln = ob.line
        if ob.status != "compiled":
            r.broke("%s: %s" % (ln.key, ob.detail))
            continue
        var = ("arg", 0, "i%d" % ln.F.bits)
        K, mode, A = ln.meta["K"], ln.meta["mode"], BY_SHORT[ln.meta["A"]]
        cf = closed_form(mode, K)
        try:
            g = gate.gated(ob.mod, ob.fn)
            parts = iset.leaves(g, var, ISet.full(ln.F.bits))
        except (gate.Unsupported, iset.Undecided, RecursionError) as e:
            ln.verdict, ln.details = "undecided", [str(e)[:200]]
            cnt["undecided"] += 1
            continue
        verdict, details = "proved", []
        regions = {"nonneg": C06.mkset(A, 0, A.max)}
        if A.signed:
            regions["neg"] = C06.mkset(A, A.min, -1)
        for D, leaf in parts:
            for rn, RS in regions.items():
                P = D & RS
                if not P:
                    continue
                ivs = P.signed_intervals() if A.signed else list(P.ivs)
                lo, hi = ivs[0][0], ivs[-1][1]
                if hi - lo < 4 * abs(K) + 4 and P.size() < 3:
                    continue        # a sliver (e.g. the most negative value alone): not judged by the family argument
                df = divform(leaf, var, K)
                if df is None:
                    if gate.is_c(leaf) and abs(K) > max(abs(lo), abs(hi)):
                        # |a| < |K|/..: constant quotient region; leave to the wider regions
                        pass
                    verdict = "undecided" if verdict == "proved" else verdict
                    details.append("dividend in %s: leaf %s is not of the bias-then-divide family" % (P.describe(A.signed), gate.show(leaf)[:100]))
                    continue
                ok, wit = same_on(df, cf[rn], lo, hi, K, P, A.signed)
                if not ok:
                    verdict = "refuted"
                    details.append("dividend in %s: the kernel computes %s, i.e. %d * trunc((%d*a %+d) / %d); %s rounding of a/%d demands %d * trunc((%d*a %+d) / %d) — they differ e.g. around a = %d" % (
                        P.describe(A.signed), gate.show(leaf)[:80], df[0], df[1], df[2], abs(K), mode, K, cf[rn][0], cf[rn][1], cf[rn][2], abs(K), wit))
        ln.verdict, ln.details = verdict, details
        ln.gk = gate.show(g)
        if ln.key.startswith("control/"):
            continue
        cnt[verdict] += 1
        if verdict == "refuted":
            r.violation(ln.key, "%s: `%s`: %s" % (ln.key, ln.cnl, "; ".join(details[:2])), {"key": ln.key, "cnl": ln.cnl, "details": details, "gated": ln.gk, "meta": ln.meta})
    if ctlL[0].verdict != "refuted" or ctlL[1].verdict != "proved":
        r.broke("direction controls: wrong bias -> %s (expected refuted), right bias -> %s (expected proved) %s" % (ctlL[0].verdict, ctlL[1].verdict, ctlL[0].details[:1] + ctlL[1].details[:1]))
    # ---- UB lines
    ucnt = {"proved": 0, "refuted": 0, "undecided": 0}
    for ob in uobs:
        ln = ob.line
        if ob.status != "compiled":
            r.broke("%s: %s" % (ln.key, ob.detail))
            continue
        var = ("arg", 0, "i%d" % ln.F.bits)
        try:
            g = gate.gated(ob.mod, ob.fn)
            parts = iset.leaves(g, var, ln.domain)
        except (gate.Unsupported, iset.Undecided, RecursionError) as e:
            if "ubsantrap" not in ob.fn_text:
                ucnt["proved"] += 1
            else:
                ucnt["undecided"] += 1
            continue
        bad = []
        for D, leaf in parts:
            if leaf[0] == "effect" and leaf[1] == "ubsantrap":
                bad.append("for the %s in %s an undefined step is executed (ubsan kind %s)" % ("dividend" if ln.meta["side"] == "rhs" else "divisor", D.describe(ln.F.signed), leaf[2][0][2]))
        if bad:
            ucnt["refuted"] += 1
            big = BY_SHORT[ln.meta["A"]].bits >= 32
            fk = "ub/%s/%s/%s" % (ln.meta["mode"], "int-or-wider" if big else "narrow", ln.meta["side"])
            r.violation(ln.key, "%s: `%s`: %s" % (ln.key, ln.cnl, "; ".join(bad[:2])), {"key": ln.key, "cnl": ln.cnl, "details": bad, "gated": gate.show(g), "meta": ln.meta, "finding_key": fk}, finding_key=fk)
        else:
            ucnt["proved"] += 1
    common.floor_check(r, "EQ kernel pairs proved", n["proved"], FLOOR[tier]["eq"])
    common.floor_check(r, "direction lines decided", cnt["proved"] + cnt["refuted"], FLOOR[tier]["lines"])
    common.floor_check(r, "UB lines decided", ucnt["proved"] + ucnt["refuted"], FLOOR[tier]["ub"])
    good = [ln for ln in L if ln.verdict == "proved"]
    und = [ln for ln in L if ln.verdict == "undecided"]
    r.coverage = {
        "explanation": "A: EQ of the non-division operators and native /. B: neg_inf / == textbook floor division (two free operands, EQ). C: with the divisor pinned, every leaf of the dividend's ite tree must be s_out*trunc((s_in*a+c)/|K|) with the offset the mode demands (closed forms validated against exact rational rounding, %d points, on every run). D: UB lines for the bias arithmetic. Rounding direction for two free operands (nearest, tie_to_pos_inf) is decided only along these lines." % nval,
        "evaluations": len(obs) + len(L) + len(U), "distinct_nontrivial": n["proved"] + cnt["proved"] + cnt["refuted"] + ucnt["proved"] + ucnt["refuted"],
        "rule": "non-trivial = EQ pair proved, or line fully decided",
        "eq_pairs": len(obs), "eq_proved": n["proved"], "type_facts_proved": nf["proved"],
        "direction_lines": len(L), "direction_proved": cnt["proved"], "direction_refuted": cnt["refuted"], "direction_undecided": cnt["undecided"],
        "ub_lines": len(U), "ub_proved": ucnt["proved"], "ub_refuted": ucnt["refuted"], "ub_undecided": ucnt["undecided"],
        "oracle_selfcheck_points": nval,
        "undecided_samples": [{"key": u.key, "why": u.details[:1]} for u in und[:6]], "undecided_keys": [u.key for u in und],
        "samples": [{"key": g.key, "cnl": g.cnl, "tree": g.gk[:200], "demanded": closed_form(g.meta["mode"], g.meta["K"])} for g in rng.sample(good, min(6, len(good)))],
        "exhaustive": False,
    }
    r.assumptions = ["b != 0, lowest / -1 excluded", "quotient representable"]
    return r.finish()


def replay(path, work):
    import json
    d = json.load(open(path))
    print(json.dumps({k: d[k] for k in ("key", "cnl", "details", "gated") if k in d}, indent=1))
    return 1
