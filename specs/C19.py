"""C19 — sqrt returns the floor of the square root at the result's resolution.

Decided:
 T    sqrt(elastic_integer<D>) has (D+1)/2 digits (and that many suffice: floor(sqrt(2^D - 1)) < 2^((D+1)/2));
      sqrt(scaled_integer<Rep, power<E>>) has exponent E/2 for every even E in [-60,60]; odd E does not compile (witnesses).
 CFG  both loops of the digit-by-digit algorithm terminate for every input of every 8..128-bit rep: scalar evolution gives
      a constant trip bound, or the shift ranking rule applies (the loop-carried value is only ever replaced by itself
      shifted right by >= 1 and the loop exits when it is 0 / no longer greater than a loop-invariant non-negative value).
 FLOW the operand does not reach the result only through a floating-point conversion that loses digits (then two operands
      with different roots would be indistinguishable: seeded change M-C19-7).
 UB   no shift-out-of-range survives in the compiled function for any rep width (the initial bit position).
Not decided: that the returned root is floor(sqrt(x)) (loop over run-time values), including root + bit at the top of the range.
"""
import random, re, os, math
from vlib import tc, kern, ir, facts as factmod, report
from vlib.cty import *
from . import common

PROP = "C19"
REPS = [I8, U8, I16, U16, I32, U32, I64, U64, I128, U128]


def gen_facts(tier):
    F = []
    for D in (range(1, 65) if tier == "thorough" else [1, 2, 3, 7, 8, 9, 15, 16, 17, 31, 32, 33, 62, 63, 64]):
        for N in ("int", "unsigned"):
            T = "elastic_integer<%d, %s>" % (D, N)
            want = (D + 1) // 2
            F.append(factmod.Fact("elastic/%d/%s/digits" % (D, N), "cnl::digits_v<decltype(cnl::sqrt(std::declval<%s>()))>" % T, None,
                                  judge=lambda v, D=D, want=want: None if (v == want and math.isqrt(2 ** D - 1) <= 2 ** v - 1) else "sqrt of %d digits declares %d digits; floor(sqrt(2^%d - 1)) = %d needs %d" % (D, v, D, math.isqrt(2 ** D - 1), math.isqrt(2 ** D - 1).bit_length())))
    for R in (I32, U32, I64, I16):
        for e in range(-60, 61, 2 if tier == "thorough" else 6):
            T = "scaled_integer<%s, power<%d>>" % (R.name, e)
            F.append(factmod.Fact("scaled/%s/e%d/exponent" % (R.short, e), "cnl::_impl::tag_of_t<decltype(cnl::sqrt(std::declval<%s>()))>::exponent" % T, e // 2))
            F.append(factmod.Fact("scaled/%s/e%d/rep-digits" % (R.short, e), "cnl::digits_v<cnl::_impl::rep_of_t<decltype(cnl::sqrt(std::declval<%s>()))>>" % T, None,
                                  judge=lambda v, R=R: None if v >= (R.digits + 1) // 2 else "result rep has %d digits, the root of a %d-digit value needs %d" % (v, R.digits, (R.digits + 1) // 2)))
    # the result keeps the operand's radix: r * Radix^(E/2) is the root only in the same radix (seeded change M-C19-4)
    for radix in (2, 3, 10):
        for R in (I32, I64):
            for e in (-6, -2, 0, 2, 4):
                T = "scaled_integer<%s, power<%d, %d>>" % (R.name, e, radix)
                F.append(factmod.Fact("scaled/%s/r%d/e%d/radix" % (R.short, radix, e), "cnl::_impl::tag_of_t<decltype(cnl::sqrt(std::declval<%s>()))>::radix" % T, radix))
                F.append(factmod.Fact("scaled/%s/r%d/e%d/exponent" % (R.short, radix, e), "cnl::_impl::tag_of_t<decltype(cnl::sqrt(std::declval<%s>()))>::exponent" % T, e // 2))
    return F


def witnesses():
    return [kern.Ob("witness/odd-exponent/%d" % e, "int", [("int", "a")], "return unwrap(cnl::sqrt(wrap<scaled_integer<int, power<%d>>>(a)));" % e, [], may_reject=True, kind="ir") for e in (-7, -1, 1, 3, 59)]


def loops_of(fn):
    """natural loops by back edges (DFS); returns list of (header, latch set, body blocks)"""
    succ = {}
    for lab in fn.order:
        t = fn.blocks[lab][-1] if fn.blocks[lab] else ""
        body = t.split("=", 1)[1].strip() if re.match(r"^%\S+\s*=", t) else t
        succ[lab] = [x[1:] for x in ir._successors(body)]
    color, back = {}, []

    def dfs(b):
        color[b] = 1
        for x in succ.get(b, []):
            if color.get(x) == 1:
                back.append((b, x))
            elif x not in color:
                dfs(x)
        color[b] = 2
    dfs(fn.order[0])
    pred = {}
    for a, ss in succ.items():
        for b in ss:
            pred.setdefault(b, []).append(a)
    loops = {}
    for latch, header in back:
        body, st = {header, latch}, [latch]
        while st:
            x = st.pop()
            if x == header:
                continue
            for p in pred.get(x, []):
                if p not in body:
                    body.add(p)
                    st.append(p)
        l = loops.setdefault(header, (set(), set()))
        l[0].add(latch)
        l[1].update(body)
    return [(h, v[0], v[1]) for h, v in loops.items()], succ


def ranking_rule(fn):
    """for each loop: (header, verdict, why)"""
    out = []
    loops, succ = loops_of(fn)
    defs = dict((m.group(1), (lab, m.group(2))) for lab in fn.order for l in fn.blocks[lab] for m in [re.match(r"^(%\S+)\s*=\s*(.*)$", l)] if m)
    for header, latches, body in loops:
        phis = [(m.group(1), m.group(3)) for l in fn.blocks[header] for m in [re.match(r"^(%\S+)\s*=\s*phi (\S+) (.*)$", l)] if m]
        ok, why = False, "no loop-carried value that is only ever shifted right"
        for name, inc in phis:
            entries = re.findall(r"\[\s*([^,\]]+),\s*%([^\s\]]+)\s*\]", inc)
            carried = [v.strip() for v, b in entries if b in body]
            if not carried:
                continue

            def shifted_of(v, depth=0):
                # v == phi >> c (c >= 1), possibly merged through inner phis/selects of the same shape
                if v not in defs or depth > 6:
                    return False
                d = defs[v][1]
                m = re.match(r"^(?:lshr|ashr)(?: exact)? \S+ (%\S+), (\d+)$", d)
                if m and int(m.group(2)) >= 1:
                    return m.group(1) == name or shifted_of(m.group(1), depth + 1)
                m = re.match(r"^phi \S+ (.*)$", d)
                if m:
                    vs = [x.strip() for x, b in re.findall(r"\[\s*([^,\]]+),\s*%([^\s\]]+)\s*\]", m.group(1))]
                    return all(shifted_of(x, depth + 1) or x == v for x in vs) and any(shifted_of(x, depth + 1) for x in vs)
                return False
            if not all(shifted_of(v) for v in carried):
                continue
            # some exit of the loop must test the carried value (or its shifted successor) against 0 or an invariant with >/>=
            exits = []
            for b in body:
                t = fn.blocks[b][-1] if fn.blocks[b] else ""
                m = re.match(r"^br i1 (%\S+), label %(\S+), label %(\S+)$", t)
                if m and (m.group(2) not in body or m.group(3) not in body):
                    exits.append(m.group(1))
            for c in exits:
                if c in defs:
                    d = defs[c][1]
                    m = re.match(r"^icmp (eq|ne|ugt|ult|sgt|slt|uge|ule|sge|sle) \S+ (\S+), (\S+)$", d)
                    if m:
                        ops = {m.group(2).rstrip(","), m.group(3)}
                        rel = {name} | set(carried)
                        if ops & rel:
                            ok, why = True, "value %s is replaced only by itself >> c (c >= 1) and the exit test `%s` involves it" % (name, d)
            if ok:
                break
        out.append((header, ok, why))
    return out


def scev_bounds(llpath):
    rc, so, se = tc.run([tc.OPT, "-disable-output", "-passes=print<scalar-evolution>", llpath])
    text = se + so
    res, cur = {}, None
    for ln in text.split("\n"):
        m = re.match(r"^Determining loop execution counts for: @(\w+)", ln)
        if m:
            cur = m.group(1)
            res.setdefault(cur, {})
            continue
        m = re.match(r"^Loop %(\S+): (?:constant )?max backedge-taken count is (.*)$", ln)
        if m and cur:
            res[cur][m.group(1)] = m.group(2).strip()
        m = re.match(r"^Loop %(\S+): Unpredictable (?:constant )?max backedge-taken count", ln)
        if m and cur:
            res[cur].setdefault(m.group(1), None)
    return res


# start-bit rule: the digit-by-digit algorithm must start from the largest power of four the type holds, 2^((digits-1) & ~1):
# lower and every operand above 2^(start+2) gets a wrong root, higher/odd and the first shift leaves the type or is not a
# power of four.  Built-in reps: the constant entering the first loop's carried value; multi-word reps: the constant
# count of the first operator<< call of sqrt<Integer> (call-site constant, -O1 -fno-inline).
WIDE = [("cnl::wide_integer<129, unsigned>", 129), ("cnl::wide_integer<191, int>", 191), ("cnl::wide_integer<200, unsigned>", 200),
        ("cnl::wide_integer<256, unsigned>", 256), ("cnl::wide_integer<300, int>", 300), ("cnl::wide_integer<1000, unsigned>", 1000)]


MANT = {"half": 11, "float": 24, "double": 53, "x86_fp80": 64, "fp128": 113}


def lossy_detour(fn, T):
    """Information-flow rule.  If every use of the operand in the compiled function is a conversion to a floating type with
    fewer significant bits than the operand type has digits (apart from comparisons that only feed llvm.assume), the result
    is a function of that rounded value alone.  Two operands that round to the same floating value but have different
    integer square roots then refute the property without any knowledge of what is done with the floating value.
    Returns None (rule does not apply) or (instruction, mantissa, x1, x2, r)."""
    if not fn.params:
        return None
    arg = "%0"
    lines = [l for lab in fn.order for l in fn.blocks[lab]]
    uses = [l for l in lines if re.search(r"(?<![\w.])%s(?![\w.])" % re.escape(arg), l.split("=", 1)[-1] if re.match(r"^%\S+\s*=", l) else l)]
    conv = None
    for l in uses:
        m = re.match(r"^(%\S+)\s*=\s*(?:sitofp|uitofp) i\d+ %0 to (\w+)$", l)
        if m and m.group(2) in MANT:
            if MANT[m.group(2)] >= T.digits:
                return None                      # an exact conversion: not decided here
            conv = (l, MANT[m.group(2)]) if conv is None or MANT[m.group(2)] > conv[1] else conv
            continue
        m = re.match(r"^(%\S+)\s*=\s*icmp \w+ i\d+ %0, -?\d+$", l)
        if m:
            v = m.group(1)
            others = [u for u in lines if u is not l and re.search(r"(?<![\w.])%s(?![\w.])" % re.escape(v), u)]
            if others and all("@llvm.assume" in u for u in others):
                continue
        return None                              # the operand is used in some other way: the rule does not apply
    if conv is None:
        return None
    mant = conv[1]

    def rn(x):                                   # round to nearest, ties to even, to `mant` significant bits
        k = x.bit_length() - mant
        if k <= 0:
            return x
        q, rem = x >> k, x & ((1 << k) - 1)
        half = 1 << (k - 1)
        if rem > half or (rem == half and (q & 1)):
            q += 1
        return q << k
    r0 = math.isqrt(T.max)
    for rr in range(r0, max(r0 - 100000, 1), -1):
        x2, x1 = rr * rr, rr * rr - 1
        if rn(x1) == rn(x2):
            return conv[0], mant, x1, x2, rr
    return None


def start_bit_builtin(fn, digits):
    """the first phi of the function with a constant incoming from the entry block"""
    entry = fn.order[0]
    for lab in fn.order:
        for l in fn.blocks[lab]:
            m = re.match(r"^(%\S+)\s*=\s*phi (i\d+) (.*)$", l)
            if m:
                for v, b in re.findall(r"\[\s*([^,\]]+),\s*%([^\s\]]+)\s*\]", m.group(3)):
                    if re.fullmatch(r"-?\d+", v.strip()):
                        c = int(v) % (1 << int(m.group(2)[1:]))
                        return c
    return None


def start_bit_wide(mod, dem, entry):
    """(count constant, sqrt instantiation) of the first operator<< call in the cnl::sqrt instantiation `entry` calls"""
    f0 = mod.functions[entry]
    callee = None
    for lab in f0.order:
        for l in f0.blocks[lab]:
            m = re.search(r"call [^@]*@([\w.$]+)\(", l)
            if m and dem.get(m.group(1), "").startswith("auto cnl::sqrt<"):
                callee = m.group(1)
    if callee is None or callee not in mod.functions:
        return None, None
    fn = mod.functions[callee]
    lines = [l for lab in fn.order for l in fn.blocks[lab]]
    for i, l in enumerate(lines):
        m = re.search(r"call [^@]*@([\w.$]+)\((.*)\)", l)
        if m and dem.get(m.group(1), "").startswith("auto cnl::_impl::operator<<"):
            args = [a.strip().split(" ")[-1] for a in ir._split_top(m.group(2))]
            cnt = args[-1]
            for back in reversed(lines[:i]):
                ms = re.match(r"^store i32 (-?\d+), i32\* %s\b" % re.escape(cnt), back)
                if ms:
                    return int(ms.group(1)), dem[callee]
                if re.match(r"^store \S+ %%\S+, i32\* %s\b" % re.escape(cnt), back):
                    return None, dem[callee]
            return None, dem[callee]
    return None, dem[callee]


def run(tier, seed, work):
    r = report.Run(PROP, tier, seed, "other")
    F = gen_facts(tier)
    fctl = common.fact_controls()
    factmod.run_facts(work, F + fctl)
    common.check_fact_controls(r, fctl)
    nf = common.settle_facts(r, F)
    W = witnesses()
    kern.run_obligations(work, W, batch=2)
    nw = 0
    for w in W:
        if w.status == "rejected":
            nw += 1
        elif w.status == "compiled":
            r.violation(w.key, "sqrt of a scaled_integer with an odd exponent compiles: the result exponent E/2 cannot denote the root", kern.ob_report(w))
        else:
            r.broke("%s: %s" % (w.key, w.detail))
    # termination + UB on the compiled algorithm, per rep
    src = tc.PRELUDE["clang"] + "".join('extern "C" %s sq_%s(%s x) { __builtin_assume(x >= 0); return cnl::sqrt(x); }\n' % (T.name, T.short, T.name) for T in REPS) + \
        'extern "C" int sq_control(int x) { int n = 0; while (x != 1) { x = (x & 1) ? 3 * x + 1 : x / 2; ++n; } return n; }\n'
    p = os.path.join(work, "sq.cpp")
    open(p, "w").write(src)
    out = os.path.join(work, "sq.ll")
    rc, so, se, cmd = tc.clang_ll(p, out, "ub")
    if rc != 0:
        raise tc.AnalysisBroken("sqrt TU does not compile: " + se[:1500])
    ubmod = ir.parse_module(open(out).read())
    # termination is judged on the plain release build (in the sanitized build a trapping overflow check of an unrelated
    # counter would itself bound the loop)
    out2 = os.path.join(work, "sq_rel.ll")
    rc, so, se, cmd = tc.clang_ll(p, out2, "eqr")
    if rc != 0:
        raise tc.AnalysisBroken("sqrt TU does not compile: " + se[:1500])
    mod = ir.parse_module(open(out2).read())
    bounds = scev_bounds(out2)
    nloops, nbounded, nranked, samples, nflow = 0, 0, 0, [], 0
    for T in REPS:
        fn = mod.functions.get("sq_" + T.short)
        if fn is None:
            r.broke("sqrt kernel for %s missing" % T.short)
            continue
        txt = fn.text()
        ubfn = ubmod.functions.get("sq_" + T.short)
        if ubfn is None:
            r.broke("sanitized sqrt kernel for %s missing" % T.short)
        elif "@llvm.ubsantrap(i8 20)" in ubfn.text():
            r.violation("ub/shift/" + T.short, "cnl::sqrt<%s>: an out-of-range shift is not excluded (the initial bit position or bit >>= 2)" % T.name, {"ir": txt})
        ld = lossy_detour(fn, T)
        nflow += 1
        if ld is not None:
            r.violation("lossy-detour/" + T.short, "cnl::sqrt<%s>: the operand reaches the result only through `%s` (%d significant bits for a %d-digit operand): %d and %d convert to the same floating value "
                        "(round to nearest) but their integer square roots are %d and %d, so the result is wrong for one of them whatever is computed from the converted value" % (
                            T.name, ld[0].strip(), ld[1], T.digits, ld[2], ld[3], ld[4] - 1, ld[4]), {"ir": txt, "x1": ld[2], "x2": ld[3]})
        rr = dict((h, (ok, why)) for h, ok, why in ranking_rule(fn))
        sb = bounds.get("sq_" + T.short, {})
        if not rr:
            r.broke("cnl::sqrt<%s>: no loop found in the compiled function (expected two)" % T.name)
        for h, (ok, why) in rr.items():
            nloops += 1
            b = sb.get(h)
            if b is not None:
                nbounded += 1
                samples.append({"rep": T.short, "loop": h, "scev_max_backedge_taken": b})
            elif ok:
                nranked += 1
                samples.append({"rep": T.short, "loop": h, "ranking": why})
            else:
                r.violation("loop/%s/%s" % (T.short, h), "cnl::sqrt<%s>: loop %s has neither a scalar-evolution bound nor the shift ranking function (%s): termination not established" % (T.name, h, why), {"ir": txt})
    cmod = ir.parse_module("define dso_local i64 @ctl(i64 noundef %0) local_unnamed_addr {\n1:\n  %2 = sitofp i64 %0 to double\n  %3 = tail call double @sqrt(double noundef %2)\n"
                           "  %4 = fptosi double %3 to i64\n  ret i64 %4\n}\n")
    if lossy_detour(cmod.functions["ctl"], I64) is None or lossy_detour(cmod.functions["ctl"], I32) is not None:
        r.broke("information-flow control: a square root taken through double was not reported for int64 (or was for int32)")
    # start-bit rule
    nstart = 0
    for T in REPS:
        fn = mod.functions.get("sq_" + T.short)
        if fn is None:
            continue
        c = start_bit_builtin(fn, T.digits)
        want = 1 << ((T.digits - 1) & ~1)
        if c is None:
            r.broke("cnl::sqrt<%s>: the constant entering the first loop was not found" % T.name)
        elif c != want:
            r.violation("start-bit/" + T.short, "cnl::sqrt<%s>: the algorithm starts from %d (2^%s) instead of the largest power of four of the type, 2^%d" % (T.name, c, c.bit_length() - 1 if c & (c - 1) == 0 else "?", (T.digits - 1) & ~1), {"ir": fn.text()})
        else:
            nstart += 1
    wsrc = tc.PRELUDE["clang"] + "using namespace cnl;\n" + "".join('extern "C" void sw_%d(%s const& x, %s* o) { *o = cnl::sqrt(x); }\n' % (i, t, t) for i, (t, d) in enumerate(WIDE))
    wp, wout = os.path.join(work, "sw.cpp"), os.path.join(work, "sw.ll")
    open(wp, "w").write(wsrc)
    rc, so, se, cmd = tc.clang_ll(wp, wout, "o1ni")
    if rc != 0:
        raise tc.AnalysisBroken("wide sqrt TU does not compile: " + se[:1500])
    wmod = ir.parse_module(open(wout).read())
    wdem = tc.demangle(list(wmod.functions) + [d[1:] for d in wmod.declares])
    for i, (t, d) in enumerate(WIDE):
        c, inst = start_bit_wide(wmod, wdem, "sw_%d" % i)
        want = (d - 1) & ~1
        if c is None:
            r.broke("cnl::sqrt<%s>: the count of the first shift was not found as a call-site constant (%s)" % (t, inst))
        elif c != want:
            r.violation("start-bit/" + t, "cnl::sqrt<%s>: the algorithm starts from bit %d instead of %d, the largest even position of a %d-digit type: roots of operands above 2^%d are wrong" % (t, c, want, d, c + 2), {"instantiation": inst})
        else:
            nstart += 1
    common.floor_check(r, "start-bit instances", nstart, len(REPS) + len(WIDE))
    cf = mod.functions.get("sq_control")
    if cf is not None:
        crr = ranking_rule(cf)
        csb = bounds.get("sq_control", {})
        if any(ok for h, ok, why in crr) or any(v is not None for v in csb.values()):
            r.broke("termination control (a Collatz loop) was accepted as terminating")
    common.floor_check(r, "type facts proved", nf["proved"], 60)
    common.floor_check(r, "odd-exponent witnesses rejected", nw, 5)
    common.floor_check(r, "loops with an established bound/ranking", nbounded + nranked, 16)
    r.coverage = {
        "explanation": "Result-type facts, compile-fail witnesses for odd exponents, termination of both loops for every rep (scalar evolution or the shift ranking rule), absence of out-of-range shifts, and the start-bit rule (the algorithm starts from the largest power of four of the type, for built-in and multi-word reps), and an information-flow rule (the operand must not reach the result only through a conversion to a floating type with fewer significant bits than the operand has digits). That the root is floor(sqrt(x)) is NOT decided.",
        "evaluations": len(F) + len(W) + nloops, "distinct_nontrivial": nf["proved"] + nw + nbounded + nranked,
        "rule": "non-trivial = proved type fact, rejected witness, loop with an established termination argument",
        "type_facts": len(F), "type_facts_proved": nf["proved"], "witnesses_rejected": nw, "loops": nloops, "loops_scev_bounded": nbounded, "loops_ranked": nranked, "start_bit_instances": nstart, "information_flow_instances": nflow,
        "samples": samples[:8], "exhaustive": False,
    }
    r.assumptions = ["x >= 0 (the function's own precondition)"]
    return r.finish()


def replay(path, work):
    import json
    print(json.dumps(json.load(open(path)), indent=1)[:3000])
    return 1
