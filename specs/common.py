"""Shared spec plumbing: run EQ obligations + facts with controls, fill in the report."""
import random, json
from vlib import tc, kern, facts as factmod, report
from vlib.cty import *


def controls(cfg="clang"):
    """positive controls: one pair that must be proved equal, one that must be reported different"""
    a = kern.Ob("control/equal", "int", [("int", "a"), ("int", "b")], "return a + b;", ["return b + a;"], cfg=cfg)
    b = kern.Ob("control/different", "int", [("int", "a"), ("int", "b")], "return a + b;", ["return a - b;"], cfg=cfg)
    c = kern.Ob("control/different-on-one-input", "int", [("int", "a"), ("int", "b")],
                "return a == 2147483647 ? a : a + 0 * b;", ["return a;", "return a == 2147483647 ? 0 : a;"][1:], cfg=cfg)
    return [a, b, c]


def check_controls(run, ctl):
    exp = {"control/equal": "proved", "control/different": "refuted", "control/different-on-one-input": "refuted"}
    for ob in ctl:
        if ob.status != exp[ob.key]:
            run.broke("positive control %s gave %s (expected %s): %s" % (ob.key, ob.status, exp[ob.key], ob.detail))


def fact_controls():
    return [factmod.Fact("control/fact-true", "sizeof(int)", 4), factmod.Fact("control/fact-false", "sizeof(int)", 5)]


def check_fact_controls(run, ctl):
    exp = {"control/fact-true": "proved", "control/fact-false": "refuted"}
    for f in ctl:
        if f.status != exp[f.key]:
            run.broke("fact control %s gave %s" % (f.key, f.status))


def settle_eq(run, obs, describe=None):
    """turn obligation statuses into violations / broken entries; returns counters"""
    n = {"proved": 0, "refuted": 0, "rejected": 0, "broken": 0}
    for ob in obs:
        n[ob.status if ob.status in n else "broken"] += 1
        if ob.status == "refuted":
            txt = (describe(ob) if describe else None) or ("kernel `%s` [%s] is not equivalent to its specification `%s`" % (ob.cnl, ob.key, " | ".join(ob.refs)))
            fk = ob.meta.get("finding_key") or ob.key
            run.violation(ob.key, txt, kern.ob_report(ob), finding_key=fk)
        elif ob.status == "rejected":
            pass
        elif ob.status != "proved":
            run.broke("%s: %s" % (ob.key, ob.detail))
    return n


def settle_facts(run, fs, describe=None):
    n = {"proved": 0, "refuted": 0, "rejected": 0, "broken": 0}
    for f in fs:
        st = f.status
        if st == "proved" and f.gcc_status == "refuted":
            st = "refuted"
        if st == "proved" and f.gcc_status == "broken":
            st = "broken"
        n[st if st in n else "broken"] += 1
        if st == "refuted":
            txt = (describe(f) if describe else None) or ("type fact %s: `%s` is %s, %s" % (f.key, f.expr, f.value, ("the oracle requires %s" % f.expect) if f.expect is not None else f.detail))
            run.violation(f.key, txt, {"key": f.key, "expr": f.expr, "value": f.value, "expect": f.expect, "decls": f.decls, "meta": f.meta},
                          finding_key=f.meta.get("finding_key") or f.key)
        elif st == "rejected":
            pass
        elif st != "proved":
            run.broke("fact %s: %s" % (f.key, f.detail))
    return n


def sample(rng, items, k):
    items = list(items)
    if len(items) <= k:
        return items
    return rng.sample(items, k)


def floor_check(run, what, got, floor):
    if got < floor:
        run.broke("%s: only %d, below the floor of %d confirmed on the pinned tree (rule instances vanished?)" % (what, got, floor))


def lit(v):
    """C++ literal of an operand bound (bounds beyond 64 bits are built in 128-bit arithmetic: a bare decimal literal that
    large is unsigned long long and its negation wraps)"""
    if -(1 << 63) < v < (1 << 63):
        return "%dLL" % v if v >= 0 else "(-%dLL)" % -v
    m = abs(v)
    e = "(((cnl::int128_t)%dULL << 64) | (cnl::int128_t)%dULL)" % (m >> 64, m & ((1 << 64) - 1))
    return e if v >= 0 else "(-%s)" % e


def limb_block(run, work, tag, src, plan, seed, floor, what):
    """decide limb-algebra obligations (vlib/limbalg.py): plan = [(key, text, fname, operands, result bits | None, spec)];
    a refuted obligation (concrete counterexample) is a violation, an undecided one is analysis-broken through the floor"""
    from vlib import limbalg as la
    # positive control: the first add-like job judged against the negated specification must be refuted
    res = la.run_plan(work, tag, src, [(j[2], j[3], j[4], j[5]) for j in plan], seed=seed)
    cnt = {"proved": 0, "refuted": 0, "undecided": 0}
    for (key, text, fname, opds, RW, spec), (v, d) in zip(plan, res):
        cnt[v if v in cnt else "undecided"] += 1
        if v == "refuted":
            ce = d.get("counterexample", {})
            run.violation(key, "%s does not agree with integer arithmetic modulo 2^%s: for limbs %s (least significant first) the result should be %s but the code computes %s"
                          % (text, d.get("result_bits"), ", ".join("%s=%#x" % kv for kv in sorted(ce.items())), hex(d.get("expected", 0)), hex(d.get("computed", 0))),
                          {"kernel": fname, "detail": d}, finding_key=key.rsplit("/", 1)[0])
        elif v != "proved":
            run.notes.append("note: limb obligation undecided: %s (%s)" % (key, d.get("why", "residue not discharged, no counterexample among the samples")))
    floor_check(run, what, cnt["proved"], floor)
    return cnt
