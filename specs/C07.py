"""C07 — checked arithmetic is total: no undefined behaviour or internal 'unreachable' on any operand.

The C06 lines are recompiled in UB mode (release build, every undefined operation instrumented as a sanitizer trap:
signed overflow, shift out of range, division by zero / lowest/-1, unreachable, invalid builtin argument).  A trap
that survives LLVM's range propagation is a leaf of the line's ite tree; the interval-set partition tells for which
values of the free operand that leaf is reached.  A trap leaf on a non-empty part of the admissible domain is a
definite undefined operation with an explicit operand set.  Whole-domain two-operand kernels are additionally required to contain no
trap at all where LLVM can discharge them (counted; never an alarm).
"""
import random, re
from vlib import tc, kern, gate, iset, report
from vlib.iset import ISet
from vlib.cty import *
from . import common
from . import C06

PROP = "C07"

UBKIND = {"0": "signed add overflow", "21": "signed sub overflow", "12": "signed mul overflow", "13": "negation overflow", "3": "division (zero or lowest/-1)",
          "20": "shift out of range", "1": "unreachable", "8": "invalid builtin argument"}


def gen(tier, rng):
    L = C06.gen(tier, rng)
    out = []
    for ln in L:
        if ln.meta.get("op") == "convert" and tier == "quick" and ln.tag != "sat":
            continue
        ln.mode = "ub"
        out.append(ln)
    # all non-negative shift counts (the property's domain), not only counts below the width
    for tag in ("sat", "thr"):
        for A in ([I8, I32, U32, I64] if tier == "quick" else ALL64):
            R = promote(A)
            for K in [0, 1, -1, A.max]:
                if not (A.min <= K <= A.max):
                    continue
                ln = C06.Line("clang/%s/%s<<int/anycount/lhs=%d" % (tag, A.short, K), I32, R,
                              "return unwrap(wrap<%s>(%s) << b);" % (C06.oi(A, tag), A.lit(K)), "return 0;", {}, domain=C06.mkset(I32, 0, I32.max), pre=["b >= 0"], tag=tag,
                              meta=dict(op="<<", A=A.short, K=K, side="lhs", anycount=True))
                ln.mode = "ub"
                out.append(ln)
            # counts of other types than int: a count that does not fit int must still be judged as the count it is
            # (seeded change M-C07-4 truncated it to int inside the overflow test)
            for CT_ in ([U32, I64] if tier == "quick" else [U32, I64, U64, U8, I16]):
                for K in ([1, A.max] if A in (I32, U32, I64) else []):
                    dom = C06.mkset(CT_, 0, CT_.max)
                    ln = C06.Line("clang/%s/%s<<%s/anycount/lhs=%d" % (tag, A.short, CT_.short, K), CT_, R,
                                  "return unwrap(wrap<%s>(%s) << b);" % (C06.oi(A, tag), A.lit(K)), "return 0;", {}, domain=dom, pre=(["b >= 0"] if CT_.signed else []), tag=tag,
                                  meta=dict(op="<<", A=A.short, K=K, side="lhs", anycount=True, count_type=CT_.short))
                    ln.mode = "ub"
                    out.append(ln)
            for K in [1, -1]:
                if not (A.min <= K <= A.max):
                    continue
                ln = C06.Line("clang/%s/%s>>int/anycount/lhs=%d" % (tag, A.short, K), I32, R,
                              "return unwrap(wrap<%s>(%s) >> b);" % (C06.oi(A, tag), A.lit(K)), "return 0;", {}, domain=C06.mkset(I32, 0, I32.max), pre=["b >= 0"], tag=tag,
                              meta=dict(op=">>", A=A.short, K=K, side="lhs", anycount=True))
                ln.mode = "ub"
                out.append(ln)
    return out


def whole_domain(tier):
    """two free operands: the IR must contain no trap at all (where LLVM can show it); undecided otherwise"""
    obs = []
    pairs = [(I32, I32), (U32, U32), (I64, I64), (I8, I8), (I32, I64), (U8, U32)] if tier == "quick" else [(a, b) for a in ALL64 for b in ALL64 if a.signed == b.signed]
    for cfg in ("clang", "gcc"):
        for tag in ("sat", "trap"):
            for (A, B) in pairs:
                for op, pre in (("+", []), ("-", []), ("*", []), ("/", ["b != 0"])):
                    obs.append(kern.Ob("%s/whole/%s/%s%s%s" % (cfg, tag, A.short, op, B.short), uac(A, B).name, [(A.name, "a"), (B.name, "b")],
                                       "return unwrap(wrap<%s>(a) %s wrap<%s>(b));" % (C06.oi(A, tag), op, C06.oi(B, tag)), [], pre=pre, cfg=cfg, mode="ub", kind="ir"))
                obs.append(kern.Ob("%s/whole/%s/%s<<int" % (cfg, tag, A.short), promote(A).name, [(A.name, "a"), ("int", "b")],
                                   "return unwrap(wrap<%s>(a) << b);" % C06.oi(A, tag), [], pre=["b >= 0", "b < %d" % promote(A).bits], cfg=cfg, mode="ub", kind="ir"))
                obs.append(kern.Ob("%s/whole/%s/-%s" % (cfg, tag, A.short), promote(A).name, [(A.name, "a")], "return unwrap(-wrap<%s>(a));" % C06.oi(A, tag), [], cfg=cfg, mode="ub", kind="ir"))
    return obs


FLOOR = {"quick": dict(lines=3000, whole=60), "thorough": dict(lines=10500, whole=300)}


def run(tier, seed, work):
    rng = random.Random(seed)
    r = report.Run(PROP, tier, seed, "other")
    L = gen(tier, rng)
    ctl_ub = C06.Line("control/ub-add", I32, I32, "return a + 5;", "return 0;", {})
    ctl_ok = C06.Line("control/guarded-add", I32, I32, "return a > 2147483647 - 5 ? 2147483647 : a + 5;", "return 0;", {})
    for c in (ctl_ub, ctl_ok):
        c.mode = "ub"
    obs = []
    for ln in L + [ctl_ub, ctl_ok]:
        ob = kern.Ob(ln.key, ln.R.name, [(ln.F.name, ln.vname)], ln.cnl, [], pre=ln.pre, cfg=ln.cfg, mode="ub", kind="ir")
        ob.line = ln
        obs.append(ob)
    wobs = whole_domain(tier)
    kern.run_obligations(work, obs + wobs, batch=30, second_chance=False)
    cnt = {"proved": 0, "refuted": 0, "undecided": 0, "broken": 0}
    for ob in obs:
        ln = ob.line
        if ob.status != "compiled":
            ln.verdict, ln.details = "broken", [ob.detail]
            continue
        var = ("arg", 0, "i%d" % ln.F.bits)
        try:
            g = gate.gated(ob.mod, ob.fn)
            parts = iset.leaves(g, var, ln.domain)
        except (gate.Unsupported, iset.Undecided, RecursionError) as e:
            # fall back: no trap anywhere in the function is also a proof
            if "ubsantrap" not in ob.fn_text:
                ln.verdict, ln.details = "proved", []
            else:
                ln.verdict, ln.details = "undecided", [str(e)[:200]]
            continue
        bad = []
        ln.badsets = []
        for D, leaf in parts:
            if (leaf[0] == "effect" and leaf[1] == "ubsantrap") or leaf == gate.UNDEF:
                ln.badsets.append(D)
            if leaf[0] == "effect" and leaf[1] == "ubsantrap":
                kind = leaf[2][0][2]
                bad.append("for the free operand in %s the operation executes an undefined step: %s" % (D.describe(ln.F.signed), UBKIND.get(kind, "ubsan kind " + kind)))
            elif leaf == gate.UNDEF:
                bad.append("for the free operand in %s control reaches an unreachable point" % D.describe(ln.F.signed))
        ln.verdict, ln.details = ("refuted", bad) if bad else ("proved", [])
        ln.gk = gate.show(g)
    if ctl_ub.verdict != "refuted" or ctl_ok.verdict != "proved":
        r.broke("UB line controls: unchecked add -> %s (expected refuted), guarded add -> %s (expected proved)" % (ctl_ub.verdict, ctl_ok.verdict))
    for ln in L:
        cnt[ln.verdict] += 1
        if ln.verdict == "refuted":
            sg = lambda t: "-" if not t else ("s" if t.startswith("i") else "u")
            fk = "%s/%s/%s%s/ub%s" % (ln.cfg, ln.meta.get("op"), sg(ln.meta.get("A")), sg(ln.meta.get("B")), "/anycount" if ln.meta.get("anycount") else "")
            if ln.meta.get("op") in ("<<", ">>") and ln.meta.get("A") in BY_SHORT:
                # which shifts: count below the width of the promoted left operand or not; left operand zero or not
                width = promote(BY_SHORT[ln.meta["A"]]).bits
                bs = getattr(ln, "badsets", [])
                allbad = ISet.empty(ln.F.bits)
                for D in bs:
                    allbad = allbad | D
                ivs = allbad.signed_intervals() if ln.F.signed else list(allbad.ivs)
                K = ln.meta.get("K")
                if ln.meta.get("side") == "lhs":        # left operand pinned, count free
                    cc = "oversize" if ivs and min(a for a, b in ivs) >= width else "inrange"
                    lc = "zero" if K == 0 else "nonzero"
                else:                                   # count pinned, left operand free
                    cc = "oversize" if K is not None and K >= width else "inrange"
                    lc = "zero" if ivs and all(a == 0 and b == 0 for a, b in ivs) else "nonzero"
                fk += "/count-%s/lhs-%s" % (cc, lc)
            r.violation(ln.key, "%s: `%s`: %s" % (ln.key, ln.cnl, "; ".join(ln.details[:2])),
                        {"key": ln.key, "cnl": ln.cnl, "cfg": ln.cfg, "details": ln.details, "gated": getattr(ln, "gk", None), "meta": ln.meta, "finding_key": fk}, finding_key=fk, sampled=bool(ln.meta.get("sampled")))
        elif ln.verdict == "broken":
            r.broke("%s: %s" % (ln.key, ln.details[:1]))
    wn = {"clean": 0, "residual": 0, "broken": 0}
    wres = []
    for ob in wobs:
        if ob.status != "compiled":
            wn["broken"] += 1
            r.broke("%s: %s" % (ob.key, ob.detail))
            continue
        kinds = re.findall(r"@llvm\.ubsantrap\(i8 (\d+)\)", ob.fn_text)
        if kinds:
            wn["residual"] += 1
            wres.append({"key": ob.key, "undischarged": sorted(set(UBKIND.get(k, k) for k in kinds))})
        else:
            wn["clean"] += 1
    common.floor_check(r, "lines decided", cnt["proved"] + cnt["refuted"], FLOOR[tier]["lines"])
    common.floor_check(r, "whole-domain kernels with every undefined step discharged", wn["clean"], FLOOR[tier]["whole"])
    good = [ln for ln in L if ln.verdict == "proved" and getattr(ln, "gk", None)]
    r.coverage = {
        "explanation": "Lines (one operand pinned, the other free over its whole admissible domain) compiled with every undefined operation instrumented as a trap; a trap leaf of the ite tree on a non-empty operand set is a definite undefined operation. Two-operand kernels: zero surviving traps where LLVM's range analysis can discharge them (otherwise undecided, never an alarm). Both detection paths.",
        "evaluations": len(L) + len(wobs), "distinct_nontrivial": cnt["proved"] + cnt["refuted"] + wn["clean"],
        "rule": "non-trivial = fully decided line or whole-domain kernel with all traps discharged",
        "lines": len(L), "lines_proved": cnt["proved"], "lines_refuted": cnt["refuted"], "lines_undecided": cnt["undecided"],
        "whole_domain_kernels": len(wobs), "whole_domain_clean": wn["clean"], "whole_domain_with_undischarged_traps": wn["residual"],
        "undischarged_samples": wres[:10],
        "samples": [{"key": g.key, "cnl": g.cnl, "tree": g.gk[:300]} for g in rng.sample(good, min(6, len(good)))],
        "exhaustive": False,
    }
    r.assumptions = ["divisor != 0, shift count >= 0 (the property's own exclusions)", "clang's sanitizer instrumentation marks every undefined integer operation of the kinds listed"]
    return r.finish()


def replay(path, work):
    import json
    d = json.load(open(path))
    print(json.dumps({k: d[k] for k in ("key", "cnl", "details", "gated") if k in d}, indent=1))
    return 1
