"""C11 — static_integer and static_number are never silently wrong.

T:   static_integer / static_number are the documented compositions; results of + - * / keep both tags and have the
     digit counts the C05 interval oracle requires; deduced types of make_static_integer / make_static_number.
CG:  must-pass-through on the -O0 call graph: from the public operator an overflow-tag custom_operator is reached, from
     it an elastic_tag one, from it the rounding tag's (for /: the tag's own divide), from it the wide_tag one; a
     narrowing static_number assignment reaches the rounding convert and the overflow-checked convert.
EQ:  single-word expression chains ((a*b)+c, (a+b)*c, a*b-c*d) == plain arithmetic in the result rep.
LINE: narrowing assignment under saturated / throwing / trapping tags: clamp / signal exactly outside the declared
     range, plain inside, for every source value; precision-losing static_number assignment: the rounded value
     (closed form validated against rational rounding) inside, the bound / signal outside.
"""
import random, re, os
from vlib import tc, kern, gate, iset, lines, ir, facts as factmod, report
from vlib.iset import ISet
from vlib.cty import *
from . import common, C06, C08
from .C05 import hull, erange

PROP = "C11"
RT = {"nearest": "nearest_rounding_tag", "tie": "tie_to_pos_inf_rounding_tag", "neg_inf": "neg_inf_rounding_tag", "native": "native_rounding_tag"}
OT = {"sat": "saturated_overflow_tag", "thr": "cnl::_impl::throwing_overflow_tag", "trap": "trapping_overflow_tag", "native": "native_overflow_tag", "undef": "undefined_overflow_tag"}


def si(D, r="nearest", o="sat", n="int"):
    return "cnl::_impl::static_integer<%d, %s, %s, %s>" % (D, RT[r], OT[o], n)


def sn(D, E, r="nearest", o="sat", n="int"):
    return "static_number<%d, %d, %s, %s, %s>" % (D, E, RT[r], OT[o], n)


HELP = """template<class T> using c11_ov_tag = cnl::_impl::tag_of_t<T>;
template<class T> using c11_el = cnl::_impl::rep_of_t<T>;
template<class T> using c11_rd = cnl::_impl::rep_of_t<c11_el<T>>;
template<class T> using c11_rd_tag = cnl::_impl::tag_of_t<c11_rd<T>>;
template<class T> using c11_wd = cnl::_impl::rep_of_t<c11_rd<T>>;"""


def gen_facts(tier):
    F = []
    digs = [1, 7, 8, 15, 16, 31, 32, 63, 64, 100] if tier == "quick" else [1, 2, 7, 8, 9, 15, 16, 17, 31, 32, 33, 63, 64, 65, 100, 127, 200]
    for D in digs:
        for r in ("nearest", "neg_inf"):
            for o in ("sat", "undef"):
                for n in ("int", "std::int8_t", "unsigned"):
                    T = si(D, r, o, n)
                    F.append(factmod.Fact("alias/%d/%s/%s/%s" % (D, r, o, n),
                                          "std::is_same_v<%s, overflow_integer<elastic_integer<%d, rounding_integer<wide_integer<digits_v<%s>, %s>, %s>>, %s>>" % (T, D, n, n, RT[r], OT[o]), 1, may_reject=D > 64))
                    F.append(factmod.Fact("alias-number/%d/%s/%s/%s" % (D, r, o, n), "std::is_same_v<%s, scaled_integer<%s, power<-3>>>" % (sn(D, -3, r, o, n), T), 1, may_reject=D > 64))
    # storage: the innermost representation must have room for the declared digits plus the sign bit, in particular when the
    # digits need multi-word storage and are an exact multiple of the limb size (seeded change M-C11-1)
    sdigs = [31, 32, 63, 64, 96, 127, 128, 129, 160, 192, 200, 256] if tier == "quick" else list(range(120, 136)) + [31, 32, 63, 64, 96, 160, 192, 200, 224, 256, 320, 512, 1000]
    for D in sdigs:
        for n in ("int", "unsigned", "std::int8_t", "std::int64_t"):
            sg = 0 if n == "unsigned" else 1
            for T, nm in ((si(D, "nearest", "sat", n), "static_integer"), ("wide_integer<%d, %s>" % (D, n), "wide_integer"), ("elastic_integer<%d, wide_integer<31, %s>>" % (D, n), "elastic-over-wide")):
                if nm == "elastic-over-wide" and n != "int":
                    continue
                F.append(factmod.Fact("storage/%s/%d/%s/bits" % (nm, D, n), "(long long)sizeof(decltype(unwrap(std::declval<%s>()))) * CHAR_BIT" % T, None, may_reject=True,
                                      judge=lambda v, D=D, sg=sg: None if v >= D + sg else "the innermost representation has %d bits; %d digits%s need %d" % (v, D, " plus a sign bit" if sg else "", D + sg),
                                      meta=dict(anchor="include/cnl/_impl/wide-integer.h make_uintwide; wide_tag/definition.h")))
                F.append(factmod.Fact("storage/%s/%d/%s/max-positive" % (nm, D, n), "(std::numeric_limits<%s>::max() > %s{0})" % (T, T), 1, may_reject=True))
                if sg:
                    F.append(factmod.Fact("storage/%s/%d/%s/lowest-negative" % (nm, D, n), "(std::numeric_limits<%s>::lowest() < %s{0})" % (T, T), 1, may_reject=True))
    # limits: the declared range is the N-digit one whatever storage the narrowest type leads to (seeded change M-C11-4 got
    # the shift count wrong when the rep has whole unused narrowest-widths above the digits); single-word digit counts, so
    # that the value is a plain constant
    ldigs = [7, 8, 15, 16, 20, 23, 24, 31, 32, 40, 47, 55, 62, 63] if tier == "quick" else list(range(1, 64))
    for D in ldigs:
        for n, sg in (("int", 1), ("std::int8_t", 1), ("std::int16_t", 1), ("std::int64_t", 1), ("unsigned", 0), ("std::uint8_t", 0), ("std::uint16_t", 0)):
            W = "wide_integer<%d, %s>" % (D, n)
            if D < 63 or sg:
                F.append(factmod.Fact("limits/wide/%d/%s/max" % (D, n), "(long long)cnl::unwrap(std::numeric_limits<%s>::max())" % W, 2 ** D - 1, may_reject=True,
                                      meta=dict(anchor="include/cnl/_impl/wide_integer/numeric_limits.h")))
            F.append(factmod.Fact("limits/wide/%d/%s/lowest" % (D, n), "(long long)cnl::unwrap(std::numeric_limits<%s>::lowest())" % W, -(2 ** D) if sg else 0, may_reject=True))
            if sg:
                T = si(D, "nearest", "sat", n)
                F.append(factmod.Fact("limits/static_integer/%d/%s/max" % (D, n), "(long long)cnl::unwrap(std::numeric_limits<%s>::max())" % T, 2 ** D - 1, may_reject=True))
                F.append(factmod.Fact("limits/static_integer/%d/%s/lowest" % (D, n), "(long long)cnl::unwrap(std::numeric_limits<%s>::lowest())" % T, -(2 ** D - 1), may_reject=True))
    pairs = [(a, b) for a in digs for b in digs if a <= 64 and b <= 64]
    if tier == "quick":
        pairs = [(7, 7), (15, 15), (15, 7), (31, 31), (31, 32), (32, 63), (8, 1), (1, 64), (63, 63), (16, 17), (64, 64), (63, 64)]
    k = 0
    for (L, R) in pairs:
        for r in ("nearest", "tie"):
            for o in ("sat", "thr"):
                A, B = si(L, r, o), si(R, r, o)
                for op in ("+", "-", "*", "/"):
                    k += 1
                    tn = "c11_t%d" % k
                    decl = [HELP, "using %s = decltype(std::declval<%s>() %s std::declval<%s>());" % (tn, A, op, B)]
                    H = hull(op, erange(L, True), erange(R, True))
                    need = max(abs(H[0]), abs(H[1])).bit_length()
                    F.append(factmod.Fact("op/%d%s%d/%s/%s/digits" % (L, op, R, r, o), "cnl::digits_v<%s>" % tn, None, decls=decl, may_reject=True,
                                          judge=lambda v, need=need, H=H: None if v >= need else "result declares %d digits, exact results span [%d, %d] (%d needed)" % (v, H[0], H[1], need)))
                    F.append(factmod.Fact("op/%d%s%d/%s/%s/overflow-tag-kept" % (L, op, R, r, o), "std::is_same_v<c11_ov_tag<%s>, %s>" % (tn, OT[o]), 1, decls=decl, may_reject=True))
                    F.append(factmod.Fact("op/%d%s%d/%s/%s/rounding-tag-kept" % (L, op, R, r, o), "std::is_same_v<c11_rd_tag<%s>, %s>" % (tn, RT[r]), 1, decls=decl, may_reject=True))
    # static_number: exponent algebra through the composite
    for (D1, E1, D2, E2) in [(15, -4, 15, -4), (15, -4, 7, -8), (31, 0, 15, -15), (20, 5, 10, -3)]:
        A, B = sn(D1, E1), sn(D2, E2)
        for op, e in (("+", min(E1, E2)), ("-", min(E1, E2)), ("*", E1 + E2), ("/", E1 - E2)):
            F.append(factmod.Fact("number/%d@%d%s%d@%d/exponent" % (D1, E1, op, D2, E2), "cnl::_impl::tag_of_t<decltype(std::declval<%s>() %s std::declval<%s>())>::exponent" % (A, op, B), e))
    # deductions
    for T in (I8, U8, I16, I32, U32, I64):
        F.append(factmod.Fact("make_static_integer/%s" % T.short, "std::is_same_v<decltype(cnl::_impl::make_static_integer(std::declval<%s>())), %s>" % (T.name, si(T.digits, "nearest", "undef", "int")), 1))
        F.append(factmod.Fact("make_static_number/%s" % T.short, "std::is_same_v<decltype(cnl::make_static_number(std::declval<%s>())), %s>" % (T.name, sn(T.digits, 0, "nearest", "undef", "int")), 1))
    return F


# ---------------------------------------------------------------- call graph
CG_KERNELS = [
    ("add/sat", "int", [("int", "a"), ("int", "b")], "return unwrap(wrap<%s>(a) + wrap<%s>(b));" % (si(15), si(15)), "binary", "add_op", "sat", "nearest"),
    ("mul/thr", "int", [("int", "a"), ("int", "b")], "return unwrap(wrap<%s>(a) * wrap<%s>(b));" % (si(15, "tie", "thr"), si(15, "tie", "thr")), "binary", "multiply_op", "thr", "tie"),
    ("sub/trap", "int", [("int", "a"), ("int", "b")], "return unwrap(wrap<%s>(a) - wrap<%s>(b));" % (si(20, "neg_inf", "trap"), si(9, "neg_inf", "trap")), "binary", "subtract_op", "trap", "neg_inf"),
    ("div/sat", "int", [("int", "a"), ("int", "b")], "return unwrap(wrap<%s>(a) / wrap<%s>(b));" % (si(15), si(15)), "binary", "divide_op", "sat", "nearest"),
    ("div/number", "int", [("int", "a"), ("int", "b")], "return unwrap(wrap<%s>(a) / wrap<%s>(b));" % (sn(15, -4, "tie", "sat"), sn(15, -2, "tie", "sat")), "binary", "divide_op", "sat", "tie"),
    ("add/wide", "cnl::int128_t", [("cnl::int128_t", "a"), ("cnl::int128_t", "b")], "return unwrap(wrap<%s>(a) + wrap<%s>(b));" % (si(100), si(100)), "binary", "add_op", "sat", "nearest"),
    ("narrow/number", "int", [("int", "a")], "%s x = wrap<%s>(a); return unwrap(x);" % (sn(15, -4), sn(23, -12)), "convert", None, "sat", "nearest"),
    ("narrow/integer", "int", [("int", "a")], "%s x = wrap<%s>(a); return unwrap(x);" % (si(7), si(15)), "convert-int", None, "sat", "nearest"),
    # positive control: an elastic_integer without the overflow layer must NOT satisfy the chain
    ("control/no-overflow-layer", "int", [("int", "a"), ("int", "b")], "return unwrap(wrap<elastic_integer<15, rounding_integer<int, nearest_rounding_tag>>>(a) + wrap<elastic_integer<15, rounding_integer<int, nearest_rounding_tag>>>(b));", "binary", "add_op", "sat", "nearest"),
]


def split_targs(s):
    """top-level template arguments of the first template-id in s"""
    i = s.find("<")
    if i < 0:
        return []
    depth, cur, out = 0, [], []
    for ch in s[i:]:
        if ch == "<":
            depth += 1
            if depth == 1:
                continue
        elif ch == ">":
            depth -= 1
            if depth == 0:
                out.append("".join(cur).strip())
                break
        elif ch == "," and depth == 1:
            out.append("".join(cur).strip())
            cur = []
            continue
        cur.append(ch)
    return out


def op_tags(dn):
    """for `cnl::custom_operator<Op, op_value<T1,Tag1>, op_value<T2,Tag2>>::operator()` return (Op, [Tag1, Tag2])"""
    if not dn.startswith("cnl::custom_operator<") or "::operator()" not in dn:
        return None
    a = split_targs(dn)
    if not a:
        return None
    tags = []
    for x in a[1:]:
        if x.startswith("cnl::op_value<"):
            t = split_targs(x)
            tags.append(t[1] if len(t) > 1 else "cnl::_impl::native_tag")
    return a[0], tags


def call_graph(work):
    src = tc.PRELUDE["clang"] + "using namespace cnl;\n"
    for i, (key, ret, params, body, *_r) in enumerate(CG_KERNELS):
        src += 'extern "C" %s cg%d(%s) { %s }\n' % (ret, i, ", ".join("%s %s" % p for p in params), body)
    p = os.path.join(work, "cg.cpp")
    open(p, "w").write(src)
    out = os.path.join(work, "cg.ll")
    rc, so, se, cmd = tc.clang_ll(p, out, "o0g")
    if rc != 0:
        raise tc.AnalysisBroken("call-graph TU does not compile: " + se[:2000])
    mod = ir.parse_module(open(out).read())
    dem = tc.demangle(list(mod.functions))
    edges = {}
    for n, fn in mod.functions.items():
        cs = set()
        for lab in fn.order:
            for l in fn.blocks[lab]:
                for m in re.finditer(r"(?:call|invoke)\s[^@]*@([\w.$]+)\(", l):
                    if m.group(1) in mod.functions:
                        cs.add(m.group(1))
        edges[n] = cs
    return mod, dem, edges


def reach(edges, start):
    seen, st = set(), [start]
    while st:
        x = st.pop()
        for y in edges.get(x, ()):
            if y not in seen:
                seen.add(y)
                st.append(y)
    return seen


def check_chain(dem, edges, start, stages):
    """stages: list of (description, predicate(demangled name)); returns (ok, trace, failed stage)"""
    frontier = {start}
    trace = []
    for stage in stages:
        desc, pred = stage[0], stage[1]
        if pred is None:
            # unordered: every listed predicate must be satisfied by some function reachable from the frontier
            R = set()
            for f in frontier:
                R |= reach(edges, f)
            for q in stage[2]:
                hit = [g for g in R if q(dem.get(g, g))]
                if not hit:
                    return False, trace, desc
                trace.append((desc, dem[sorted(hit)[0]][:200]))
            continue
        nxt = set()
        for f in frontier:
            for g in reach(edges, f) | ({f} if f != start else set()):
                if pred(dem.get(g, g)):
                    nxt.add(g)
        if not nxt:
            return False, trace, desc
        trace.append((desc, dem[sorted(nxt)[0]][:200]))
        frontier = nxt
    return True, trace, None


def stages_for(kind, op, o, r):
    ot, rt = OT[o].replace("cnl::_impl::", ""), RT[r]

    def layer(tagpred, opname=None):
        def p(dn):
            t = op_tags(dn)
            if not t:
                return False
            if opname and not t[0].endswith(opname):
                return False
            return any(tagpred(x) for x in t[1])
        return p
    if kind == "binary":
        st = [("overflow layer: custom_operator<%s, op_value<_, %s>...>" % (op, ot), layer(lambda x: x.endswith(ot), op)),
              ("elastic layer: custom_operator<%s, op_value<_, elastic_tag<..>>...>" % op, layer(lambda x: x.startswith("cnl::elastic_tag<"), op))]
        if op == "divide_op":
            # only division has a rounding-tag specific operator; the other operators of a rounding tag are the native ones
            st.append(("rounding layer: custom_operator<divide_op, op_value<_, %s>...>" % rt, layer(lambda x: x.endswith(rt), op)))
        st.append(("wide layer: custom_operator<%s, op_value<_, wide_tag<..>>...>" % op, layer(lambda x: x.startswith("cnl::wide_tag<"), op)))
        return st
    if kind == "convert":
        # both conversions must be reachable from the assignment (their nesting order in the call graph is not the temporal order)
        return [("rounding conversion and overflow-checked conversion", None,
                 [layer(lambda x: x.endswith(rt), "convert_op"), layer(lambda x: x.endswith(ot), "convert_op")])]
    if kind == "convert-int":
        return [("overflow-checked conversion: custom_operator<convert_op, ..., op_value<_, %s>>" % ot, layer(lambda x: x.endswith(ot), "convert_op"))]


# ---------------------------------------------------------------- EQ chains and lines
def gen_eq():
    obs = []
    A = si(15, "nearest", "sat")
    rng3 = ["a >= -32767", "a <= 32767", "b >= -32767", "b <= 32767", "c >= -32767", "c <= 32767"]
    p3 = [("int", "a"), ("int", "b"), ("int", "c")]
    for o in ("sat", "thr", "native"):
        T = si(15, "nearest", o)
        obs.append(kern.Ob("chain/(a*b)+c/%s" % o, "decltype(unwrap(std::declval<%s>() * std::declval<%s>() + std::declval<%s>()))" % (T, T, T), p3,
                           "return unwrap(wrap<%s>(a) * wrap<%s>(b) + wrap<%s>(c));" % (T, T, T), ["return a * b + c;", "return (long)a * b + c;"], pre=rng3))
        obs.append(kern.Ob("chain/(a+b)*c/%s" % o, "decltype(unwrap((std::declval<%s>() + std::declval<%s>()) * std::declval<%s>()))" % (T, T, T), p3,
                           "return unwrap((wrap<%s>(a) + wrap<%s>(b)) * wrap<%s>(c));" % (T, T, T), ["return (a + b) * c;", "return ((long)a + b) * c;"], pre=rng3))
        obs.append(kern.Ob("chain/a*b-c*a/%s" % o, "decltype(unwrap(std::declval<%s>() * std::declval<%s>() - std::declval<%s>() * std::declval<%s>()))" % (T, T, T, T), p3,
                           "return unwrap(wrap<%s>(a) * wrap<%s>(b) - wrap<%s>(c) * wrap<%s>(a));" % (T, T, T, T), ["return a * b - c * a;", "return (long)a * b - (long)c * a;"], pre=rng3))
        N = sn(15, -4, "nearest", o)
        obs.append(kern.Ob("chain/number/(a*b)+c/%s" % o, "decltype(unwrap(std::declval<%s>() * std::declval<%s>() + std::declval<%s>()))" % (N, N, N), p3,
                           "return unwrap(wrap<%s>(a) * wrap<%s>(b) + wrap<%s>(c));" % (N, N, N), ["return a * b + c * 16;", "return (long)a * b + (long)c * 16;"], pre=rng3))
        for op in ("<", "==", ">="):
            obs.append(kern.Ob("cmp/%s/%s" % (op, o), "bool", [("int", "a"), ("int", "b")], "return wrap<%s>(a) %s wrap<%s>(b);" % (T, op, si(7, "nearest", o)), ["return a %s b;" % op], pre=rng3[:2] + ["b >= -127", "b <= 127"]))
    return obs


def gen_lines(tier):
    L = []
    for o in ("sat", "thr", "trap"):
        for (Ds, Dd) in ([(15, 7), (31, 15), (40, 31)] if tier == "quick" else [(15, 7), (31, 15), (40, 31), (8, 7), (63, 1), (31, 30)]):
            F = I32 if Ds <= 31 else I64
            Rr = I32 if Dd <= 31 else I64
            lim_s, lim_d = 2 ** Ds - 1, 2 ** Dd - 1
            dom = C06.mkset(F, -lim_s, lim_s)
            z = C06.lines.zones_monotone(lambda a: a, -lim_s, lim_s, -lim_d, lim_d, 1)
            zones = dict((k, (C06.mkset(F, *v) if v else None, v)) for k, v in z.items())
            ln = C06.Line("narrow-int/%s/%d->%d" % (o, Ds, Dd), F, Rr, "%s x = wrap<%s>(a); return unwrap(x);" % (si(Dd, "nearest", o), si(Ds, "nearest", o)), "return (%s)a;" % Rr.name,
                          zones, domain=dom, pre=["a >= -%d" % lim_s, "a <= %d" % lim_s], tag=o, exact=lambda a: a, meta=dict(bounds=(-lim_d, lim_d)))
            L.append(ln)
        # precision-losing static_number assignment: round by the mode, then check
        for r in ("nearest", "tie", "neg_inf"):
            for (Ds, Es, Dd, Ed) in ([(23, -12, 15, -4), (30, -10, 12, -7)] if tier == "quick" else [(23, -12, 15, -4), (30, -10, 12, -7), (20, -8, 15, -4), (31, -16, 8, 0)]):
                k = Ed - Es
                K = 1 << k
                lim_s, lim_d = 2 ** Ds - 1, 2 ** Dd - 1
                f = lambda a, r=r, K=K: C08.rround(a, K, r)
                dom = C06.mkset(I32, -lim_s, lim_s)
                z = C06.lines.zones_monotone(f, -lim_s, lim_s, -lim_d, lim_d, 1)
                zones = dict((kk, (C06.mkset(I32, *v) if v else None, v)) for kk, v in z.items())
                h = K // 2
                ref = {"nearest": "return (a + (a < 0 ? -%d : %d)) / %d;" % (h, h, K), "tie": "return (a + %d) >> %d;" % (h, k), "neg_inf": "return a >> %d;" % k}[r]
                ln = C06.Line("narrow-number/%s/%s/%d@%d->%d@%d" % (o, r, Ds, Es, Dd, Ed), I32, I32, "%s x = wrap<%s>(a); return unwrap(x);" % (sn(Dd, Ed, r, o), sn(Ds, Es, r, o)), ref,
                              zones, domain=dom, pre=["a >= -%d" % lim_s, "a <= %d" % lim_s], tag=o, exact=f, meta=dict(bounds=(-lim_d, lim_d), mode=r, k=k))
                L.append(ln)
    return L


FLOOR = {"quick": dict(facts=230, cg=8, eq=20, lines=18, limb=5), "thorough": dict(facts=2500, cg=8, eq=20, lines=30, limb=5)}


def limb_plan(tier):
    """MULTI-LIMB values of the composite types (limb algebra, DESIGN 2.5b): static_integer<D> with D > 128 is elastic over a
    multi-limb wide_integer; a + b, a - b (and one product) widen and then operate, so the result's representation is
    sval(a) op sval(b) modulo 2^(result width), for all limb values"""
    from vlib import limbalg as la
    src, plan, k = tc.PRELUDE["clang"], [], 0

    def W(D, L=32):
        return -(-(D + 1) // L) * L
    for (Da, Db, ops) in ((200, 200, ("add", "sub")), (150, 200, ("add", "mul")), (129, 140, ("sub",))):
        A, B = "cnl::static_integer<%d>" % Da, "cnl::static_integer<%d>" % Db
        for op in ops:
            sym = {"add": "+", "sub": "-", "mul": "*"}[op]
            f = "nk%d" % k
            k += 1
            src += 'extern "C" auto %s(%s a, %s b) { return a %s b; }\n' % (f, A, B, sym)
            Wa, Wb = W(Da), W(Db)

            def spec(cx, v, RW, op=op, Wa=Wa, Wb=Wb):
                a, b = la.sval(cx, v[0], Wa), la.sval(cx, v[1], Wb)
                return la.pmul(a, b) if op == "mul" else la.padd(a, b, 1 if op == "add" else -1)
            plan.append(("limb/%s/static_integer<%d>,<%d>" % (op, Da, Db), "static_integer<%d> %s static_integer<%d>" % (Da, sym, Db), f, [("a", Wa, 32), ("b", Wb, 32)], None, spec))
    return src, plan


def run(tier, seed, work):
    rng = random.Random(seed)
    r = report.Run(PROP, tier, seed, "other")
    C08.validate_closed_forms()
    F = gen_facts(tier)
    fctl = common.fact_controls()
    factmod.run_facts(work, F + fctl, batch=150)
    common.check_fact_controls(r, fctl)
    nf = common.settle_facts(r, F)
    # call graph
    mod, dem, edges = call_graph(work)
    cg_ok, cg_samples = 0, []
    for i, (key, ret, params, body, kind, op, o, rr) in enumerate(CG_KERNELS):
        ok, trace, failed = check_chain(dem, edges, "cg%d" % i, stages_for(kind, op, o, rr))
        if key.startswith("control/"):
            if ok:
                r.broke("call-graph control: a composition without an overflow layer satisfied the overflow stage")
            continue
        if ok:
            cg_ok += 1
            cg_samples.append({"kernel": key, "chain": trace})
        else:
            r.violation("cg/" + key, "call graph of `%s`: no path from the public operator reaches the %s (reached so far: %s) — a layer of the composition is skipped" % (body, failed, [t[0] for t in trace]),
                        {"kernel": key, "body": body, "failed_stage": failed, "trace": trace})
    # EQ
    obs = gen_eq()
    ctl = common.controls()
    kern.run_obligations(work, obs + ctl, batch=8)
    common.check_controls(r, ctl)
    n = common.settle_eq(r, obs)
    # lines
    L = gen_lines(tier)
    lobs = []
    for ln in L:
        ob = kern.Ob(ln.key, ln.R.name, [(ln.F.name, "a")], ln.cnl, [ln.ref], pre=ln.pre, kind="line")
        ob.line = ln
        lobs.append(ob)
    kern.run_obligations(work, lobs, batch=8, second_chance=False)
    lc = {"proved": 0, "refuted": 0, "undecided": 0}
    for ob in lobs:
        ln = ob.line
        if ob.status != "compiled":
            r.broke("%s: %s" % (ln.key, ob.detail))
            continue
        var = ("arg", 0, "i%d" % ln.F.bits)
        try:
            gk, gr = gate.gated(ob.mod, ob.fn), gate.gated(ob.mod, ob.ref_fns[0])
        except (gate.Unsupported, RecursionError) as e:
            lc["undecided"] += 1
            continue
        lo, hi = ln.meta["bounds"]
        exp = {"sat": {"high": ("const", hi), "low": ("const", lo)}, "thr": {"high": ("throw", "positive"), "low": ("throw", "negative")}, "trap": {"high": ("trap", "positive"), "low": ("trap", "negative")}}[ln.tag]
        zsets = dict((k, v[0]) for k, v in ln.zones.items())
        okj = None
        if "mode" in ln.meta:
            K_, mode_ = 1 << ln.meta["k"], ln.meta["mode"]
            cf_ = C08.closed_form(mode_, K_)

            def okj(leaf, Q, K_=K_, cf_=cf_, var=var):
                runs = Q.signed_intervals()
                lo_, hi_ = runs[0][0], runs[-1][1]
                if (lo_ < 0) != (hi_ < 0) and not (lo_ < 0 <= hi_ and False):
                    return None
                rn = "nonneg" if lo_ >= 0 else "neg"
                df = C08.divform(leaf, var, K_, (lo_, hi_))
                if df is None:
                    return None
                ok_, wit = C08.same_on(df, cf_[rn], lo_, hi_, K_, Q, True)
                return ("proved", "") if ok_ else ("refuted", "the assignment computes %s; %s rounding of a/%d demands %s; they differ around a = %s" % (gate.show(leaf)[:80], mode_, K_, cf_[rn], wit))
        v, d = C06.decide_sets(gk, gr, var, ln.domain, zsets, exp, True, ln.R.bits, ln.exact, okj)
        lc[v] += 1
        ln.verdict, ln.gk = v, gate.show(gk)
        if v == "refuted":
            fk = ln.key
            if "mode" in ln.meta and ln.meta["mode"] in ("nearest", "tie"):
                # deviation class: every failing source value lies within the rounding bias 2^(k-1) of the limits of the
                # source rep, and the deviation is the wrong polarity (bound or signal): the bias addition wrapped
                half = 1 << (ln.meta["k"] - 1)
                lim = 1 << (ln.F.bits - 1)
                bad = [t for c, t in d if c != "undecided"]
                nums = [int(x) for t in bad for x in re.findall(r"-?\d+", t.split("free operand in", 1)[1].split(":", 1)[0])] if all("free operand in" in t for t in bad) else []
                codes = set(c for c, t in d if c != "undecided")
                if nums and all(abs(n) >= lim - half - 1 for n in nums) and codes <= {"high:wrong-signal", "low:wrong-signal", "high:wrong-bound", "low:wrong-bound"}:
                    fk = "narrow/%s/bias-wraps-near-source-limit" % ln.meta["mode"]
            r.violation(ln.key, "%s: `%s`: %s" % (ln.key, ln.cnl, "; ".join(t for c, t in d if c != "undecided")[:400]), {"key": ln.key, "cnl": ln.cnl, "details": d, "gated": ln.gk, "finding_key": fk}, finding_key=fk)
        elif v == "undecided":
            r.notes.append("undecided %s: %s" % (ln.key, [t for c, t in d][:1]))
    common.floor_check(r, "type facts judged", nf["proved"] + nf["refuted"], FLOOR[tier]["facts"])
    common.floor_check(r, "call-graph chains established", cg_ok, FLOOR[tier]["cg"])
    common.floor_check(r, "EQ chains proved", n["proved"], FLOOR[tier]["eq"])
    common.floor_check(r, "lines decided", lc["proved"] + lc["refuted"], FLOOR[tier]["lines"])
    lsrc, lplan = limb_plan(tier)
    lcnt = common.limb_block(r, work, "c11limb", lsrc, lplan, seed, FLOOR[tier]["limb"], "multi-limb static_integer obligations proved")
    r.coverage = {
        "multi_limb_obligations": len(lplan), "multi_limb_proved": lcnt["proved"], "multi_limb_refuted": lcnt["refuted"], "multi_limb_undecided": lcnt["undecided"],
        "explanation": "Type facts on the composition and its results; must-pass-through of the four layers on the -O0 call graph; IR equivalence of three-operation chains with plain arithmetic; narrowing assignments decided for every source value by the line engine (bounds / signals exactly outside the declared range, rounded value inside). Multi-limb values, rounding direction of / (C08) and chains longer than three operations are not decided.",
        "evaluations": len(F) + len(CG_KERNELS) + len(obs) + len(L), "distinct_nontrivial": nf["proved"] + cg_ok + n["proved"] + lc["proved"] + lc["refuted"],
        "rule": "non-trivial = judged type fact, established call chain, proved EQ chain, decided line",
        "type_facts": len(F), "type_facts_proved": nf["proved"], "type_facts_rejected_by_library": nf["rejected"],
        "call_chains": cg_ok, "eq_chains": len(obs), "eq_proved": n["proved"], "lines": len(L), "lines_proved": lc["proved"], "lines_refuted": lc["refuted"], "lines_undecided": lc["undecided"],
        "samples": cg_samples[:3] + [{"key": ln.key, "cnl": ln.cnl, "tree": getattr(ln, "gk", "")[:300]} for ln in L[:3]],
        "exhaustive": False,
    }
    r.assumptions = ["operands within the declared range of their static type"]
    return r.finish()


def replay(path, work):
    import json
    print(json.dumps(json.load(open(path)), indent=1)[:3000])
    return 1
