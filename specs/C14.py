"""C14 — text output denotes the value.  Decided clause (the property's last sentence only):
to_string, to_chars_static and operator<< (scaled_integer, 128-bit integers) produce their text by calling cnl::to_chars on
the same value and handing on its [first, ptr) unchanged; no other number formatter is reachable from them.

Rules on the -O1 -fno-inline IR (every CNL function still a function):
 R1 from each entry point a function of the cnl::to_chars family is reachable;
 R2 no other number-formatting routine is reachable (ostream arithmetic inserters, std::to_chars, std::to_string,
    (v)s(n)printf, ostream::_M_insert<>);
 R3 in every to_chars_static<Base,T>: the value parameter itself is the value argument of the to_chars call, the buffer
    arguments are the result's own array and array + capacity, and the stored length is computed from the returned ptr;
 R4 the entry points pass the static result's characters (pointer derived from the to_chars_static result object) to the
    string constructor / the character inserter.
 R5 (sign and magnitude clause, the structural part of it) in every cnl::to_chars<Rep, Exponent, Radix> the working
    significand type handed to descale<Significand, 10> represents every value of Rep: at least as many digits, and
    signed if Rep is.  A narrower or differently-signed working type makes some Rep value print as a different number
    (wrong sign for the upper half of an unsigned 64-bit Rep), so breaking R5 breaks the property; R5 holding does not
    establish it.
 R6 (first sentence, structural part) the digit generator to_chars_natural peels digits with value / base and
    value % base; for a wrapper whose own division rounds (nearest, tie_to_pos_inf, neg_inf) that quotient must be the
    truncating one: no division operator of a non-native rounding mode is reachable from any to_chars_natural
    instantiation the integer entry points reach.  (With a rounding quotient the remainders leave [0, base) and
    characters outside the digit alphabet are written.)
 R7 (the rescaling mechanism produces a result at all) every cycle of every loop of every cnl::_impl::descale
    instantiation the entry points reach makes progress (vlib/idle.py): a cycle that neither stores nor changes a
    loop-carried value is taken forever once it is taken twice.  Necessary for termination, not sufficient.
 R8 (exactness clause, structural part) descale scales the significand up by the output radix while "there is room"
    (its local predicate oob); a room test that is the constant true for some significand type means the significand
    is never scaled up and every fractional digit is dropped (constant false: it overflows).  No oob predicate of any
    descale instantiation reached may be a constant function.
 R9 (first sentence, one step of the digit generator) in every to_chars_natural<T> for a built-in T the value handed to
    the recursive call is value / base, and the character stored is itoc(value mod base) — written either as a remainder
    or as value - (value / base) * base — both in T's own signedness; itoc is the digit alphabet 0-9a-z on all 36 digit
    values.  (That the recursion then produces the canonical numeral is the usual induction; the induction itself is
    not mechanised.)
Not decided: digit generation, truncation direction, exponent after rescaling (loops over run-time digits).
"""
import re, os
from vlib import tc, ir, report
from . import common

PROP = "C14"

SRC = tc.PRELUDE["clang"] + """using namespace cnl;
extern "C" void e_string_s32(scaled_integer<int, power<-8>> const& v, std::string* o) { *o = cnl::to_string(v); }
extern "C" void e_string_s64(scaled_integer<std::int64_t, power<-20>> const& v, std::string* o) { *o = cnl::to_string(v); }
extern "C" void e_string_es(elastic_scaled_integer<20, power<-10>> const& v, std::string* o) { *o = cnl::to_string(v); }
extern "C" void e_stream_s32(std::ostream* o, scaled_integer<int, power<-8>> const& v) { *o << v; }
extern "C" void e_stream_u16(std::ostream* o, scaled_integer<std::uint16_t, power<3>> const& v) { *o << v; }
extern "C" void e_stream_i128(std::ostream* o, cnl::int128_t const& v) { using cnl::operator<<; *o << v; }
extern "C" void e_stream_u128(std::ostream* o, cnl::uint128_t const& v) { using cnl::operator<<; *o << v; }
extern "C" void e_static_i32(int const& v, char* o) { auto r = cnl::to_chars_static(v); o[0] = r.chars[0]; }
extern "C" void e_static_s32(scaled_integer<int, power<-8>> const& v, char* o) { auto r = cnl::to_chars_static(v); o[0] = r.chars[0]; }
// positive control: an entry point that formats with the standard library must be reported by R2
extern "C" void e_control(std::ostream* o, int const& v) { *o << v; }
"""

# R5 instances: (C++ spelling of Rep, digits, is_signed); the demangled spelling of built-in working types is in SIGTYPES
REPS = [("std::int8_t", 7, True), ("std::uint8_t", 8, False), ("std::int16_t", 15, True), ("std::uint16_t", 16, False), ("std::int32_t", 31, True),
        ("std::uint32_t", 32, False), ("std::int64_t", 63, True), ("std::uint64_t", 64, False), ("long long", 63, True), ("unsigned long long", 64, False),
        ("cnl::int128_t", 127, True), ("cnl::uint128_t", 128, False),
        ("cnl::elastic_integer<31>", 31, True), ("cnl::elastic_integer<63>", 63, True), ("cnl::elastic_integer<64, unsigned>", 64, False),
        ("cnl::elastic_integer<63, unsigned>", 63, False),
        ("cnl::wide_integer<64, unsigned>", 64, False), ("cnl::wide_integer<63>", 63, True), ("cnl::wide_integer<128, unsigned>", 128, False)]
SIGTYPES = {"signed char": (7, True), "unsigned char": (8, False), "char": (7, True), "short": (15, True), "unsigned short": (16, False), "int": (31, True), "unsigned int": (32, False),
            "long": (63, True), "unsigned long": (64, False), "long long": (63, True), "unsigned long long": (64, False), "__int128": (127, True), "unsigned __int128": (128, False)}
R5_SRC = "".join('extern "C" void r5_%d(scaled_integer<%s, power<%d>> const& v, char* f, char* l, std::to_chars_result* o) { *o = cnl::to_chars(f, l, v); }\n' % (i, rep, (-3, 0, -40)[i % 3])
                 for i, (rep, d, sg) in enumerate(REPS))
# positive control for R5: a hand-written formatter that narrows a 64-bit unsigned value into the signed working type
R5_SRC += 'extern "C" void r5_control(std::uint64_t const& v, cnl::_impl::descaled<std::int64_t, 10>* o) { *o = cnl::_impl::descale<std::int64_t, 10>(v, power<-3>{}); }\n'


R6_REPS = ["cnl::rounding_integer<int, cnl::nearest_rounding_tag>", "cnl::rounding_integer<long long, cnl::tie_to_pos_inf_rounding_tag>",
           "cnl::rounding_integer<int, cnl::neg_inf_rounding_tag>", "cnl::rounding_integer<std::uint16_t, cnl::nearest_rounding_tag>",
           "cnl::static_integer<20>", "cnl::static_integer<40, cnl::tie_to_pos_inf_rounding_tag>", "cnl::static_integer<100>",
           "cnl::elastic_integer<20>", "cnl::overflow_integer<int, cnl::saturated_overflow_tag>", "int", "cnl::int128_t"]
R6_SRC = "".join('extern "C" void r6_%d(%s const& v, char* f, char* l, std::to_chars_result* o) { *o = cnl::to_chars(f, l, v); }\n' % (i, rep) for i, rep in enumerate(R6_REPS))
R6_SRC += 'extern "C" void r6_static(cnl::static_integer<20> const& v, char* o) { auto r = cnl::to_chars_static(v); o[0] = r.chars[0]; }\n'
# positive control: a division that does round must be recognised by the forbidden-callee pattern
R6_SRC += 'extern "C" void r6_control(cnl::rounding_integer<int, cnl::nearest_rounding_tag> const& v, cnl::rounding_integer<int, cnl::nearest_rounding_tag>* o) { *o = v / 10; }\n'
R6_ROUNDING = re.compile(r"divide_op.*(nearest_rounding_tag|tie_to_pos_inf_rounding_tag|neg_inf_rounding_tag)|(nearest_rounding_tag|tie_to_pos_inf_rounding_tag|neg_inf_rounding_tag).*divide_op")


def _split_targs(s):
    """top-level template arguments of `name<...>`"""
    depth, cur, out = 0, "", []
    for ch in s:
        if ch in "<(":
            depth += 1
        if ch in ">)":
            depth -= 1
        if ch == "," and depth == 0:
            out.append(cur.strip())
            cur = ""
        else:
            cur += ch
    out.append(cur.strip())
    return out


def r5_judge(dn, rep_digits, rep_signed):
    """dn: demangled `auto cnl::_impl::descale<Significand, 10, ...>(Rep const&, cnl::power<..>)`; None if fine"""
    m = re.match(r"^auto cnl::_impl::descale<(.*)>\((.*)\)$", dn)
    if not m:
        raise tc.AnalysisBroken("descale instantiation not recognised: " + dn[:200])
    sig = _split_targs(m.group(1))[0]
    param = _split_targs(m.group(2))[0]
    param = re.sub(r"\s*const&$", "", param).strip()
    if sig == param:
        return None, sig
    if sig not in SIGTYPES:
        raise tc.AnalysisBroken("working significand type `%s` is neither the Rep nor a built-in integer: extend SIGTYPES" % sig)
    d, sg = SIGTYPES[sig]
    if d < rep_digits or (rep_signed and not sg):
        return "the working significand type `%s` (%d digits, %s) cannot represent every value of the Rep `%s` (%d digits, %s)" % (
            sig, d, "signed" if sg else "unsigned", param, rep_digits, "signed" if rep_signed else "unsigned"), sig
    return None, sig


# R7 instances: positive and negative exponents, built-in and wide significands, both radices the property names
R7_SRC = "".join('extern "C" void r7_%d(scaled_integer<%s, power<%d, %d>> const& v, char* f, char* l, std::to_chars_result* o) { *o = cnl::to_chars(f, l, v); }\n' % (i, rep, e, rx)
                 for i, (rep, e, rx) in enumerate([("std::int64_t", 3, 2), ("std::int64_t", 40, 2), ("int", 1, 2), ("std::uint64_t", 10, 2), ("cnl::int128_t", 5, 2), ("std::int64_t", -3, 2),
                                                   ("std::int64_t", -70, 2), ("cnl::uint128_t", -20, 2), ("int", 2, 10), ("int", -2, 10), ("std::int16_t", 7, 3)]))
# positive control: a loop with a path that changes nothing
R7_SRC += 'extern "C" long r7_control(long const& v) { long s = v; for (int n = 3; n != 0;) { if (s % 10 == 0) { s /= 10; continue; } if (s < 1000) { s *= 2; --n; } } return s; }\n'


R9_TYPES = [("std::int8_t", 8, True), ("std::uint8_t", 8, False), ("std::int16_t", 16, True), ("std::uint16_t", 16, False), ("int", 32, True), ("unsigned", 32, False),
            ("long long", 64, True), ("unsigned long long", 64, False), ("cnl::int128_t", 128, True), ("cnl::uint128_t", 128, False)]
# R10: the magnitude of a negative value handed to the digit generator is computed in a type that holds it: for signed
# types narrower than int, to_chars_non_zero<T> must call to_chars_positive on the PROMOTED -value (an int), never on T
# (seeded change M-C14-6: static_cast<number>(-value) maps -128 back to -128)
R10_TYPES = [("std::int8_t", "signed char"), ("std::int16_t", "short")]
R10_SRC = "".join('extern "C" std::to_chars_result r10_%d(char* p, char* l, %s v) { return cnl::to_chars(p, l, v); }\n' % (i, t) for i, (t, _) in enumerate(R10_TYPES))
R9_SRC = "".join('extern "C" char* r9_%d(char* p, char* l, %s const& v, int b) { return cnl::_impl::to_chars_natural(p, l, v, b); }\n' % (i, t) for i, (t, w, sg) in enumerate(R9_TYPES))


def r9_step(mod, fn, width, signed, dem=None):
    """[(problem)] for one to_chars_natural instantiation on a built-in type; raises AnalysisBroken when the shape is not
    the straight-line one the rule reads"""
    from vlib import gate
    lines = [l for lab in fn.order for l in fn.blocks[lab] if "llvm.dbg" not in l and "llvm.lifetime" not in l]
    defs = dict((m.group(1), m.group(2)) for l in lines for m in [re.match(r"^(%\S+)\s*=\s*(.*)$", l)] if m)
    vptr, base = fn.params[2][1], fn.params[3][1]
    stores = {}
    for l in lines:
        m = re.match(r"^store (\S+) (\S+), \S+ (%[^\s,]+)", l)
        if m:
            stores.setdefault(m.group(3), []).append((m.group(1), m.group(2)))
    ty = "i%d" % width

    def ex(v, t, depth=0):
        if depth > 40:
            raise tc.AnalysisBroken("R9: expression too deep")
        v = v.strip()
        if re.fullmatch(r"-?\d+", v):
            return gate.C(gate._bits(t) or width, int(v))
        if v == base:
            return ("arg", 1, "i32")
        if v not in defs:
            raise tc.AnalysisBroken("R9: unknown value " + v)
        d = ir._DROP_RE.sub("", defs[v])
        d = re.sub(r",\s*align \d+", "", d)
        d = re.sub(r"\s+", " ", d).strip()
        m = re.match(r"^load (\S+), \S+ (%\S+)$", d)
        if m:
            if m.group(2) == vptr:
                return ("arg", 0, m.group(1))
            st = stores.get(m.group(2), [])
            if len(st) == 1:
                return ex(st[0][1], st[0][0], depth + 1)
            raise tc.AnalysisBroken("R9: load from a location with %d stores" % len(st))
        m = re.match(r"^(add|sub|mul|sdiv|udiv|srem|urem) (\S+) ([^,]+), (.+)$", d)
        if m:
            return gate.mk_bin(m.group(1), m.group(2), ex(m.group(3), m.group(2), depth + 1), ex(m.group(4), m.group(2), depth + 1))
        m = re.match(r"^(sext|zext|trunc) (\S+) (\S+) to (\S+)$", d)
        if m:
            return gate.mk_cast(m.group(1), m.group(2), ex(m.group(3), m.group(2), depth + 1), m.group(4))
        raise tc.AnalysisBroken("R9: instruction not modelled: " + d[:80])
    probs = []
    V = ("arg", 0, ty)
    B = gate.mk_cast("sext", "i32", ("arg", 1, "i32"), ty) if width > 32 else (("arg", 1, "i32") if width == 32 else None)
    # the recursive call's value argument
    rec = [l for l in lines for m_ in [re.search(r"call [^@]*@([\w.$]+)\(", l)] if m_ and re.match(r"^(char\* )?cnl::_impl::to_chars_natural<", (dem or {}).get(m_.group(1), ""))]
    itc = [l for l in lines if re.search(r"call [^@]*@_ZN3cnl5_impl4itocEi\(", l)]
    if len(rec) != 1 or len(itc) != 1:
        raise tc.AnalysisBroken("R9: expected one recursive call and one itoc call, found %d and %d" % (len(rec), len(itc)))
    rargs = [a.strip().split(" ")[-1] for a in ir._split_top(re.search(r"@[\w.$]+\((.*)\)", rec[0]).group(1))]
    st = stores.get(rargs[2], [])
    if len(st) != 1:
        raise tc.AnalysisBroken("R9: the recursive call's value is not a single-assignment local")
    q = ex(st[0][1], st[0][0])
    iarg = [a.strip().split(" ")[-1] for a in ir._split_top(re.search(r"@[\w.$]+\((.*)\)", itc[0]).group(1))][0]
    rem = ex(iarg, "i32")
    # what the property requires, in T promoted as C++ promotes it (sub-int types compute in int)
    if width < 32:
        Vp = gate.mk_cast("sext" if signed else "zext", ty, V, "i32")
        want_q = gate.mk_bin("sdiv", "i32", Vp, ("arg", 1, "i32"))      # the quotient is an int: the recursion continues in to_chars_natural<int>
        wants_r = [gate.mk_bin("srem", "i32", Vp, ("arg", 1, "i32"))]
    else:
        dv, rm = ("sdiv", "srem") if signed else ("udiv", "urem")
        want_q = gate.mk_bin(dv, ty, V, B)
        wr = gate.mk_bin(rm, ty, V, B)
        wants_r = [wr if width == 32 else gate.mk_cast("trunc", ty, wr, "i32")]
    if q != want_q:
        probs.append("the value handed to the recursive call is %s, not value / base (%s)" % (gate.show(q)[:120], gate.show(want_q)[:120]))
    if rem not in wants_r:
        probs.append("the digit handed to itoc is %s, not value mod base (%s)" % (gate.show(rem)[:140], gate.show(wants_r[0])[:140]))
    if rargs[3] != base:
        probs.append("the recursive call does not pass the base on")
    return probs


FORBIDDEN = [(r"^_ZNSolsE[a-z]$", "std::ostream::operator<<(arithmetic)"), (r"^_ZNSo9_M_insertI", "std::ostream::_M_insert<>"), (r"^_ZSt8to_chars", "std::to_chars"),
             (r"^_ZNSt7__cxx119to_stringE", "std::to_string"), (r"^v?s?n?printf$", "printf family"), (r"__to_chars", "std::__detail::__to_chars")]


def run(tier, seed, work):
    r = report.Run(PROP, tier, seed, "other")
    src = os.path.join(work, "t.cpp")
    open(src, "w").write(SRC + R5_SRC + R6_SRC + R9_SRC + R10_SRC)
    out = os.path.join(work, "t.ll")
    rc, so, se, cmd = tc.clang_ll(src, out, "o1ni")
    if rc != 0:
        raise tc.AnalysisBroken("TU does not compile: " + se[:2000])
    text = open(out).read()
    mod = ir.parse_module(text)
    names = list(mod.functions) + [d[1:] for d in mod.declares]
    dem = tc.demangle(names)
    edges = {}
    for n, f in mod.functions.items():
        edges[n] = set(m.group(1) for lab in f.order for l in f.blocks[lab] for m in re.finditer(r"(?:call|invoke)\s[^@]*@([\w.$]+)\(", l))

    def reach(s):
        seen, st = set(), [s]
        while st:
            x = st.pop()
            for y in edges.get(x, ()):
                if y not in seen:
                    seen.add(y)
                    st.append(y)
        return seen
    # R5
    n_r5 = 0
    for i, (rep, rd, rsg) in enumerate(REPS + [("control", 64, False)]):
        e = "r5_%d" % i if rep != "control" else "r5_control"
        if e not in mod.functions:
            r.broke("R5: entry %s vanished" % e)
            continue
        if rep == "control":
            ds = [x for x in edges[e] if dem.get(x, "").startswith("auto cnl::_impl::descale<")]
        else:
            tcf = [x for x in edges[e] if dem.get(x, "").startswith("auto cnl::to_chars<")]
            if len(tcf) != 1:
                r.broke("R5: %s does not call exactly one cnl::to_chars instantiation" % e)
                continue
            ds = [x for x in edges.get(tcf[0], ()) if dem.get(x, "").startswith("auto cnl::_impl::descale<")]
        if len(ds) != 1:
            r.broke("R5: expected one descale call for Rep %s, found %d" % (rep, len(ds)))
            continue
        why, sig = r5_judge(dem[ds[0]], rd, rsg)
        if rep == "control":
            if not why:
                r.broke("R5 control: descale<int64_t>(uint64_t) was not reported")
            continue
        n_r5 += 1
        if why:
            r.violation("R5/" + rep, "cnl::to_chars(scaled_integer<%s, ...>): %s" % (rep, why), {"rep": rep, "descale": dem[ds[0]], "caller": dem[tcf[0]][:200]})
    # R6
    n_r6 = 0
    ctl_hit = [x for x in reach("r6_control") if R6_ROUNDING.search(dem.get(x, ""))] if "r6_control" in mod.functions else []
    if not ctl_hit:
        r.broke("R6 control: the rounding division of rounding_integer<int, nearest> / 10 was not recognised")
    for e in sorted(n for n in mod.functions if n.startswith("r6_") and n != "r6_control"):
        R = reach(e)
        nat = [x for x in R if re.match(r"^(char\* )?cnl::_impl::to_chars_natural<", dem.get(x, ""))]
        if not nat:
            r.broke("R6: %s reaches no to_chars_natural instantiation" % e)
            continue
        for x in nat:
            n_r6 += 1
            bad = [y for y in reach(x) if R6_ROUNDING.search(dem.get(y, ""))]
            if bad:
                r.violation("R6/" + e, "%s: the digit generator %s divides with a rounding (non-truncating) operator: %s" % (e, dem[x][:160], dem[bad[0]][:200]),
                            {"entry": e, "generator": dem[x], "rounding_division": [dem[y] for y in bad[:4]]})
    # R7: -O0 IR promoted to SSA (sroa, mem2reg) without any CFG simplification, so that a source-level branch that
    # skips every update is still a path (at -O1 clang if-converts such updates into selects)
    from vlib import idle
    src7, raw7, ssa7 = os.path.join(work, "t7.cpp"), os.path.join(work, "t7.raw.ll"), os.path.join(work, "t7.ll")
    open(src7, "w").write(tc.PRELUDE["clang"] + "using namespace cnl;\n" + R5_SRC + R7_SRC)
    rc, so, se, cmd = tc.clang_ll(src7, raw7, "o0", extra=["-Xclang", "-disable-O0-optnone", "-DNDEBUG"])
    if rc != 0:
        raise tc.AnalysisBroken("R7 TU does not compile: " + se[:1500])
    rc, so, se, cmd = tc.opt_passes(raw7, ssa7, "function(sroa,mem2reg)")
    if rc != 0:
        raise tc.AnalysisBroken("opt failed on the R7 unit: " + se[:800])
    mod7 = ir.parse_module(open(ssa7).read())
    dem7 = tc.demangle(list(mod7.functions) + [d[1:] for d in mod7.declares])
    edges7 = {}
    for n, f in mod7.functions.items():
        edges7[n] = set(m.group(1) for lab in f.order for l in f.blocks[lab] for m in re.finditer(r"(?:call|invoke)\s[^@]*@([\w.$]+)\(", l))

    def reach7(s0):
        seen, st = set(), [s0]
        while st:
            x = st.pop()
            for y in edges7.get(x, ()):
                if y not in seen:
                    seen.add(y)
                    st.append(y)
        return seen
    pure, taken = idle.purity(mod7)
    n_r7, n_r7_loops = 0, 0
    try:
        cyc, nl = idle.idle_cycles(mod7, mod7.functions["r7_control"], pure, taken)
        if not cyc:
            r.broke("R7 control: the idle path of the control loop was not found")
    except (KeyError, ValueError) as e:
        r.broke("R7 control failed: %r" % (e,))
    seen_ds = set()
    for e in sorted(n for n in mod7.functions if (n.startswith("r7_") and n != "r7_control") or n.startswith("r5_") and n != "r5_control"):
        for x in reach7(e):
            if x in mod7.functions and dem7.get(x, "").startswith("auto cnl::_impl::descale<") and "lambda" not in dem7[x] and x not in seen_ds:
                seen_ds.add(x)
                try:
                    cyc, nl = idle.idle_cycles(mod7, mod7.functions[x], pure, taken)
                except ValueError as ex:
                    r.broke("R7: %s: %s" % (dem7[x][:120], ex))
                    continue
                n_r7 += 1
                n_r7_loops += nl
                for header, blocks in cyc:
                    r.violation("R7/" + dem7[x][:100], "%s: the loop at block %s has a cycle (%s) that stores nothing and changes no loop-carried value: once taken twice it is taken forever (to_chars does not return)" % (dem7[x][:160], header, " -> ".join(blocks)),
                                {"function": dem7[x], "cycle": blocks, "ir": mod7.functions[x].text()}, finding_key="R7/idle-cycle/descale")
    # R8: the room tests of descale (its local lambdas, still functions at -O1 -fno-inline) are not constant functions
    # (the -O0-derived module keeps every body unoptimised; constancy is judged on the -O1 module)
    n_r8 = 0
    for n, f in mod.functions.items():
        d = dem.get(n, "")
        if not (d.startswith("auto cnl::_impl::descale<") and "lambda" in d and "operator()" in d):
            continue
        lines_ = [l for lab in f.order for l in f.blocks[lab] if "llvm.dbg" not in l and "lifetime" not in l]
        rets = [l for l in lines_ if re.match(r"^ret i1 ", l)]
        if not rets:
            continue
        n_r8 += 1
        const_rets = [l for l in rets if re.match(r"^ret i1 (true|false)$", l.split(",")[0].strip())]
        has_calls = any(re.search(r"\b(call|invoke)\b", l) and "llvm.dbg" not in l for l in lines_)
        if len(const_rets) == len(rets) and not has_calls and len(set(const_rets)) == 1:
            r.violation("R8/" + d[:110], "%s: the room test is the constant `%s`: %s" % (d[:200], const_rets[0],
                        "the significand is never scaled up, every digit after the radix point is dropped" if "true" in const_rets[0] else "the significand is scaled up without limit"),
                        {"function": d, "ir": f.text()})
    # R9: the digit alphabet (all 36 digit values of itoc; a finite table, read as constants)
    from vlib import facts as factmod
    IF = [factmod.Fact("itoc/%d" % k, "(int)cnl::_impl::itoc(%d)" % k, ord("0123456789abcdefghijklmnopqrstuvwxyz"[k])) for k in range(36)]
    factmod.run_facts(work, IF, batch=50, tagbase="itoc")
    for fa in IF:
        if fa.status == "refuted":
            r.violation("R9/" + fa.key, "cnl::_impl::itoc(%s) is %r, the digit alphabet 0-9a-z has %r there" % (fa.key.split("/")[1], chr(fa.value) if fa.value and 0 < fa.value < 128 else fa.value, chr(fa.expect)), {"fact": fa.key, "value": fa.value})
        elif fa.status != "proved":
            r.broke("R9 %s: %s" % (fa.key, fa.detail[:200]))
    # R9: one step of the digit generator, built-in types
    n_r9 = 0
    for i, (t, w, sg) in enumerate(R9_TYPES):
        e = "r9_%d" % i
        nat = [x for x in edges.get(e, ()) if re.match(r"^(char\* )?cnl::_impl::to_chars_natural<", dem.get(x, ""))]
        if len(nat) != 1 or nat[0] not in mod.functions:
            r.broke("R9: to_chars_natural<%s> not found" % t)
            continue
        try:
            probs = r9_step(mod, mod.functions[nat[0]], w, sg, dem)
        except tc.AnalysisBroken as ex_:
            r.broke("R9 %s: %s" % (t, ex_))
            continue
        n_r9 += 1
        for pr in probs:
            r.violation("R9/" + t, "cnl::_impl::to_chars_natural<%s>: %s" % (t, pr), {"type": t, "ir": mod.functions[nat[0]].text()})
    # R10
    n_r10 = 0
    for i, (t, spelled) in enumerate(R10_TYPES):
        e = "r10_%d" % i
        nz = [x for x in reach(e) if re.search(r"cnl::_impl::to_chars_non_zero<.*>\(char\*, char\*, %s const&, int\)" % re.escape(spelled), dem.get(x, ""))]
        if len(nz) != 1:
            r.broke("R10: to_chars_non_zero for %s not found (%d candidates)" % (t, len(nz)))
            continue
        pos = [dem[x] for x in edges.get(nz[0], ()) if "cnl::_impl::to_chars_positive<" in dem.get(x, "")]
        if not pos:
            r.broke("R10: to_chars_non_zero<%s> calls no to_chars_positive" % t)
            continue
        n_r10 += 1
        small = {"signed char": 8, "short": 16} if "8" not in t else {"signed char": 8}
        vts = [m_.group(1) for m_ in (re.search(r"\(char\*, char\*, (.+?) const&, int\)", d_) for d_ in pos) if m_]
        # a callee whose value type can hold 2^(w-1): anything but a signed type no wider than T
        if vts and all(v_ in small for v_ in vts):
            r.violation("R10/" + t, "cnl::_impl::to_chars_non_zero<%s> calls to_chars_positive only on signed types no wider than itself: the magnitude -value of a negative %s is narrowed back to %s, which cannot hold %d (callees: %s)"
                        % (t, t, t, 128 if "8" in t else 32768, "; ".join(sorted(pos))[:300]), {"type": t, "callees": sorted(pos)})
    entries = [n for n in mod.functions if n.startswith("e_")]
    ok_entries, samples = 0, []
    for e in sorted(entries):
        R = reach(e)
        tcs = [x for x in R if dem.get(x, "").startswith("auto cnl::to_chars<")]
        bad = [(x, why) for x in R for (pat, why) in FORBIDDEN if re.search(pat, x)]
        if e == "e_control":
            if not bad:
                r.broke("R2 control: an entry that streams an int with the standard library was not reported")
            continue
        if not tcs:
            r.violation("R1/" + e, "%s: no function of the cnl::to_chars family is reachable" % e, {"entry": e})
            continue
        if bad:
            r.violation("R2/" + e, "%s: another number formatter is reachable: %s" % (e, ", ".join("%s (%s)" % (dem.get(x, x)[:80], w) for x, w in bad[:3])), {"entry": e, "formatters": [x for x, _ in bad]})
            continue
        ok_entries += 1
        samples.append({"entry": e, "to_chars": dem[tcs[0]][:120]})
    # R3: to_chars_static bodies
    n_static = 0
    for n, f in mod.functions.items():
        dn = dem[n]
        if not dn.startswith("auto cnl::to_chars_static<"):
            continue
        n_static += 1
        lines = [l for lab in f.order for l in f.blocks[lab]]
        # parameters: (sret result, value)
        res_p, val_p = f.params[0][1], f.params[-1][1]
        calls = [l for l in lines if re.search(r"call .*@(\w+)\(", l) and dem.get(re.search(r"@(\w+)\(", l).group(1), "").startswith("auto cnl::to_chars<")]
        if len(calls) != 1:
            r.violation("R3/" + dn[:100], "%s: expected exactly one call of cnl::to_chars, found %d" % (dn[:120], len(calls)), {"function": dn})
            continue
        call = calls[0]
        args = re.search(r"@\w+\((.*)\)", call).group(1)
        argv = [a.strip().split(" ")[-1] for a in ir._split_top(args)]
        defs = dict((m.group(1), m.group(2)) for l in lines for m in [re.match(r"^(%\S+)\s*=\s*(.*)$", l)] if m)

        def derived_from(v, root, depth=0):
            if v == root:
                return True
            if v not in defs or depth > 6:
                return False
            return any(derived_from(x, root, depth + 1) for x in ir._VAL_RE.findall(defs[v]) if x != v) and re.match(r"^(getelementptr|bitcast|call noundef i8\* @_ZN?K?St5arrayIc)", defs[v]) is not None
        problems = []
        if argv[2] != val_p:
            problems.append("the value passed to to_chars is %s, not the function's own value parameter %s" % (argv[2], val_p))
        roots = [res_p] + [k for k, v in defs.items() if v.startswith("alloca ") and "to_chars_static_result" in v]
        if not any(derived_from(argv[0], rt) for rt in roots):
            problems.append("`first` passed to to_chars is not derived from the result's character array")
        if not any(derived_from(argv[1], rt) for rt in roots) and not derived_from(argv[1], argv[0]):
            problems.append("`last` passed to to_chars is not derived from the result's character array")
        cres = re.match(r"^(%\S+)\s*=", call).group(1)
        ptrs = [k for k, v in defs.items() if re.match(r"^extractvalue \{ i8\*, i32 \} %s, 0" % re.escape(cres), v)]
        # the stored length must depend on the returned ptr
        dep = set(ptrs)
        changed = True
        while changed:
            changed = False
            for k, v in defs.items():
                if k not in dep and any(x in dep for x in ir._VAL_RE.findall(v)):
                    dep.add(k)
                    changed = True
            for l in lines:      # through memory: a dependent value stored to a local makes that local dependent
                ms = re.match(r"^store \S+ (%[^\s,]+), \S+ (%[^\s,]+)", l)
                if ms and ms.group(1) in dep and ms.group(2) not in dep:
                    dep.add(ms.group(2))
                    changed = True
        len_stores = [l for l in lines if re.match(r"^store i32 (%[^\s,]+), i32\* ", l)]
        if not any(re.match(r"^store i32 (%[^\s,]+),", l).group(1) in dep for l in len_stores):
            problems.append("the stored length does not depend on the pointer returned by to_chars")
        for p in problems:
            r.violation("R3/" + dn[:100], "%s: %s" % (dn[:140], p), {"function": dn, "ir": f.text()})
    common.floor_check(r, "entry points established", ok_entries, 9)
    common.floor_check(r, "to_chars_static instantiations inspected", n_static, 5)
    common.floor_check(r, "R5 working-significand instances judged", n_r5, len(REPS))
    common.floor_check(r, "R6 digit-generator instances inspected", n_r6, len(R6_REPS))
    common.floor_check(r, "R7 descale instantiations inspected", n_r7, 20)
    common.floor_check(r, "R7 loops inspected", n_r7_loops, 20)
    common.floor_check(r, "R8 room tests inspected", n_r8, 20)
    common.floor_check(r, "R9 digit-generator steps read", n_r9, len(R9_TYPES))
    common.floor_check(r, "R10 negative-magnitude instances", n_r10, len(R10_TYPES))
    r.coverage = {
        "explanation": "Decided: the last sentence (the fixed-capacity entry points format through cnl::to_chars on the same value: reachability, forbidden-formatter and argument/derivation rules on -O1 -fno-inline IR) and one structural necessary condition of the sign/magnitude clause (R5: the working significand type of every to_chars<Rep> instantiation represents all of Rep). Digit generation, truncation direction and exponents are not decided.",
        "evaluations": len(entries) + n_static + n_r5 + n_r6, "distinct_nontrivial": ok_entries + n_static + n_r5 + n_r6,
        "rule": "non-trivial = entry point for which R1 and R2 hold, or to_chars_static instantiation for which R3 was evaluated",
        "r5_instances": n_r5, "r6_generators": n_r6, "r7_descale_instances": n_r7, "r8_room_tests": n_r8, "r9_generator_steps": n_r9, "r10_negative_magnitude": n_r10, "r7_loops": n_r7_loops, "entry_points": len(entries) - 1, "entry_points_ok": ok_entries, "to_chars_static_instances": n_static,
        "samples": samples[:6], "exhaustive": False,
    }
    return r.finish()


def replay(path, work):
    import json
    print(json.dumps(json.load(open(path)), indent=1)[:3000])
    return 1
