"""Engine T: type-level facts.

A fact is a C++ integral constant expression that depends on template parameters only
(no operand value exists).  clang mode: the value is read from the `@f<i> = constant i64 <v>`
line of the -O0 IR and compared with the oracle's expectation in Python.
gcc mode: `static_assert(expr == expected)` under g++ -fsyntax-only.
"""
import os, re
from . import tc


class Fact:
    def __init__(self, key, expr, expect=None, decls="", may_reject=False, meta=None, judge=None):
        """expect: exact value required; or judge(value) -> None (ok) | str (why refuted)"""
        self.key, self.expr, self.expect, self.decls = key, expr, expect, decls
        self.judge = judge
        self.may_reject, self.meta = may_reject, meta or {}
        self.value = None
        self.status = None  # proved | refuted | rejected | broken
        self.detail = ""
        self.gcc_status = None


def _src(cfg, facts, gcc):
    lines = (tc.PRELUDE[cfg] if not gcc else tc.STD_HEADERS + "#include <cnl/all.h>\n").split("\n")
    lines += ["using namespace cnl;", ""]
    linemap = {}
    seen_decl = set()
    for i, f in enumerate(facts):
        for d in ([f.decls] if isinstance(f.decls, str) else list(f.decls)):
            if d and d not in seen_decl:
                seen_decl.add(d)
                for dl in d.split("\n"):
                    lines.append(dl)
                    linemap[len(lines)] = ("decl", i)
        if gcc:
            lines.append("static_assert((long long)(%s) == %dLL, \"F%d\");" % (f.expr, f.expect if f.expect is not None else f.value, i))
        else:
            lines.append('extern "C" const long long f%d = (long long)(%s);' % (i, f.expr))
        linemap[len(lines)] = ("fact", i)
    return "\n".join(lines) + "\n", linemap


def _run_clang(work, tag, cfg, facts, depth=0):
    active = list(range(len(facts)))
    for attempt in range(8):
        sub = [facts[i] for i in active]
        src, linemap = _src(cfg, sub, False)
        name = "%s_%d.cpp" % (tag, attempt)
        path = os.path.join(work, name)
        with open(path, "w") as f:
            f.write(src)
        out = path[:-4] + ".ll"
        rc, so, se, cmd = tc.clang_ll(path, out, "o0")
        if rc == 0:
            vals = {}
            with open(out) as f:
                for ln in f:
                    m = re.match(r"^@f(\d+) = (?:dso_local )?(?:local_unnamed_addr )?constant i64 (-?\d+)", ln)
                    if m:
                        vals[int(m.group(1))] = int(m.group(2))
            for li, gi in enumerate(active):
                fa = facts[gi]
                if li not in vals:
                    fa.status, fa.detail = "broken", "fact constant not found in IR (not a constant expression?)"
                    continue
                fa.value = vals[li]
                if fa.judge is not None:
                    why = fa.judge(fa.value)
                    fa.status = "proved" if why is None else "refuted"
                    if why:
                        fa.detail = why
                else:
                    fa.status = "proved" if fa.value == fa.expect else "refuted"
            return
        bad = {}
        for blk in re.split(r"(?m)^(?=\S+:\d+:\d+: (?:fatal )?error:)", se):
            if "error:" not in blk:
                continue
            first = blk.split("\n", 1)[0]
            hit = False
            for m in re.finditer(re.escape(name) + r":(\d+):", blk):
                ent = linemap.get(int(m.group(1)))
                if ent:
                    bad.setdefault(ent, first)
                    hit = True
            if not hit:
                # no line of the TU in the diagnostic (elided instantiation notes): bisect the batch
                if len(active) == 1:
                    fa = facts[active[0]]
                    fa.status, fa.detail = ("rejected" if fa.may_reject else "broken"), "does not compile: " + first[:400]
                    return
                if depth > 12:
                    raise tc.AnalysisBroken("fact TU %s: unattributable error: %s" % (name, blk[:1500]))
                half = len(active) // 2
                for part, sfx in ((active[:half], "a"), (active[half:], "b")):
                    sub2 = [facts[i] for i in part]
                    _run_clang(work, tag + sfx, cfg, sub2, depth + 1)
                return
        if not bad:
            raise tc.AnalysisBroken("fact TU %s failed without diagnostics: %s" % (name, se[:1500]))
        drop = set()
        for (kind, li), msg in bad.items():
            gi = active[li]
            fa = facts[gi]
            if kind == "decl":
                # a declaration shared by several facts failed: all facts using it are affected
                for gj in active:
                    if facts[gj].decls == fa.decls or gj == gi:
                        drop.add(gj)
                        facts[gj].status = "rejected" if facts[gj].may_reject else "broken"
                        facts[gj].detail = msg[:400]
            else:
                drop.add(gi)
                fa.status = "rejected" if fa.may_reject else "broken"
                fa.detail = msg[:400]
        active = [g for g in active if g not in drop]
        if not active:
            return
    raise tc.AnalysisBroken("fact TU %s still failing after 8 rounds" % tag)


def _run_gcc(work, tag, facts):
    sub = [f for f in facts if f.status in ("proved", "refuted") and f.value is not None and (f.judge is not None or f.status == "proved")]
    if not sub:
        return
    src, linemap = _src("clang", sub, True)
    name = "%s_gcc.cpp" % tag
    path = os.path.join(work, name)
    with open(path, "w") as f:
        f.write(src)
    rc, so, se, cmd = tc.gxx_syntax(path)
    for fa in sub:
        fa.gcc_status = "proved"
    if rc == 0:
        return
    for m in re.finditer(re.escape(name) + r":(\d+):\d+: error: (.*)", se):
        ent = linemap.get(int(m.group(1)))
        if not ent:
            continue
        fa = sub[ent[1]]
        if "static assertion failed" in m.group(2):
            fa.gcc_status = "refuted"
            fa.detail = (fa.detail + "; " if fa.detail else "") + "g++ computes a different value than clang (%s)" % fa.value
        else:
            fa.gcc_status = "broken"
            fa.detail = "g++: " + m.group(2)[:300]
    if not any(fa.gcc_status != "proved" for fa in sub):
        raise tc.AnalysisBroken("g++ fact TU failed but no diagnostic could be attributed: %s" % se[:1500])


def run_facts(work, facts, cfg="clang", batch=300, gcc=True, tagbase="facts"):
    jobs = [(facts[b:b + batch], "%s_%s_%d" % (tagbase, cfg, b // batch)) for b in range(0, len(facts), batch)]

    def do(job):
        lst, tag = job
        try:
            _run_clang(work, tag, cfg, lst)
            if gcc:
                _run_gcc(work, tag, lst)
        except tc.AnalysisBroken as e:
            for f in lst:
                if f.status is None:
                    f.status, f.detail = "broken", str(e)[:1500]
    tc.pmap(do, jobs)
    return facts
