"""Sign-discipline rule for signed division / remainder built on an unsigned magnitude division.

Shape analysed (uintwide_t<W, L, A, true>::operator/= and operator%=): the signs of the two operands are read once
(is_neg(*this) = s, is_neg(other) = t), unsigned copies A (of *this) and B (of other) are negated to magnitudes, one
unsigned division eval_divide_knuth(A, B[, R]) runs, and the result is negated back.  Given that negate() is two's
complement negation and eval_divide_knuth is unsigned division (the limb arithmetic, NOT decided here), truncating
division holds iff on every path

    at the unsigned eval_divide_knuth:  A is a copy of *this negated iff s,  B a copy of other negated iff t
    at the return of operator/=:        the quotient object A has been negated iff s != t
    at the return of operator%=:        the remainder object R has been negated iff s
    the signed instance of eval_divide_knuth (operands used as they are) is reached only when neither is negative

Decided on -O1 -fno-inline IR by enumerating the paths of the function for each of the four (s, t) valuations; branch
conditions that are boolean functions of s and t are evaluated, every other condition forks.  A tracked object that is
written by anything other than its constructor, negate() and eval_divide_knuth makes the instance undecided (reported
as analysis-broken, never as a violation).
"""
import re
from . import ir, tc

_VAL = re.compile(r"(?<![\w.\"])%\d+\b")      # SSA values only (clang discards value names): type names such as %"class.x" are skipped


class Undecided(Exception):
    pass


def _body(l):
    return l.split("=", 1)[1].strip() if re.match(r"^%\S+\s*=", l) else l


def _call(body):
    m = re.match(r"^(?:tail |musttail |notail )?(?:call|invoke)\s.*?@([\w.$]+)\((.*)\)[^)]*$", body)
    if not m:
        return None
    args = []
    for a in ir._split_top(m.group(2)):
        a = a.strip()
        toks = a.split()
        args.append((toks[-1] if toks else "", a))
    return m.group(1), args


def _readonly(mod, callee, idx, site_text):
    if "readonly" in site_text or "readnone" in site_text:
        return True
    g = mod.functions.get(callee)
    if g is None:
        return False
    m = re.search(r"@[\w.$]+\((.*)\)", g.header)
    if not m:
        return False
    ps = ir._split_top(m.group(1))
    return idx < len(ps) and ("readonly" in ps[idx] or "readnone" in ps[idx])


def analyse(mod, fn, dem, op, swap=False):
    """op: '/' or '%'.  Returns (problems, stats); problems = [(valuation, path, text)].  swap exchanges the roles of the
    two sign atoms (positive control: the same code judged as if the dividend were the divisor must be refuted)."""
    if len(fn.params) < 2:
        raise Undecided("expected (this, other) parameters")
    p0, p1 = fn.params[0][1], fn.params[1][1]
    defs = {}
    for lab in fn.order:
        for l in fn.blocks[lab]:
            m = re.match(r"^(%(?:\"[^\"]*\"|[-\w.$]+))\s*=\s*(.*)$", l)
            if m:
                defs[m.group(1)] = m.group(2)

    def base(v, depth=0):
        while v in defs and depth < 10:
            b = defs[v]
            if b.startswith(("bitcast ", "getelementptr ")):
                ops = _VAL.findall(b)
                if not ops:
                    break
                v = ops[0]
                depth += 1
            else:
                break
        return v
    atoms = {}
    for v, b in defs.items():
        c = _call(b)
        if c and re.search(r"::is_neg<", dem.get(c[0], "")) and len(c[1]) == 1:
            who = base(c[1][0][0])
            if who == p0:
                atoms[v] = "t" if swap else "s"
            elif who == p1:
                atoms[v] = "s" if swap else "t"
    if sorted(atoms.values()) != ["s", "t"]:
        raise Undecided("the two sign tests is_neg(*this), is_neg(other) were not found exactly once each (found %s)" % sorted(atoms.values()))

    def ev(v, env, depth=0):
        """value of an i1 under env, or None"""
        if v in ("true", "1"):
            return True
        if v in ("false", "0"):
            return False
        if v in atoms:
            return env[atoms[v]]
        if v not in defs or depth > 12:
            return None
        b = defs[v]
        m = re.match(r"^(or|and|xor) i1 (\S+), (\S+)$", b)
        if m:
            x, y = ev(m.group(2), env, depth + 1), ev(m.group(3), env, depth + 1)
            o = m.group(1)
            if o == "or":
                return True if (x is True or y is True) else (False if (x is False and y is False) else None)
            if o == "and":
                return False if (x is False or y is False) else (True if (x is True and y is True) else None)
            return None if (x is None or y is None) else (x != y)
        m = re.match(r"^icmp (eq|ne) i1 (\S+), (\S+)$", b)
        if m:
            x, y = ev(m.group(2), env, depth + 1), ev(m.group(3), env, depth + 1)
            return None if (x is None or y is None) else ((x == y) == (m.group(1) == "eq"))
        m = re.match(r"^select i1 (\S+), i1 (\S+), i1 (\S+)$", b)
        if m:
            c = ev(m.group(1), env, depth + 1)
            x, y = ev(m.group(2), env, depth + 1), ev(m.group(3), env, depth + 1)
            if c is True:
                return x
            if c is False:
                return y
            return x if (x is not None and x == y) else None
        return None
    problems, stats = [], {"paths": 0, "unsigned_divisions": 0, "signed_divisions": 0}
    for s in (False, True):
        for t in (False, True):
            env = {"s": s, "t": t}
            val = "dividend %s, divisor %s" % ("negative" if s else "non-negative", "negative" if t else "non-negative")

            def walk(lab, prev, state, path):
                if lab in path:
                    raise Undecided("loop through block %s" % lab)
                path = path + [lab]
                objs, quot, rem, probs = dict(state[0]), state[1], state[2], list(state[3])
                phienv = {}
                for l in fn.blocks[lab]:
                    b = _body(l)
                    m = re.match(r"^(%\S+)\s*=\s*phi i1 (.*)$", l)
                    if m:
                        inc = dict((bb, vv.strip()) for vv, bb in re.findall(r"\[\s*([^,\]]+),\s*%(\"[^\"]*\"|[-\w.$]+)\s*\]", m.group(2)))
                        phienv[m.group(1)] = ev(inc.get(prev, ""), env)
                        continue
                    c = _call(b)
                    if c:
                        d = dem.get(c[0], c[0])
                        args = [base(a[0]) for a in c[1]]
                        if d.endswith("::negate()") and len(args) == 1:
                            o = objs.setdefault(args[0], {"origin": None, "par": 0})
                            objs[args[0]] = dict(o, par=o["par"] ^ 1)
                        elif re.search(r">::uintwide_t(<.*>)?\(cnl::[^()]*uintwide_t<[^()]*> const&\)$", d) and len(args) == 2:
                            objs[args[0]] = {"origin": args[1], "par": 0}
                        elif re.search(r"::uintwide_t\(\)$", d) and len(args) == 1:
                            objs[args[0]] = {"origin": "fresh", "par": 0}
                        elif "::eval_divide_knuth(" in d and len(args) == 3:
                            A, B, R = args
                            if re.search(r", false>::eval_divide_knuth\(", d):
                                stats["unsigned_divisions"] += 1
                                oa, ob = objs.get(A, {"origin": A, "par": 0}), objs.get(B, {"origin": B, "par": 0})
                                for o in (oa, ob):
                                    if o.get("clobbered"):
                                        raise Undecided("an operand of the unsigned division is written by %s" % o["clobbered"])
                                if oa["origin"] != p0 or ob["origin"] != p1:
                                    if oa["origin"] is None or ob["origin"] is None:
                                        raise Undecided("operands of eval_divide_knuth are not recognised copies of *this / other")
                                    probs.append("the unsigned division is not applied to (copy of *this, copy of other)")
                                if bool(oa["par"]) != s:
                                    probs.append("the dividend's copy is %s before the unsigned division" % ("negated although the dividend is non-negative" if oa["par"] else "not negated although the dividend is negative"))
                                if bool(ob["par"]) != t:
                                    probs.append("the divisor's copy is %s before the unsigned division" % ("negated although the divisor is non-negative" if ob["par"] else "not negated although the divisor is negative"))
                                objs[A] = {"origin": "quotient", "par": 0}
                                quot = A
                                if R != "null":
                                    objs[R] = {"origin": "remainder", "par": 0}
                                    rem = R
                            else:
                                stats["signed_divisions"] += 1
                                if s or t:
                                    probs.append("the division that uses the operands as they are (signed instance of eval_divide_knuth) is reached with a negative operand")
                                if A != p0 or B != p1:
                                    raise Undecided("signed eval_divide_knuth on unexpected objects")
                                quot = A
                                if R != "null":
                                    rem = R
                                    objs[R] = {"origin": "remainder", "par": 0}
                                objs[A] = {"origin": "quotient", "par": 0}
                        elif c[0].startswith("llvm.memcpy") or c[0].startswith("llvm.memmove"):
                            dst = args[0]
                            if dst in objs and dst != p0:
                                objs[dst] = {"origin": None, "par": 0, "clobbered": "memcpy"}
                        elif c[0].startswith(("llvm.lifetime", "llvm.dbg", "llvm.assume")):
                            pass
                        else:
                            for idx, ((a, full), bb) in enumerate(zip(c[1], args)):
                                if bb in objs and bb not in (p0, p1) and not _readonly(mod, c[0], idx, full):
                                    objs[bb] = dict(objs[bb], clobbered=d[:80])
                    elif b.startswith("store "):
                        m = re.match(r"^store .*?, \S+ (%(?:\"[^\"]*\"|[-\w.$]+))", b)
                        if m and base(m.group(1)) in objs and base(m.group(1)) not in (p0, p1):
                            o = base(m.group(1))
                            objs[o] = dict(objs[o], clobbered="a direct store")
                term = _body(fn.blocks[lab][-1])
                if term.startswith("ret"):
                    stats["paths"] += 1
                    if op == "%" and rem is not None:
                        o = objs[rem]
                        if o.get("clobbered"):
                            raise Undecided("the remainder object is written by %s" % o["clobbered"])
                        if bool(o["par"]) != s:
                            probs.append("the remainder is %s" % ("negated although the dividend is non-negative" if o["par"] else "not negated although the dividend is negative: it takes the wrong sign"))
                    if op == "/" and quot is not None:
                        o = objs[quot]
                        if o.get("clobbered"):
                            raise Undecided("the quotient object is written by %s" % o["clobbered"])
                        if bool(o["par"]) != (s != t):
                            probs.append("the quotient is %s" % ("negated although the operands have the same sign" if o["par"] else "not negated although the operands have opposite signs"))
                    for p in probs:
                        problems.append((val, path, p))
                    return
                m = re.match(r"^br i1 (\S+), label %(\S+), label %(\S+)$", term)
                if m:
                    cv = phienv.get(m.group(1), ev(m.group(1), env))
                    nxt = [m.group(2)] if cv is True else ([m.group(3)] if cv is False else [m.group(2), m.group(3)])
                else:
                    nxt = [x[1:] for x in ir._successors(term)]
                for n in nxt:
                    walk(n.strip('"'), lab, (objs, quot, rem, probs), path)
            walk(fn.order[0], None, ({}, None, None, []), [])
    if stats["unsigned_divisions"] == 0:
        raise Undecided("no unsigned eval_divide_knuth call reached")
    return problems, stats


# ---------------------------------------------------------------------------------------------------------------------
# value returned under a sign valuation (compare, right_shift_fill_value) and the sign test itself (is_neg)

def _defs(fn):
    defs = {}
    for lab in fn.order:
        for l in fn.blocks[lab]:
            m = re.match(r"^(%(?:\"[^\"]*\"|[-\w.$]+))\s*=\s*(.*)$", l)
            if m:
                defs[m.group(1)] = m.group(2)
    return defs


def _origin(defs, dem, v, depth=0):
    """the parameter / alloca a pointer is derived from: through bitcast, GEP and the std::array accessors"""
    while v in defs and depth < 12:
        b = defs[v]
        if b.startswith(("bitcast ", "getelementptr ")):
            ops = _VAL.findall(b)
            if not ops:
                break
            v = ops[0]
        else:
            c = _call(b)
            if c and re.match(r"^std::array<.*>::(data|begin|cbegin|front)\(\)( const)?$", dem.get(c[0], "")) and c[1]:
                v = c[1][0][0]
            else:
                break
        depth += 1
    return v


def _sign_atoms(fn, defs, dem):
    p = [x[1] for x in fn.params]
    atoms = {}
    for v, b in defs.items():
        c = _call(b)
        if c and re.search(r"::is_neg<", dem.get(c[0], "")) and len(c[1]) == 1:
            who = _origin(defs, dem, c[1][0][0])
            if who in p:
                atoms[v] = p.index(who)
    return atoms


def returned(mod, fn, dem):
    """{(valuation of the sign atoms as a tuple over the parameters that have one): set of descriptors of the value
    returned}; a descriptor is ('const', n) or ('call', demangled callee, (origins of the arguments))"""
    defs = _defs(fn)
    atoms = _sign_atoms(fn, defs, dem)
    idxs = sorted(set(atoms.values()))
    if not idxs:
        raise Undecided("no sign test of a parameter found")
    out = {}

    def ev(v, env, depth=0):
        if v in ("true",):
            return True
        if v in ("false",):
            return False
        if v in atoms:
            return env[atoms[v]]
        if v not in defs or depth > 12:
            return None
        b = defs[v]
        m = re.match(r"^(or|and|xor) i1 (\S+), (\S+)$", b)
        if m:
            x, y = ev(m.group(2), env, depth + 1), ev(m.group(3), env, depth + 1)
            o = m.group(1)
            if o == "or":
                return True if (x is True or y is True) else (False if (x is False and y is False) else None)
            if o == "and":
                return False if (x is False or y is False) else (True if (x is True and y is True) else None)
            return None if (x is None or y is None) else (x != y)
        m = re.match(r"^select i1 (\S+), i1 (\S+), i1 (\S+)$", b)
        if m:
            c = ev(m.group(1), env, depth + 1)
            x, y = ev(m.group(2), env, depth + 1), ev(m.group(3), env, depth + 1)
            return x if c is True else (y if c is False else (x if (x is not None and x == y) else None))
        return None

    def describe(v, env, edge, depth=0):
        """descriptors of SSA value v on a path whose block->predecessor map is edge"""
        if re.match(r"^-?\d+$", v):
            return {("const", int(v))}
        if v in ("true", "false"):
            return {("const", 1 if v == "true" else 0)}
        if v not in defs or depth > 10:
            return {("opaque", v)}
        b = defs[v]
        m = re.match(r"^phi \S+ (.*)$", b)
        if m:
            lab = next(l for l in fn.order if any(x.startswith(v + " =") for x in fn.blocks[l]))
            inc = dict((bb.strip('"'), vv.strip()) for vv, bb in re.findall(r"\[\s*([^,\]]+),\s*%(\"[^\"]*\"|[-\w.$]+)\s*\]", m.group(1)))
            pv = inc.get(edge.get(lab))
            return describe(pv, env, edge, depth + 1) if pv is not None else {("opaque", v)}
        m = re.match(r"^select i1 (\S+), \S+ (\S+), \S+ (\S+)$", b)
        if m:
            c = ev(m.group(1), env)
            if c is True:
                return describe(m.group(2), env, edge, depth + 1)
            if c is False:
                return describe(m.group(3), env, edge, depth + 1)
            return describe(m.group(2), env, edge, depth + 1) | describe(m.group(3), env, edge, depth + 1)
        c = _call(b)
        if c:
            return {("call", dem.get(c[0], c[0]), tuple(_origin(defs, dem, a[0]) for a in c[1]))}
        m = re.match(r"^(sext|zext|trunc) \S+ (\S+) to", b)
        if m:
            return describe(m.group(2), env, edge, depth + 1)
        return {("opaque", b[:60])}
    import itertools
    for vals in itertools.product((False, True), repeat=len(idxs)):
        env = dict(zip(idxs, vals))
        res = set()

        def walk(lab, edge, seen):
            if lab in seen:
                raise Undecided("loop through block %s" % lab)
            term = _body(fn.blocks[lab][-1])
            m = re.match(r"^ret \S+ (\S+)$", term)
            if m:
                res.update(describe(m.group(1), env, edge))
                return
            m = re.match(r"^br i1 (\S+), label %(\S+), label %(\S+)$", term)
            if m:
                cv = ev(m.group(1), env)
                nxt = [m.group(2)] if cv is True else ([m.group(3)] if cv is False else [m.group(2), m.group(3)])
            else:
                nxt = [x[1:] for x in ir._successors(term)]
            for n in nxt:
                n = n.strip('"')
                walk(n, dict(edge, **{n: lab}), seen | {lab})
        walk(fn.order[0], {}, frozenset())
        out[vals] = res
    return out, idxs, [x[1] for x in fn.params]


def sign_test(mod, fn, dem):
    """is_neg(x): the returned bit is the top bit of the most significant limb of x.  Returns None when it is, a text
    when it is not; raises Undecided for a shape that is not recognised"""
    defs = _defs(fn)
    if len(fn.params) != 1:
        raise Undecided("is_neg: one parameter expected")
    p0 = fn.params[0][1]
    rets = [_body(l) for lab in fn.order for l in fn.blocks[lab] if _body(l).startswith("ret ")]
    if len(rets) != 1:
        raise Undecided("is_neg: one return expected")
    v = rets[0].split()[-1]
    b = defs.get(v, "")
    bits = None
    m = re.match(r"^icmp slt i(\d+) (\S+), 0$", b)
    if m:
        bits, x = int(m.group(1)), m.group(2)
    else:
        m = re.match(r"^icmp ugt i(\d+) (\S+), (\d+)$", b)
        if m and int(m.group(3)) == 2 ** (int(m.group(1)) - 1) - 1:
            bits, x = int(m.group(1)), m.group(2)
        else:
            m = re.match(r"^icmp ne i(\d+) (\S+), 0$", b)
            mm = m and re.match(r"^(lshr|and) i(\d+) (\S+), (\d+)$", defs.get(m.group(2), ""))
            if mm and ((mm.group(1) == "lshr" and int(mm.group(4)) == int(mm.group(2)) - 1) or (mm.group(1) == "and" and int(mm.group(4)) == 2 ** (int(mm.group(2)) - 1))):
                bits, x = int(mm.group(2)), mm.group(3)
    if bits is None:
        if re.match(r"^icmp (sgt|sge|sle|eq|ne|ult|ule|uge|ugt|slt) ", b):
            return "the sign test is `%s`, not a test of the top bit of a limb" % b
        raise Undecided("is_neg: unrecognised shape `%s`" % b[:80])
    lb = defs.get(x, "")
    m = re.match(r"^load i(\d+), i\d+\* (%[^\s,]+)", lb)
    if not m:
        raise Undecided("is_neg: the tested value is not a loaded limb (`%s`)" % lb[:80])
    if int(m.group(1)) != bits:
        raise Undecided("is_neg: limb width mismatch")
    ptr = m.group(2)
    pb = defs.get(ptr, "")
    c = _call(pb)
    if c:
        d = dem.get(c[0], "")
        mm = re.match(r"^std::array<.*, (\d+)ul>::(\w+)\(\)( const)?$", d)
        if not mm:
            raise Undecided("is_neg: limb pointer from `%s`" % d[:80])
        if _origin(defs, dem, c[1][0][0]) != p0:
            raise Undecided("is_neg: limb of something else than the argument")
        if mm.group(2) == "back":
            return None
        if mm.group(2) in ("front", "data", "begin", "cbegin"):
            return "the sign test reads the LEAST significant limb (std::array::%s)" % mm.group(2)
        raise Undecided("is_neg: accessor %s" % mm.group(2))
    mm = re.match(r"^getelementptr inbounds (.*), (\S+) (%\S+)((?:, i\d+ \d+)+)$", pb)
    if mm:
        ty = mm.group(1)
        idx = [int(t.split()[-1]) for t in mm.group(4).split(",")[1:]]
        n = re.search(r"\[(\d+) x i%d\]" % bits, mod.types.get(ty.strip(), ty) if hasattr(mod, "types") else ty)
        raise Undecided("is_neg: direct GEP form not modelled")
    raise Undecided("is_neg: limb pointer `%s`" % pb[:80])
