"""Interval sets over N-bit patterns and truth sets of single-variable conditions of gated expressions.

This is the abstract domain of the 'line' engine: one operand of a kernel is a literal constant, the other is the
only free variable; every branch condition LLVM leaves in the optimised IR is then a predicate of that variable,
and its truth set is computed exactly as a finite union of intervals (or the analysis gives up: None).
No value of the variable is ever substituted: sets are transformed through the (invertible) operations.
"""
from . import gate


class ISet:
    """finite union of inclusive intervals of bit patterns in [0, 2^bits)"""
    def __init__(self, bits, ivs=()):
        self.bits = bits
        self.ivs = self._norm(ivs)

    def _norm(self, ivs):
        top = (1 << self.bits) - 1
        ivs = sorted((max(0, a), min(top, b)) for a, b in ivs if a <= b and b >= 0 and a <= top)
        out = []
        for a, b in ivs:
            if out and a <= out[-1][1] + 1:
                out[-1] = (out[-1][0], max(out[-1][1], b))
            else:
                out.append((a, b))
        return tuple(out)

    @classmethod
    def full(cls, bits):
        return cls(bits, [(0, (1 << bits) - 1)])

    @classmethod
    def empty(cls, bits):
        return cls(bits, [])

    @classmethod
    def from_signed(cls, bits, lo, hi):
        """values lo..hi in two's complement"""
        lo, hi = max(lo, -(1 << (bits - 1))), min(hi, (1 << (bits - 1)) - 1)
        if lo > hi:
            return cls.empty(bits)
        m = 1 << bits
        if lo >= 0:
            return cls(bits, [(lo, hi)])
        if hi < 0:
            return cls(bits, [(lo + m, hi + m)])
        return cls(bits, [(0, hi), (lo + m, m - 1)])

    @classmethod
    def from_unsigned(cls, bits, lo, hi):
        return cls(bits, [(lo, hi)])

    def __bool__(self):
        return bool(self.ivs)

    def __eq__(self, o):
        return self.bits == o.bits and self.ivs == o.ivs

    def size(self):
        return sum(b - a + 1 for a, b in self.ivs)

    def __and__(self, o):
        out = []
        for a, b in self.ivs:
            for c, d in o.ivs:
                lo, hi = max(a, c), min(b, d)
                if lo <= hi:
                    out.append((lo, hi))
        return ISet(self.bits, out)

    def __or__(self, o):
        return ISet(self.bits, self.ivs + o.ivs)

    def __invert__(self):
        top = (1 << self.bits) - 1
        out, cur = [], 0
        for a, b in self.ivs:
            if a > cur:
                out.append((cur, a - 1))
            cur = b + 1
        if cur <= top:
            out.append((cur, top))
        return ISet(self.bits, out)

    def __sub__(self, o):
        return self & ~o

    def shift(self, c):
        """{ (x + c) mod 2^bits }"""
        m = 1 << self.bits
        c %= m
        out = []
        for a, b in self.ivs:
            a2, b2 = a + c, b + c
            if b2 < m:
                out.append((a2, b2))
            elif a2 >= m:
                out.append((a2 - m, b2 - m))
            else:
                out.append((a2, m - 1))
                out.append((0, b2 - m))
        return ISet(self.bits, out)

    def negate(self):
        """{ (-x) mod 2^bits }"""
        m = 1 << self.bits
        out = []
        for a, b in self.ivs:
            if a == 0:
                out.append((0, 0))
                a = 1
                if a > b:
                    continue
            out.append((m - b, m - a))
        return ISet(self.bits, out)

    def signed_intervals(self):
        m, h = 1 << self.bits, 1 << (self.bits - 1)
        out = []
        for a, b in self.ivs:
            if b < h:
                out.append((a, b))
            elif a >= h:
                out.append((a - m, b - m))
            else:
                out.append((a, h - 1))
                out.append((h - m, b - m))
        return sorted(out)

    def describe(self, signed):
        ivs = self.signed_intervals() if signed else list(self.ivs)
        # merge adjacent signed pieces
        merged = []
        for a, b in sorted(ivs):
            if merged and a == merged[-1][1] + 1:
                merged[-1] = (merged[-1][0], b)
            else:
                merged.append((a, b))
        return " u ".join("[%d, %d]" % iv if iv[0] != iv[1] else "{%d}" % iv[0] for iv in merged) or "{}"


def _pred_set(pred, bits, k):
    """{ y in [0,2^bits) : y pred k }, k a bit pattern"""
    m, h = 1 << bits, 1 << (bits - 1)
    ks = k - m if k >= h else k
    if pred == "eq":
        return ISet(bits, [(k, k)])
    if pred == "ne":
        return ~ISet(bits, [(k, k)])
    if pred == "ult":
        return ISet(bits, [(0, k - 1)])
    if pred == "ule":
        return ISet(bits, [(0, k)])
    if pred == "ugt":
        return ISet(bits, [(k + 1, m - 1)])
    if pred == "uge":
        return ISet(bits, [(k, m - 1)])
    if pred == "slt":
        return ISet.from_signed(bits, -h, ks - 1)
    if pred == "sle":
        return ISet.from_signed(bits, -h, ks)
    if pred == "sgt":
        return ISet.from_signed(bits, ks + 1, h - 1)
    if pred == "sge":
        return ISet.from_signed(bits, ks, h - 1)
    return None


def preimage(x, S, var):
    """{ a : x(a) in S } for an expression x of the free variable `var`; None if x is not invertible here"""
    if x == var:
        return S if S.bits == gate._bits(var[2]) else None
    t = x[0]
    if t == "op":
        op, ty, p, q = x[1], x[2], x[3], x[4]
        if op == "add" and gate.is_c(q):
            return preimage(p, S.shift(-q[2]), var)
        if op == "add" and gate.is_c(p):
            return preimage(q, S.shift(-p[2]), var)
        if op == "sub" and gate.is_c(q):
            return preimage(p, S.shift(q[2]), var)
        if op == "sub" and gate.is_c(p):          # x = C - y  =>  y = C - x
            return preimage(q, S.negate().shift(p[2]), var)
        if op in ("lshr", "ashr") and gate.is_c(q) and q[2] < S.bits:
            # monotone: the preimage of [l,h] under y >> k is [l*2^k, h*2^k + 2^k - 1]
            k = q[2]
            if op == "lshr":
                pre = ISet(S.bits, [(a << k, (b << k) + (1 << k) - 1) for a, b in S.ivs if a < (1 << (S.bits - k))])
            else:
                pre = ISet.empty(S.bits)
                for a, b in S.signed_intervals():
                    pre = pre | ISet.from_signed(S.bits, a << k, (b << k) + (1 << k) - 1)
            return preimage(p, pre, var)
        if op in ("shl", "mul") and S.bits:
            c, y = (q, p) if gate.is_c(q) else ((p, q) if (gate.is_c(p) and op == "mul") else (None, None))
            zero = ISet(S.bits, [(0, 0)])
            if c is not None and (S == zero or S == ~zero):
                # y * C == 0 (mod 2^N)  <=>  y is a multiple of 2^(N - tz(C));  y << k likewise with C = 2^k
                mult = (1 << c[2]) if op == "shl" else c[2]
                if op == "shl" and c[2] >= S.bits:
                    return None
                if mult % (1 << S.bits) == 0:
                    sol = ISet.full(S.bits)
                else:
                    tz = (mult & -mult).bit_length() - 1
                    if tz > 10:
                        return None
                    step = 1 << (S.bits - tz)
                    sol = ISet(S.bits, [(j * step, j * step) for j in range(1 << tz)])
                return preimage(y, sol if S == zero else ~sol, var)
            return None
        if op in ("udiv", "sdiv") and (gate.is_c(p) != gate.is_c(q)):
            return _preimage_div(op, p, q, S, var)
        if op in ("urem", "srem") and gate.is_c(q) and not gate.is_c(p) and q[2] != 0:
            # x = y rem K: periodic in y; only for divisors large enough that the dividend range holds few periods
            N = S.bits
            m = 1 << N
            if op == "urem":
                k = q[2]
                if m // k > 256:
                    return None
                res = S & ISet(N, [(0, k - 1)])
                ivs = []
                for j in range(m // k + 1):
                    for a, b in res.ivs:
                        lo, hi = j * k + a, min(j * k + b, m - 1)
                        if lo <= hi:
                            ivs.append((lo, hi))
                return preimage(p, ISet(N, ivs), var)
            k = abs(gate.sval(q))
            h = m >> 1
            if h // k > 256:
                return None
            ivs = []
            # non-negative dividends: remainder r in [0, k-1]; negative dividends: r in [-(k-1), 0] (sign of the dividend)
            pos = S & ISet(N, [(0, min(k - 1, h - 1))])
            for j in range(h // k + 1):
                for a, b in pos.ivs:
                    lo, hi = j * k + a, min(j * k + b, h - 1)
                    if lo <= hi:
                        ivs.append((lo, hi))
            neg = [(a, b) for a, b in S.signed_intervals() if b <= 0 or a <= 0]
            for j in range(h // k + 1):
                for a, b in neg:
                    a2, b2 = max(a, -(k - 1)), min(b, 0)
                    if a2 > b2:
                        continue
                    lo, hi = -(j * k) + a2, -(j * k) + b2          # dividend y = -(j*k) + r, r <= 0
                    lo = max(lo, -h)
                    if j == 0:
                        lo, hi = max(lo, -(k - 1)), min(hi, -1) if b2 >= 0 and a2 < 0 else hi
                        # r == 0 with y == 0 belongs to the non-negative branch
                        if b2 == 0 and a2 == 0:
                            continue
                        hi = min(hi, -1)
                    if lo <= hi and hi < 0:
                        ivs.append((lo + m, hi + m))
            return preimage(p, ISet(N, ivs), var)
        if op in ("and", "or"):
            c, y = (q, p) if gate.is_c(q) else ((p, q) if gate.is_c(p) else (None, None))
            if c is not None:
                m = 1 << S.bits
                h = m >> 1
                if op == "or" and c[2] == h:       # x = y | signbit
                    hi = S & ISet(S.bits, [(h, m - 1)])
                    return preimage(y, hi | hi.shift(-h), var)
                if op == "and" and c[2] == h - 1:  # x = y & ~signbit
                    lo = S & ISet(S.bits, [(0, h - 1)])
                    return preimage(y, lo | lo.shift(h), var)
                if op == "and" and c[2] == h:      # x = y & signbit: 0 or signbit
                    out = ISet.empty(S.bits)
                    if (S & ISet(S.bits, [(0, 0)])):
                        out = out | ISet(S.bits, [(0, h - 1)])
                    if (S & ISet(S.bits, [(h, h)])):
                        out = out | ISet(S.bits, [(h, m - 1)])
                    return preimage(y, out, var)
                if op == "and" and c[2] != 0 and not (c[2] & (c[2] + 1) == 0) and c[2] not in (h, h - 1):
                    # general mask M: x = y & M.  For each target value t (t & ~M must be 0) the solutions are
                    # t | (any assignment of the bits outside M); the free bits below M's lowest set bit form a run
                    Mk = c[2]
                    tz = (Mk & -Mk).bit_length() - 1
                    free_hi = [b for b in range(tz, S.bits) if not (Mk >> b) & 1]
                    targets = [t for a, b in S.ivs for t in range(a, min(b, a + 4096) + 1)] if S.size() <= 4096 else None
                    if targets is None or len(free_hi) > 10:
                        return None
                    ivs = []
                    for t in targets:
                        if t & ~Mk:
                            continue
                        for combo in range(1 << len(free_hi)):
                            base = t
                            for i, bpos in enumerate(free_hi):
                                if (combo >> i) & 1:
                                    base |= 1 << bpos
                            ivs.append((base, base + (1 << tz) - 1))
                    return preimage(y, ISet(S.bits, ivs), var)
                if op == "and" and c[2] & (c[2] + 1) == 0 and c[2] != 0:   # low-bit mask 2^k - 1
                    k = c[2].bit_length()
                    if S.bits - k <= 10:
                        low = S & ISet(S.bits, [(0, c[2])])
                        ivs = []
                        for j in range(1 << (S.bits - k)):
                            ivs += [(a + (j << k), b + (j << k)) for a, b in low.ivs]
                        return preimage(y, ISet(S.bits, ivs), var)
            return None
        if op == "xor":
            c, y = (q, p) if gate.is_c(q) else ((p, q) if gate.is_c(p) else (None, None))
            if c is not None:
                m = 1 << S.bits
                if c[2] == m - 1:                  # x = ~y  =>  y = -x - 1
                    return preimage(y, S.negate().shift(-1), var)
                if c[2] == m >> 1:                 # flipping the top bit == adding 2^(N-1)
                    return preimage(y, S.shift(m >> 1), var)
                # general constant: xor is a bijection that maps every aligned power-of-two block onto an aligned block
                # of the same size, so each interval is cut into its (at most 2N) maximal aligned blocks
                if len(S.ivs) <= 64:
                    out = []
                    for a, b in S.ivs:
                        lo = a
                        while lo <= b:
                            size = (lo & -lo) if lo else m
                            while size > b - lo + 1:
                                size >>= 1
                            base = (lo ^ c[2]) & ~(size - 1)
                            out.append((base, base + size - 1))
                            lo += size
                    return preimage(y, ISet(S.bits, out), var)
        return None
    if t == "cast":
        kind, src, dst, y = x[1], x[2], x[3], x[4]
        nb, mb = gate._bits(src), gate._bits(dst)
        if not nb or not mb or mb != S.bits:
            return None
        if kind == "zext":
            low = S & ISet(mb, [(0, (1 << nb) - 1)])
            return preimage(y, ISet(nb, low.ivs), var)
        if kind == "sext":
            h = 1 << (nb - 1)
            low = S & ISet(mb, [(0, h - 1)])
            high = S & ISet(mb, [((1 << mb) - h, (1 << mb) - 1)])
            off = (1 << mb) - (1 << nb)
            return preimage(y, ISet(nb, list(low.ivs) + [(a - off, b - off) for a, b in high.ivs]), var)
        if kind == "trunc" and nb - mb <= 10:
            ivs = []
            for k in range(1 << (nb - mb)):
                ivs += [(a + (k << mb), b + (k << mb)) for a, b in S.ivs]
            return preimage(y, ISet(nb, ivs), var)
        return None
    return None


def _tdiv(a, b):
    q = abs(a) // abs(b)
    return q if (a < 0) == (b < 0) else -q


def _mono_range(f, a, b, lo, hi):
    """sub-interval of [a,b] on which the monotone function f takes values in [lo,hi] (None if empty)"""
    fa, fb = f(a), f(b)
    inc = fa <= fb
    def first(pred):
        x, y = a, b
        if not pred(y):
            return b + 1
        while x < y:
            m = (x + y) // 2
            if pred(m):
                y = m
            else:
                x = m + 1
        return x
    if inc:
        s = first(lambda t: f(t) >= lo)
        e = first(lambda t: f(t) > hi) - 1
    else:
        s = first(lambda t: f(t) <= hi)
        e = first(lambda t: f(t) < lo) - 1
    return (s, e) if s <= e else None


def _preimage_div(op, p, q, S, var):
    """quotients with one constant operand are monotone on each sign region of the other: the preimage of an
    interval is found by bisection on the exact function (the abstract transformer of division)"""
    bits = S.bits
    M, h = 1 << bits, 1 << (bits - 1)
    const_first = gate.is_c(p)
    c, y = (p, q) if const_first else (q, p)
    signed = op == "sdiv"
    cv = (c[2] - M if c[2] >= h else c[2]) if signed else c[2]
    targets = S.signed_intervals() if signed else list(S.ivs)
    if const_first:
        f = (lambda t: _tdiv(cv, t)) if signed else (lambda t: cv // t)
        pieces = [(1, h - 1), (-h, -1)] if signed else [(1, M - 1)]
    else:
        if cv == 0:
            return None
        f = (lambda t: _tdiv(t, cv)) if signed else (lambda t: t // cv)
        pieces = [(-h + (1 if cv == -1 else 0), h - 1)] if signed else [(0, M - 1)]
    out = ISet.empty(bits)
    for (a, b) in pieces:
        for (lo, hi) in targets:
            r = _mono_range(f, a, b, lo, hi)
            if r:
                out = out | (ISet.from_signed(bits, r[0], r[1]) if signed else ISet.from_unsigned(bits, r[0], r[1]))
    return preimage(y, out, var)


def _overflow_flag_set(name, y_is_first, k, bits):
    """{ y : op(y, k) (or op(k, y)) overflows } for llvm.{s,u}{add,sub,mul}.with.overflow"""
    import re
    m = re.match(r"llvm\.([su])(add|sub|mul)\.with\.overflow\.i(\d+)", name)
    if not m:
        return None
    sg, op = m.group(1), m.group(2)
    M, h = 1 << bits, 1 << (bits - 1)
    lo, hi = (-h, h - 1) if sg == "s" else (0, M - 1)
    kv = (k - M if k >= h else k) if sg == "s" else k
    mk = (lambda a, b: ISet.from_signed(bits, a, b)) if sg == "s" else (lambda a, b: ISet.from_unsigned(bits, max(a, 0), b))
    full = mk(lo, hi)
    # the set of y for which the exact result stays within [lo, hi]
    if op == "add":
        ok = mk(lo - kv, hi - kv)
    elif op == "sub":
        ok = mk(lo + kv, hi + kv) if y_is_first else mk(kv - hi, kv - lo)
    else:
        if kv == 0:
            ok = full
        elif kv > 0:
            ok = mk(-((-lo) // kv), hi // kv)
        else:
            # y * kv in [lo, hi], kv < 0  <=>  y in [ceil(hi/kv), floor(lo/kv)]
            a = -(hi // -kv)
            b = (-lo) // -kv
            ok = mk(a, b)
    return full - (ok & full)


def _find_ite(e, depth=0):
    if not isinstance(e, tuple) or depth > 12:
        return None
    if e[0] == "ite":
        return e
    for k in e[1:]:
        if isinstance(k, tuple):
            r = _find_ite(k, depth + 1)
            if r is not None:
                return r
    return None


_HINT = [None]     # the part of the variable's domain on which the answer has to be right (set by leaves())


def affine(e, var, depth=0):
    """e == k*var + c over the mathematical integers (casts pass values through unchanged; the caller checks that
    nothing wraps on the domain of interest); returns (k, c) or None"""
    if depth > 20:
        return None
    if e == var:
        return (1, 0)
    if gate.is_c(e):
        return (0, gate.sval(e)) if e[1] > 1 else None
    if e[0] == "cast" and e[1] in ("sext", "zext", "trunc"):
        return affine(e[4], var, depth + 1)
    if e[0] == "op" and e[1] in ("add", "sub"):
        x, y = affine(e[3], var, depth + 1), affine(e[4], var, depth + 1)
        if x is None or y is None:
            return None
        return (x[0] + y[0], x[1] + y[1]) if e[1] == "add" else (x[0] - y[0], x[1] - y[1])
    if e[0] == "op" and e[1] == "mul":
        x, y = affine(e[3], var, depth + 1), affine(e[4], var, depth + 1)
        if x is None or y is None:
            return None
        if x[0] == 0:
            return (x[1] * y[0], x[1] * y[1])
        if y[0] == 0:
            return (y[1] * x[0], y[1] * x[1])
        return None
    if e[0] == "op" and e[1] == "shl" and gate.is_c(e[4]):
        x = affine(e[3], var, depth + 1)
        return None if x is None else (x[0] << e[4][2], x[1] << e[4][2])
    return None


def _affine_cmp(pred, X, Y, var, width):
    """truth set of  X pred Y  for two affine expressions of the variable, valid on the hinted domain only (checked:
    both sides stay inside the signed range of the comparison width there, and the variable is non-negative or the
    comparison is signed)"""
    D = _HINT[0]
    if D is None or not D.ivs:
        return None
    nb = D.bits
    runs = D.signed_intervals()
    lo, hi = runs[0][0], runs[-1][1]
    ax, ay = affine(X, var), affine(Y, var)
    if ax is None or ay is None:
        return None
    lim = 1 << (width - 1)
    for (k, c) in (ax, ay):
        for v in (lo, hi):
            if not (-lim <= k * v + c < lim):
                return None
    if pred[0] == "u":
        # unsigned comparison of values that are non-negative on the domain is the mathematical one
        for (k, c) in (ax, ay):
            if min(k * lo + c, k * hi + c) < 0:
                return None
        pred = {"ult": "lt", "ule": "le", "ugt": "gt", "uge": "ge"}[pred]
    pred = {"slt": "lt", "sle": "le", "sgt": "gt", "sge": "ge"}.get(pred, pred)
    k, c = ax[0] - ay[0], ay[1] - ax[1]          # k*a  pred  c
    def sat(a):
        l, r = k * a, c
        return {"eq": l == r, "ne": l != r, "lt": l < r, "le": l <= r, "gt": l > r, "ge": l >= r}[pred]
    if k == 0:
        return ISet.full(nb) if sat(0) else ISet.empty(nb)
    # monotone in a: at most two boundaries; find them exactly on [lo, hi]
    out = []
    if pred in ("eq", "ne"):
        pts = [c // k] if c % k == 0 and lo <= c // k <= hi else []
        eqset = ISet.from_signed(nb, pts[0], pts[0]) if pts else ISet.empty(nb)
        full = ISet.from_signed(nb, lo, hi)
        res = eqset if pred == "eq" else full - eqset
    else:
        # the set {a in [lo,hi] : sat(a)} is a prefix or a suffix
        if sat(lo) and sat(hi):
            res = ISet.from_signed(nb, lo, hi)
        elif not sat(lo) and not sat(hi):
            res = ISet.empty(nb)
        else:
            a, b = lo, hi
            first = sat(lo)
            while b - a > 1:
                m = (a + b) // 2
                if sat(m) == first:
                    a = m
                else:
                    b = m
            res = ISet.from_signed(nb, lo, a) if first else ISet.from_signed(nb, b, hi)
    # outside the hinted domain the answer is irrelevant: return the set restricted to the domain's hull
    return res


def truth(c, var, depth=0):
    """truth set of an i1 expression of the single free variable; piecewise sub-expressions (ite nested inside an
    arithmetic expression, e.g. |a|) are split on their own condition"""
    r = _truth(c, var)
    if r is not None or depth > 6:
        return r
    inner = None
    if c[0] != "ite":
        inner = _find_ite(c)
    if inner is None:
        return None
    tc_ = truth(inner[1], var, depth + 1)
    if tc_ is None:
        return None
    a = truth(gate.subst(c, inner, inner[2]), var, depth + 1)
    b = truth(gate.subst(c, inner, inner[3]), var, depth + 1)
    if a is None or b is None:
        return None
    return (tc_ & a) | (b - tc_)


def _truth(c, var):
    nb = gate._bits(var[2])
    if gate.is_c(c):
        return ISet.full(nb) if c[2] else ISet.empty(nb)
    t = c[0]
    if t == "icmp":
        pred, ty, x, k = c[1], c[2], c[3], c[4]
        if not gate.is_c(k):
            if gate.is_c(x):
                x, k, pred = k, x, gate._SWAP[pred]
            else:
                return _affine_cmp(pred, x, k, var, gate._bits(ty) or 64)
        mb = gate._bits(ty)
        S = _pred_set(pred, mb, k[2])
        return None if S is None else preimage(x, S, var)
    if t == "icmpx":
        mp, xa, xb = c[1], c[2], c[3]
        if xa[0] == "math" and xb[0] != "math":
            xa, xb, mp = xb, xa, {"eq": "eq", "ne": "ne", "lt": "gt", "le": "ge", "gt": "lt", "ge": "le"}[mp]
        if xb[0] != "math" and xa[0] != "math":
            # both sides are expressions of the variable: affine comparison (by-value view: mathematical predicate)
            w = max(gate._bits(xa[1]) or 0, gate._bits(xb[1]) or 0) + 1
            mpred = {"eq": "eq", "ne": "ne", "lt": "slt", "le": "sle", "gt": "sgt", "ge": "sge"}[mp]
            if xa[0] == "zext" or xb[0] == "zext":
                # a zero-extended side is read as unsigned: only sound if it is non-negative as a signed value too; _affine_cmp checks ranges
                pass
            return _affine_cmp(mpred, xa[2], xb[2], var, w)
        if xb[0] != "math" or xa[0] == "math":
            return None
        kind, ty, x = xa
        v = xb[2]
        mb = gate._bits(ty)
        if not mb:
            return None
        M, h = 1 << mb, 1 << (mb - 1)
        lo, hi = (-h, h - 1) if kind == "sext" else (0, M - 1)
        rng = {"eq": (v, v), "lt": (lo, v - 1), "le": (lo, v), "gt": (v + 1, hi), "ge": (v, hi)}.get(mp)
        mk = (lambda a, b: ISet.from_signed(mb, a, b)) if kind == "sext" else (lambda a, b: ISet.from_unsigned(mb, max(a, 0), b))
        if mp == "ne":
            S = mk(lo, hi) - mk(v, v)
        else:
            a, b = max(rng[0], lo), min(rng[1], hi)
            S = mk(a, b) if a <= b else ISet.empty(mb)
        return preimage(x, S, var)
    if t == "op" and c[2] == "i1":
        a, b = truth(c[3], var), truth(c[4], var)
        if a is None or b is None:
            return None
        if c[1] == "and":
            return a & b
        if c[1] == "or":
            return a | b
        if c[1] == "xor":
            return (a - b) | (b - a)
        return None
    if t == "ite":
        cc, a, b = truth(c[1], var), truth(c[2], var), truth(c[3], var)
        if cc is None or a is None or b is None:
            return None
        return (cc & a) | (b - cc)
    if t == "extract" and c[2] == "1" and c[1][0] == "call":
        args = c[1][3]
        if len(args) == 2:
            (ty0, p), (ty1, q) = args
            mb = gate._bits(ty0)
            if gate.is_c(q) and not gate.is_c(p):
                S = _overflow_flag_set(c[1][2], True, q[2], mb)
                return None if S is None else preimage(p, S, var)
            if gate.is_c(p) and not gate.is_c(q):
                S = _overflow_flag_set(c[1][2], False, p[2], mb)
                return None if S is None else preimage(q, S, var)
    return None


class Undecided(Exception):
    pass


def leaves(g, var, D):
    """partition the domain D of the free variable by the ite tree g: [(ISet, leaf expression)]"""
    out = []

    def walk(e, dom):
        if not dom:
            return
        _HINT[0] = dom
        if e[0] == "ite":
            T = truth(e[1], var)
            if T is None:
                raise Undecided("condition not analysable: " + gate.show(e[1])[:200])
            walk(e[2], dom & T)
            walk(e[3], dom - T)
        else:
            inner = _find_ite(e)
            if inner is not None:
                # a piecewise sub-expression inside the leaf (e.g. a +/- bias chosen by sign): split on its condition
                T = truth(inner[1], var)
                if T is None:
                    raise Undecided("condition not analysable: " + gate.show(inner[1])[:200])
                walk(gate.subst(e, inner, inner[2]), dom & T)
                walk(gate.subst(e, inner, inner[3]), dom - T)
                return
            out.append((dom, e))
    walk(g, D)
    return out
