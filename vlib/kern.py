"""Kernel engine: generate translation units of extern "C" kernels, compile them to
LLVM IR in parallel, attribute compile errors to kernels, compare normal forms.
"""
import os, re, json, time
from . import tc, ir, gate


class Kernel:
    """One extern "C" function over opaque parameters.

    ret     C++ return type
    params  list of (type, name)
    pre     list of C++ boolean expressions over the params, assumed (conjunctive)
    body    C++ statements, ending in a return
    """
    def __init__(self, name, ret, params, body, pre=()):
        self.name, self.ret, self.params, self.body, self.pre = name, ret, list(params), body, list(pre)

    def source(self):
        ps = ", ".join("%s %s" % p for p in self.params)
        pre = "".join("  __builtin_assume(%s);\n" % c for c in self.pre)
        return 'extern "C" %s %s(%s)\n{\n%s  %s\n}\n' % (self.ret, self.name, ps, pre, self.body)


class Ob:
    """An obligation.  kind 'eq': cnl kernel must be equivalent to one of refs.
    kind 'ir': just compile `cnl` and hand the IR function to `judge`."""
    def __init__(self, key, ret, params, cnl, refs=(), pre=(), cfg="clang", mode="eq", decls="",
                 may_reject=False, meta=None, kind="eq", alts=()):
        self.key, self.ret, self.params, self.cnl, self.refs = key, ret, list(params), cnl, list(refs)
        self.pre, self.cfg, self.mode, self.decls = list(pre), cfg, mode, decls
        self.may_reject, self.meta, self.kind = may_reject, meta or {}, kind
        self.alts = list(alts)   # [(finding_key, body)]: recorded defective behaviours; a match never proves, it only names the finding
        self.matched_alt = None
        # results
        self.status = None   # 'proved' | 'refuted' | 'rejected' | 'broken'
        self.detail = ""
        self.nf_cnl = None
        self.nf_refs = []
        self.matched_ref = None
        self.pipeline = None
        self.fn_text = None


def _tu_source(cfg, obs):
    lines = tc.PRELUDE[cfg].split("\n")
    lines += ["using namespace cnl;", "namespace lit = cnl::literals;", ""]
    linemap = []  # (first, last, ob_index, which)
    for i, ob in enumerate(obs):
        if ob.decls:
            start = len(lines) + 1
            dl = ("namespace ns%d {\n%s\n}\nusing namespace ns%d;" % (i, ob.decls, i)).split("\n") if False else ob.decls.split("\n")
            lines += dl
            linemap.append((start, len(lines), i, "decls"))
        ks = [("cnl", Kernel("k%d_cnl" % i, ob.ret, ob.params, ob.cnl, ob.pre))]
        for j, r in enumerate(ob.refs):
            ks.append(("ref%d" % j, Kernel("k%d_ref%d" % (i, j), ob.ret, ob.params, r, ob.pre)))
        for j, (fk, r) in enumerate(ob.alts):
            ks.append(("alt%d" % j, Kernel("k%d_alt%d" % (i, j), ob.ret, ob.params, r, ob.pre)))
        for which, k in ks:
            start = len(lines) + 1
            lines += k.source().split("\n")
            linemap.append((start, len(lines), i, which))
    return "\n".join(lines) + "\n", linemap


def _attribute(stderr, srcname, linemap):
    """map compiler diagnostics to kernels by line"""
    bad = {}
    cur_err = None
    blocks = re.split(r"(?m)^(?=\S+:\d+:\d+: (?:fatal )?error:)", stderr)
    for blk in blocks:
        if "error:" not in blk:
            continue
        first = blk.split("\n", 1)[0]
        hit = False
        for m in re.finditer(re.escape(srcname) + r":(\d+):", blk):
            ln = int(m.group(1))
            for (a, b, i, which) in linemap:
                if a <= ln <= b:
                    bad.setdefault((i, which), first)
                    hit = True
        if not hit:
            bad.setdefault((-1, "tu"), first)
    return bad


def compile_batch(work, tag, cfg, mode, obs, extra_flags=()):
    """compile one TU holding obs; returns (module or None, rejected dict, log)"""
    active = list(range(len(obs)))
    rejected = {}
    for attempt in range(12):
        sub = [obs[i] for i in active]
        src, linemap = _tu_source(cfg, sub)
        srcname = "%s_%d.cpp" % (tag, attempt)
        path = os.path.join(work, srcname)
        with open(path, "w") as f:
            f.write(src)
        out = path[:-4] + ".ll"
        rc, so, se, cmd = tc.clang_ll(path, out, mode, extra_flags)
        if rc == 0:
            if mode == "eqcut":
                pats = sorted({p for ob in sub for p in ob.meta.get("cut", [])})
                raw, out = out, out[:-3] + ".opt.ll"
                done = tc.cut_functions(raw, out, pats)
                for ob in sub:
                    ob.meta["cut_done"] = [d for d in done if any(re.search(p, d) for p in ob.meta.get("cut", []))]
            with open(out) as f:
                mod = ir.parse_module(f.read())
            return mod, active, rejected, out, cmd
        bad = _attribute(se, srcname, linemap)
        if not bad or (-1, "tu") in bad:
            raise tc.AnalysisBroken("TU %s does not compile and the error cannot be attributed to a kernel:\n%s" % (srcname, se[:3000]))
        drop = set()
        for (i, which), msg in bad.items():
            gi = active[i]
            rejected.setdefault(gi, []).append((which, msg))
            drop.add(gi)
        active = [g for g in active if g not in drop]
        if not active:
            return None, [], rejected, None, cmd
    raise tc.AnalysisBroken("TU %s still fails after 12 attribution rounds" % tag)


def run_obligations(work, obs, batch=24, second_chance=True, log=None):
    """Decide a list of Ob.  Groups by (cfg, mode), batches, compiles in parallel."""
    groups = {}
    for ob in obs:
        groups.setdefault((ob.cfg, ob.mode), []).append(ob)
    jobs = []
    for (cfg, mode), lst in groups.items():
        for b in range(0, len(lst), batch):
            jobs.append((cfg, mode, lst[b:b + batch], "tu_%s_%s_%d" % (cfg, mode, b // batch)))

    def do(job):
        cfg, mode, lst, tag = job
        try:
            mod, active, rejected, llpath, cmd = compile_batch(work, tag, cfg, mode, lst)
        except tc.AnalysisBroken as e:
            for ob in lst:
                ob.status, ob.detail = "broken", str(e)
            return
        for gi, why in rejected.items():
            ob = lst[gi]
            whichs = [w for w, _ in why]
            if any(w != "cnl" for w in whichs) and "cnl" not in whichs:
                ob.status, ob.detail = "broken", "reference/decl does not compile: %s" % why
            elif ob.may_reject:
                ob.status, ob.detail = "rejected", "; ".join(m for _, m in why)[:400]
            else:
                ob.status, ob.detail = "broken", "CNL kernel does not compile: " + "; ".join(m for _, m in why)[:600]
        if mod is None:
            return
        pend = []
        for li, gi in enumerate(active):
            ob = lst[gi]
            ob.cmd = " ".join(cmd)
            fn = mod.functions.get("k%d_cnl" % li)
            if fn is None:
                ob.status, ob.detail = "broken", "kernel missing from IR"
                continue
            ob.fn_text = fn.text()
            if ob.kind != "eq":
                ob.fn = fn
                ob.mod = mod
                ob.ref_fns = [mod.functions.get("k%d_ref%d" % (li, j)) for j in range(len(ob.refs))]
                ob.status = "compiled"
                continue
            try:
                ob.nf_cnl = ir.normal_form(mod, fn)
                ob.nf_refs = [ir.normal_form(mod, mod.functions["k%d_ref%d" % (li, j)]) for j in range(len(ob.refs))]
            except Exception as e:
                ob.status, ob.detail = "broken", "normaliser failed: %r" % e
                continue
            ob.ref_texts = [mod.functions["k%d_ref%d" % (li, j)].text() for j in range(len(ob.refs))]
            for j, nf in enumerate(ob.nf_refs):
                if nf == ob.nf_cnl:
                    ob.status, ob.matched_ref, ob.pipeline = "proved", j, mode
                    break
            else:
                if _gated_match(mod, li, ob, mode):
                    continue
                pend.append((li, ob))
        if pend and second_chance and llpath:
            # second pipeline: run the module through opt -O2 again, compare again
            for pname, passes in (("O2+O2", "default<O2>"), ("O2+O3", "default<O3>")):
                if not pend:
                    break
                out2 = llpath[:-3] + "." + pname.replace("+", "_") + ".ll"
                rc, so, se, _ = tc.opt_passes(llpath, out2, passes)
                if rc != 0:
                    break
                with open(out2) as f:
                    mod2 = ir.parse_module(f.read())
                still = []
                for li, ob in pend:
                    try:
                        nfc = ir.normal_form(mod2, mod2.functions["k%d_cnl" % li])
                        nfr = [ir.normal_form(mod2, mod2.functions["k%d_ref%d" % (li, j)]) for j in range(len(ob.refs))]
                    except Exception:
                        still.append((li, ob))
                        continue
                    for j, nf in enumerate(nfr):
                        if nf == nfc:
                            ob.status, ob.matched_ref, ob.pipeline = "proved", j, pname
                            break
                    else:
                        if not _gated_match(mod2, li, ob, pname):
                            still.append((li, ob))
                pend = still
        for li, ob in pend:
            ob.status = "refuted"
            ob.detail = "no reference normal form equals the CNL kernel's"
            for j, (fk, body) in enumerate(ob.alts):
                try:
                    fa = mod.functions["k%d_alt%d" % (li, j)]
                    same = ir.normal_form(mod, fa) == ob.nf_cnl
                    if not same:
                        with gate.LOCK:
                            ga, gc = gate.gated(mod, fa), gate.gated(mod, mod.functions["k%d_cnl" % li])
                            same = ga == gc or gate.expand(ga) == gate.expand(gc)
                except Exception:
                    same = False
                if same:
                    ob.matched_alt = fk
                    ob.meta["finding_key"] = fk
                    ob.detail = "the CNL kernel equals the recorded defective behaviour `%s`" % body
                    break

    tc.pmap(do, jobs)
    return obs


def _gated_match(mod, li, ob, pname):
    with gate.LOCK:
        return _gated_match_locked(mod, li, ob, pname)


def _gated_match_locked(mod, li, ob, pname):
    """second normal form: gated expressions (loop-free functions only)"""
    try:
        g = gate.gated(mod, mod.functions["k%d_cnl" % li])
    except (gate.Unsupported, RecursionError, KeyError, AttributeError, ValueError, TypeError) as e:
        ob.gated_note = "gated form unavailable: %r" % (e,)
        return False
    ob.gated_cnl = gate.show(g)
    ob.gated_refs = []
    for j in range(len(ob.refs)):
        try:
            r = gate.gated(mod, mod.functions["k%d_ref%d" % (li, j)])
        except (gate.Unsupported, RecursionError, KeyError, AttributeError, ValueError, TypeError) as e:
            ob.gated_refs.append("unavailable: %r" % (e,))
            continue
        ob.gated_refs.append(gate.show(r))
        if r != g:
            try:
                ge, re_ = gate.expand(g), gate.expand(r)
            except RecursionError:
                ge, re_ = g, r
            if ge == re_:
                ob.status, ob.matched_ref, ob.pipeline = "proved", j, pname + "+gated+expand"
                return True
            ob.gated_cnl = gate.show(ge)
            ob.gated_refs[-1] = gate.show(re_)
        if r == g:
            ob.status, ob.matched_ref, ob.pipeline = "proved", j, pname + "+gated"
            return True
    return False


def ob_report(ob):
    """replay payload for an obligation"""
    d = {"key": ob.key, "cfg": ob.cfg, "mode": ob.mode, "ret": ob.ret, "params": ob.params, "pre": ob.pre,
         "decls": ob.decls, "cnl": ob.cnl, "refs": ob.refs, "status": ob.status, "detail": ob.detail,
         "meta": ob.meta, "cmd": getattr(ob, "cmd", None)}
    if ob.nf_cnl is not None:
        d["cnl_normal_form"] = ob.nf_cnl.pretty
        d["ref_normal_forms"] = [n.pretty for n in ob.nf_refs]
    if getattr(ob, "gated_cnl", None):
        d["cnl_gated"] = ob.gated_cnl
        d["ref_gated"] = getattr(ob, "gated_refs", None)
    if ob.fn_text:
        d["cnl_ir"] = ob.fn_text
        d["ref_ir"] = getattr(ob, "ref_texts", None)
    return d
