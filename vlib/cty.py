"""Model of the C++ integer types on LP64 (x86-64 Linux), written from the C++ standard
([conv.prom], [expr.arith.conv]) — the oracle for result representations."""


class CT:
    def __init__(self, name, bits, signed, rank, short):
        self.name, self.bits, self.signed, self.rank, self.short = name, bits, signed, rank, short
        self.digits = bits - (1 if signed else 0)
        self.min = -(1 << (bits - 1)) if signed else 0
        self.max = (1 << self.digits) - 1

    def __repr__(self):
        return self.short

    def lit(self, v):
        """C++ expression of this type with value v"""
        if self.bits <= 64:
            if self.signed:
                if v == self.min:
                    return "(%s)(-%dLL-1)" % (self.name, -(v + 1))
                return "(%s)(%dLL)" % (self.name, v)
            return "(%s)(%dULL)" % (self.name, v)
        hi, lo = (v >> 64) & ((1 << 64) - 1), v & ((1 << 64) - 1)
        return "(%s)((((unsigned __int128)%dULL)<<64)|%dULL)" % (self.name, hi, lo)


I8 = CT("std::int8_t", 8, True, 1, "i8")
U8 = CT("std::uint8_t", 8, False, 1, "u8")
I16 = CT("std::int16_t", 16, True, 2, "i16")
U16 = CT("std::uint16_t", 16, False, 2, "u16")
I32 = CT("std::int32_t", 32, True, 3, "i32")
U32 = CT("std::uint32_t", 32, False, 3, "u32")
I64 = CT("std::int64_t", 64, True, 4, "i64")
U64 = CT("std::uint64_t", 64, False, 4, "u64")
I128 = CT("cnl::int128_t", 128, True, 6, "i128")
U128 = CT("cnl::uint128_t", 128, False, 6, "u128")
ALL64 = [I8, U8, I16, U16, I32, U32, I64, U64]
ALL128 = ALL64 + [I128, U128]
BY_SHORT = dict((t.short, t) for t in ALL128)


def promote(t):
    if t.rank < 3:
        return I32  # int can represent all values of (u)int8/16
    return t


def uac(a, b):
    """usual arithmetic conversions for two integer operands"""
    a, b = promote(a), promote(b)
    if a is b:
        return a
    if a.signed == b.signed:
        return a if a.rank >= b.rank else b
    s, u = (a, b) if a.signed else (b, a)
    if u.rank >= s.rank:
        return u
    if s.digits >= u.digits:
        return s
    return {I32: U32, I64: U64, I128: U128}[s]


def result_type(op, a, b=None):
    """type of the built-in expression"""
    if b is None:
        return promote(a)
    if op in ("<<", ">>"):
        return promote(a)
    if op in ("==", "!=", "<", "<=", ">", ">="):
        return None  # bool
    return uac(a, b)
