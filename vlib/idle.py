"""Idle-cycle rule: a necessary condition for the termination of a loop.

A cycle of a natural loop (a path header -> ... -> header inside the loop) is *idle* when going round it changes nothing
the next iteration can see:
  * it contains no store and no call that may write memory, and
  * every phi of the header receives, along the cycle's back edge, either its own value, a value loaded from memory, a
    loop invariant, or a pure function of those and of header phis that themselves receive their own value.
After one trip round an idle cycle the state (memory, header phis) is a fixed point of that trip, so if the cycle is
taken twice in a row it is taken forever.  Every cycle of a terminating loop must therefore make progress.

Decided on -O1 -fno-inline IR (locals whose address escapes stay in memory, everything else is in SSA form, every CNL
function is still a call).  Purity of callees is computed over the module: a function is pure when it has no store
through a pointer that is not one of its own allocas and calls only pure functions / a fixed list of intrinsics; an
indirect call is pure when every address-taken function of the module is pure.

Limit (stated, not hidden): an idle cycle that is dead code would also be reported.
"""
import re
from . import ir

_PURE_DECLS = ("llvm.lifetime.", "llvm.dbg.", "llvm.assume", "llvm.experimental.noalias", "llvm.abs.", "llvm.smax.", "llvm.smin.", "llvm.umax.", "llvm.umin.",
               "llvm.ctlz.", "llvm.cttz.", "llvm.ctpop.", "llvm.fshl.", "llvm.fshr.", "llvm.sadd.", "llvm.ssub.", "llvm.smul.", "llvm.uadd.", "llvm.usub.", "llvm.umul.")
_VAL = re.compile(r"%(?:\"[^\"]*\"|[-\w.$]+)")


def _lines(fn):
    return [(lab, l) for lab in fn.order for l in fn.blocks[lab]]


def _defs(fn):
    d = {}
    for lab, l in _lines(fn):
        m = re.match(r"^(%(?:\"[^\"]*\"|[-\w.$]+))\s*=\s*(.*)$", l)
        if m:
            d[m.group(1)] = (lab, m.group(2))
    return d


def _own_alloca(fn, defs, ptr, depth=0):
    """is `ptr` derived (gep/bitcast) from an alloca of this function?"""
    if depth > 8 or ptr not in defs:
        return False
    body = defs[ptr][1]
    if body.startswith("alloca "):
        return True
    if body.startswith(("getelementptr", "bitcast")):
        ops = _VAL.findall(body)
        return bool(ops) and _own_alloca(fn, defs, ops[0], depth + 1)
    return False


def callee_candidates(mod, fn, defs, v, depth=0):
    """functions an indirectly called pointer may denote: through select / phi, and through a call of a function of the
    module all of whose returns are one constant function (a lambda's conversion to function pointer); None if unknown"""
    if depth > 6:
        return None
    if v.startswith("@"):
        return {v[1:]} if v[1:] in mod.functions else None
    if v not in defs:
        return None
    body = defs[v][1]
    m = re.match(r"^select i1 [^,]+, [^@%]*([@%][^\s,]+), [^@%]*([@%][^\s,]+)$", body)
    if m:
        a, b = callee_candidates(mod, fn, defs, m.group(1), depth + 1), callee_candidates(mod, fn, defs, m.group(2), depth + 1)
        return None if a is None or b is None else a | b
    m = re.match(r"^phi \S.*? (\[.*)$", body)
    if m:
        out = set()
        for vv, bb in re.findall(r"\[\s*([^,\]]+),\s*%(\"[^\"]*\"|[-\w.$]+)\s*\]", m.group(1)):
            c = callee_candidates(mod, fn, defs, vv.strip(), depth + 1)
            if c is None:
                return None
            out |= c
        return out
    m = re.search(r"(?:call|invoke)\s[^@%]*@([\w.$]+)\(", body)
    if m and m.group(1) in mod.functions:
        g = mod.functions[m.group(1)]
        rets = [l for lab in g.order for l in g.blocks[lab] if l.startswith("ret ")]
        outs = set()
        for rl in rets:
            mm = re.search(r"@([\w.$]+)\s*$", rl)
            if not mm or mm.group(1) not in mod.functions:
                return None
            outs.add(mm.group(1))
        return outs or None
    return None


def purity(mod):
    """{function name: True/False}; declarations other than the listed intrinsics are impure"""
    taken = set()
    for n, f in mod.functions.items():
        for lab, l in _lines(f):
            body = re.sub(r"(call|invoke)\s[^@%]*@[\w.$]+\(", "call(", l)
            for m in re.finditer(r"@([\w.$]+)", body):
                if m.group(1) in mod.functions:
                    taken.add(m.group(1))
    pure = dict((n, True) for n in mod.functions)
    changed = True
    rounds = 0
    while changed and rounds < 50:
        changed = False
        rounds += 1
        for n, f in mod.functions.items():
            if not pure[n]:
                continue
            defs = _defs(f)
            ok = True
            for lab, l in _lines(f):
                body = l.split("=", 1)[1].strip() if re.match(r"^%\S+\s*=", l) else l
                if body.startswith("store "):
                    m = re.match(r"^store .*?, \S+ (%(?:\"[^\"]*\"|[-\w.$]+))", body)
                    if not (m and _own_alloca(f, defs, m.group(1))):
                        ok = False
                elif body.startswith(("call", "invoke", "tail call", "musttail call", "notail call")):
                    m = re.search(r"(?:call|invoke)\s[^@%]*@([\w.$]+)\(", body)
                    if m:
                        c = m.group(1)
                        if c in mod.functions:
                            ok = ok and pure[c]
                        elif not c.startswith(_PURE_DECLS):
                            ok = False
                    else:       # indirect
                        mi = re.search(r"(?:call|invoke)\s[^@%(]*?(%(?:\"[^\"]*\"|[-\w.$]+))\(", body)
                        cands = callee_candidates(mod, f, defs, mi.group(1)) if mi else None
                        ok = ok and (all(pure[t] for t in cands) if cands is not None else all(pure[t] for t in taken))
                elif body.startswith(("atomicrmw", "cmpxchg", "fence")):
                    ok = False
                if not ok:
                    break
            if not ok:
                pure[n] = False
                changed = True
    return pure, taken


def loops_of(fn):
    succ = {}
    for lab in fn.order:
        t = fn.blocks[lab][-1] if fn.blocks[lab] else ""
        body = t.split("=", 1)[1].strip() if re.match(r"^%\S+\s*=", t) else t
        succ[lab] = [x[1:] for x in ir._successors(body)]
    color, back = {}, []

    def dfs(b):
        color[b] = 1
        for x in succ.get(b, []):
            if color.get(x) == 1:
                back.append((b, x))
            elif x not in color:
                dfs(x)
        color[b] = 2
    dfs(fn.order[0])
    pred = {}
    for a, ss in succ.items():
        for b in ss:
            pred.setdefault(b, []).append(a)
    loops = {}
    for latch, header in back:
        body, st = {header, latch}, [latch]
        while st:
            x = st.pop()
            if x == header:
                continue
            for p in pred.get(x, []):
                if p not in body:
                    body.add(p)
                    st.append(p)
        loops.setdefault(header, set()).update(body)
    return loops, succ


def _phis(fn, lab):
    out = []
    for l in fn.blocks[lab]:
        m = re.match(r"^(%(?:\"[^\"]*\"|[-\w.$]+))\s*=\s*phi (\S+) (.*)$", l)
        if not m:
            break
        inc = dict((b, v.strip()) for v, b in re.findall(r"\[\s*([^,\]]+),\s*%(\"[^\"]*\"|[-\w.$]+)\s*\]", m.group(3)))
        out.append((m.group(1), inc))
    return out


def idle_cycles(mod, fn, pure, taken, max_paths=400):
    """[(header, [blocks of the cycle])] for every idle cycle of every natural loop of fn; raises ValueError when a
    loop has more simple cycles than max_paths"""
    loops, succ = loops_of(fn)
    defs = _defs(fn)
    found = []
    nloops = 0
    for header, body in loops.items():
        nloops += 1
        paths = []

        def walk(b, path):
            if len(paths) > max_paths:
                raise ValueError("too many cycles in loop %s" % header)
            for x in succ.get(b, []):
                if x == header:
                    paths.append(path + [header])
                elif x in body and x not in path:
                    walk(x, path + [x])
        walk(header, [header])
        hphis = _phis(fn, header)
        for path in paths:
            cyc = path[:-1]
            latch = cyc[-1]
            edge_pred = dict((cyc[i], cyc[i - 1]) for i in range(1, len(cyc)))   # block -> predecessor on this path
            progress = False
            for b in cyc:
                for l in fn.blocks[b]:
                    body_ = l.split("=", 1)[1].strip() if re.match(r"^%\S+\s*=", l) else l
                    if body_.startswith("store ") or body_.startswith(("atomicrmw", "cmpxchg", "fence")):
                        progress = True
                    elif re.match(r"^(tail |musttail |notail )?(call|invoke)\b", body_):
                        m = re.search(r"(?:call|invoke)\s[^@%]*@([\w.$]+)\(", body_)
                        if m:
                            c = m.group(1)
                            if c in mod.functions:
                                progress = progress or not pure[c]
                            elif not c.startswith(_PURE_DECLS):
                                progress = True
                        else:
                            mi = re.search(r"(?:call|invoke)\s[^@%(]*?(%(?:\"[^\"]*\"|[-\w.$]+))\(", body_)
                            cands = callee_candidates(mod, fn, defs, mi.group(1)) if mi else None
                            progress = progress or not (all(pure[t] for t in cands) if cands is not None else all(pure[t] for t in taken))
                if progress:
                    break
            if progress:
                continue
            # header phi updates along this cycle
            ident = set()
            upd = {}
            for p, inc in hphis:
                v = inc.get(latch)
                upd[p] = v

            def resolve(v, depth=0):
                """follow non-header phis along the path's edges"""
                while v in defs and depth < 20:
                    lab, b_ = defs[v]
                    m = re.match(r"^phi \S+ (.*)$", b_)
                    if not m or lab == header or lab not in edge_pred:
                        break
                    inc = dict((bb, vv.strip()) for vv, bb in re.findall(r"\[\s*([^,\]]+),\s*%(\"[^\"]*\"|[-\w.$]+)\s*\]", m.group(1)))
                    nv = inc.get(edge_pred[lab])
                    if nv is None:
                        break
                    v = nv
                    depth += 1
                return v
            for p in upd:
                upd[p] = resolve(upd[p]) if upd[p] is not None else None
                if upd[p] == p:
                    ident.add(p)
            hnames = set(p for p, _ in hphis)

            def stable(v, depth=0):
                if v is None or depth > 30:
                    return False
                v = resolve(v)
                if not v.startswith("%"):
                    return True                       # constant
                if v in hnames:
                    return v in ident
                if v not in defs:
                    return True                       # parameter: loop invariant
                lab, b_ = defs[v]
                if lab not in body:
                    return True                       # defined outside the loop: invariant
                if b_.startswith("load "):
                    return True                       # no store on the cycle: memory is what it was
                if b_.startswith("phi "):
                    return False
                if re.match(r"^(tail |musttail |notail )?(call|invoke)\b", b_):
                    return all(stable(x, depth + 1) for x in _VAL.findall(b_))   # pure (checked above): a function of its operands
                return all(stable(x, depth + 1) for x in _VAL.findall(b_))
            if all(stable(upd[p]) for p in upd):
                found.append((header, cyc))
    return found, nloops
