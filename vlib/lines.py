"""The 'line' engine: a checked operation with one operand pinned to a literal constant is a function of a single
free variable.  Its optimised IR is re-expressed as an ite tree (gate.gated), the tree partitions the variable's
domain into interval sets (iset.leaves), and each part is compared with what an exact oracle demands there:
the plain result, the saturation bound, or the overflow signal of the right polarity.  The verdict holds for every
value of the free operand at once; nothing is evaluated at a point."""
import re
from . import gate, iset
from .iset import ISet


def zones_monotone(f, lo, hi, rmin, rmax, direction):
    """split the free operand's range [lo,hi] by the exact result f(a) vs [rmin,rmax];
    f is monotone (direction +1 non-decreasing, -1 non-increasing, 0 constant).  Returns {'ok','high','low'} -> (a,b) or None"""
    def first_true(pred, a, b):
        # smallest x in [a,b] with pred(x) (pred monotone false..true); b+1 if none
        if a > b or not pred(b):
            return b + 1
        while a < b:
            m = (a + b) // 2
            if pred(m):
                b = m
            else:
                a = m + 1
        return a
    z = {"ok": None, "high": None, "low": None}
    if direction == 0:
        v = f(lo)
        z["high" if v > rmax else "low" if v < rmin else "ok"] = (lo, hi)
        return z
    if direction > 0:
        x_ok = first_true(lambda x: f(x) >= rmin, lo, hi)      # below: low
        x_hi = first_true(lambda x: f(x) > rmax, lo, hi)       # from here: high
        if x_ok > lo:
            z["low"] = (lo, x_ok - 1)
        if x_hi <= hi:
            z["high"] = (x_hi, hi)
        if x_ok <= x_hi - 1:
            z["ok"] = (x_ok, x_hi - 1)
    else:
        x_ok = first_true(lambda x: f(x) <= rmax, lo, hi)      # below: high
        x_lo = first_true(lambda x: f(x) < rmin, lo, hi)       # from here: low
        if x_ok > lo:
            z["high"] = (lo, x_ok - 1)
        if x_lo <= hi:
            z["low"] = (x_lo, hi)
        if x_ok <= x_lo - 1:
            z["ok"] = (x_ok, x_lo - 1)
    return z


def _injective(e, var):
    """is the expression an injective function of the free variable (mod 2^N)?"""
    if e == var:
        return True
    if e[0] == "op" and e[1] in ("add", "sub", "xor"):
        if gate.is_c(e[4]):
            return _injective(e[3], var)
        if gate.is_c(e[3]):
            return _injective(e[4], var)
    if e[0] == "op" and e[1] == "mul":
        for c, y in ((e[3], e[4]), (e[4], e[3])):
            if gate.is_c(c) and c[2] % 2 == 1:
                return _injective(y, var)
    if e[0] == "op" and e[1] == "shl" and gate.is_c(e[4]):
        return False
    if e[0] == "cast" and e[1] in ("zext", "sext"):
        return _injective(e[4], var)
    return False


def _unit_slope(e, var):
    """e(x+1) == e(x) + 1 for consecutive x away from the wrap points: returns 0 (no), 1 (plain), 2 (through an extension)"""
    if e == var:
        return 1
    if e[0] == "op" and e[1] in ("add", "sub") and gate.is_c(e[4]):
        return _unit_slope(e[3], var)
    if e[0] == "op" and e[1] == "add" and gate.is_c(e[3]):
        return _unit_slope(e[4], var)
    if e[0] == "cast" and e[1] in ("zext", "sext"):
        return 2 if _unit_slope(e[4], var) else 0
    return 0


def _nonconstant(e, var, P):
    """does the expression provably take at least two different values on the set P of the free variable?"""
    longest = max((b - a + 1 for a, b in P.ivs), default=0)
    if _injective(e, var) and P.size() >= 2:
        return True
    if e[0] == "op" and e[1] in ("shl", "mul"):
        bits = gate._bits(e[2])
        for c, g in ((e[4], e[3]), (e[3], e[4])):
            if gate.is_c(c) and not gate.is_c(g):
                if e[1] == "shl" and (c is not e[4] or c[2] >= bits):
                    continue
                if e[1] == "mul" and c[2] == 0:
                    continue
                us = _unit_slope(g, var)
                # consecutive operand values give results that differ by C (or 2^k) != 0 mod 2^N
                if (us == 1 and longest >= 2) or (us == 2 and longest >= 3):
                    return True
    if e[0] == "op" and e[1] == "sub" and gate.is_c(e[3]):
        return _nonconstant(e[4], var, P)
    return False


def leaf_kind(leaf):
    if leaf[0] == "effect":
        if leaf[1] == "throw":
            return ("throw", leaf[2][0][2], leaf[2][1][2])
        msg = ""
        for a in leaf[2]:
            m = re.search(r'c"([^"]*?)\\00"', str(a))
            if m:
                msg = m.group(1)
        return ("call", leaf[1], msg)
    if gate.is_c(leaf):
        return ("const", leaf[2])
    if leaf == gate.UNDEF:
        return ("undef",)
    return ("expr",)


def _only_sext(e, depth=0):
    if not isinstance(e, tuple) or depth > 30:
        return True
    if e[0] == "cast" and e[1] in ("zext", "trunc"):
        return False
    return all(_only_sext(k, depth + 1) for k in e if isinstance(k, tuple))


def _point_image(leaf, var, P, signed_free, rbits):
    """forward image of a one-point set through an affine leaf (None when P has more than one point, the leaf is not
    affine, or a negative point would pass through a zero extension / truncation)"""
    if P.size() != 1:
        return None
    aff = iset.affine(leaf, var)
    if aff is None:
        return None
    x0 = (P.signed_intervals() if signed_free else list(P.ivs))[0][0]
    if x0 < 0 and not _only_sext(leaf):
        return None
    if not _only_sext(leaf) and x0 >= (1 << (P.bits - 1)):
        return None
    return (aff[0] * x0 + aff[1]) & ((1 << rbits) - 1)


def decide(gk, gref, var, domain, zones, expect, signed_free, rbits, exact=None, okjudge=None):
    """gk: gated CNL kernel; gref: gated plain-operation reference; domain: ISet of admissible free values;
    zones: {'ok'|'high'|'low': (lo,hi) math interval or None}; expect: {'high': spec, 'low': spec} where spec is
    ('const', pattern) | ('throw', polarity) | ('trap', polarity) | ('plain',) | ('any',).
    Returns (verdict, details): verdict in proved / refuted / undecided."""
    nb = gate._bits(var[2])
    mk = (lambda a, b: ISet.from_signed(nb, a, b)) if signed_free else (lambda a, b: ISet.from_unsigned(nb, a, b))
    try:
        parts = iset.leaves(gk, var, domain)
    except iset.Undecided as e:
        return "undecided", [("undecided", str(e))]
    try:
        ref_parts = iset.leaves(gref, var, domain)
    except iset.Undecided as e:
        return "undecided", [("undecided", "reference: " + str(e))]
    details, verdict = [], "proved"
    for zname in ("ok", "high", "low"):
        if zones.get(zname) is None:
            continue
        Z = mk(*zones[zname]) & domain
        if not Z:
            continue
        spec = ("plain",) if zname == "ok" else expect[zname]
        for D, leaf in parts:
            P = D & Z
            if not P:
                continue
            kind = leaf_kind(leaf)
            where = "%s zone %s, free operand in %s" % (zname, "[%d, %d]" % zones[zname], P.describe(signed_free))
            if spec[0] == "any":
                continue
            if spec[0] == "plain":
                # must be the plain operation: compare with the reference's leaf on the same values
                for RD, rleaf in ref_parts:
                    Q = P & RD
                    if not Q:
                        continue
                    if leaf == rleaf:
                        continue
                    rk = leaf_kind(rleaf)
                    if okjudge is not None and kind[0] == "expr":
                        oj = okjudge(leaf, Q)
                        if oj is not None:
                            if oj[0] == "refuted":
                                verdict = "refuted"
                                details.append(("ok:wrong-value", "%s: %s" % (where, oj[1])))
                            continue
                    if kind[0] in ("throw", "call"):
                        verdict = "refuted"
                        details.append(("ok:signal-where-no-overflow", "%s: no overflow is possible here but the kernel signals %s" % (where, kind)))
                    elif kind[0] == "const" and rk[0] == "const":
                        verdict = "refuted"
                        details.append(("ok:wrong-constant", "%s: returns the constant %d, the exact result is %d" % (where, kind[1], rk[1])))
                    elif kind[0] == "const" and rk[0] == "expr" and exact is not None and Q.size() >= 2:
                        # a constant on a stretch of operand values: right iff the (monotone) exact function is that constant at both ends of every run
                        runs = Q.signed_intervals() if signed_free else list(Q.ivs)
                        mask = (1 << rbits) - 1
                        wrong = next((x for (lo_, hi_) in runs for x in (lo_, hi_) if (exact(x) & mask) != kind[1]), None)
                        if wrong is not None:
                            verdict = "refuted"
                            details.append(("ok:wrong-constant", "%s: returns the constant %d; the exact result at operand %d is %d" % (where, kind[1], wrong, exact(wrong))))
                    elif kind[0] == "const" and rk[0] == "expr" and Q.size() == 1 and exact is not None:
                        # the tree says: for this single operand value the kernel returns a constant; the oracle knows the exact result there
                        x = (Q.signed_intervals() if signed_free else list(Q.ivs))[0][0]
                        want = exact(x) & ((1 << rbits) - 1)
                        if want != kind[1]:
                            verdict = "refuted"
                            details.append(("ok:bound-where-result-fits", "%s: returns the constant %d, the exact result %d fits the result type" % (where, kind[1], exact(x))))
                    elif kind[0] == "const" and rk[0] == "expr" and _nonconstant(rleaf, var, Q):
                        verdict = "refuted"
                        details.append(("ok:bound-where-result-fits", "%s: returns the constant %d for at least %d operand values whose exact results are all different (%s)" % (where, kind[1], Q.size(), gate.show(rleaf))))
                    else:
                        if verdict == "proved":
                            verdict = "undecided"
                        details.append(("undecided", "%s: cannot relate %s to the plain operation %s" % (where, gate.show(leaf)[:120], gate.show(rleaf)[:120])))
            elif spec[0] == "const":
                if kind == ("const", spec[1] & ((1 << rbits) - 1)):
                    continue
                if kind[0] == "const":
                    verdict = "refuted"
                    details.append((zname + ":wrong-bound", "%s: saturates to %d, the nearest bound is %d" % (where, kind[1], spec[1] & ((1 << rbits) - 1))))
                elif kind[0] in ("throw", "call"):
                    verdict = "refuted"
                    details.append((zname + ":signal-instead-of-bound", "%s: expected saturation, got %s" % (where, kind)))
                elif kind[0] == "expr" and _point_image(leaf, var, P, signed_free, rbits) is not None:
                    # a one-point part of the zone: the forward image of that set through the (affine) leaf is one value
                    v = _point_image(leaf, var, P, signed_free, rbits)
                    if v != spec[1] & ((1 << rbits) - 1):
                        verdict = "refuted"
                        details.append((zname + ":overflow-not-detected", "%s: the exact result is out of range but the kernel returns the wrapped operation %s (= %d) instead of the bound %d" % (where, gate.show(leaf)[:120], v, spec[1] & ((1 << rbits) - 1))))
                elif kind[0] == "expr" and _nonconstant(leaf, var, P):
                    verdict = "refuted"
                    details.append((zname + ":overflow-not-detected", "%s: the exact result is out of range for all %d operand values here but the kernel returns the wrapped operation %s instead of the bound" % (where, P.size(), gate.show(leaf)[:120])))
                else:
                    if verdict == "proved":
                        verdict = "undecided"
                    details.append(("undecided", "%s: cannot decide whether %s is the bound" % (where, gate.show(leaf)[:120])))
            elif spec[0] in ("throw", "trap"):
                want = spec[1]
                if spec[0] == "throw" and kind[0] == "throw" and "overflow_error" in kind[1] and want in kind[2]:
                    continue
                if spec[0] == "trap" and kind[0] == "call" and "abort" in kind[1] and want in kind[2]:
                    continue
                if kind[0] in ("throw", "call"):
                    verdict = "refuted"
                    details.append((zname + ":wrong-signal", "%s: expected a %s %s signal, got %s" % (where, want, spec[0], kind)))
                elif kind[0] in ("const", "expr", "undef"):
                    verdict = "refuted"
                    details.append((zname + ":overflow-not-detected", "%s: every exact result is out of range but the kernel returns a value (%s) without signalling" % (where, gate.show(leaf)[:100])))
    return verdict, details
