"""LLVM IR (textual, LLVM 14) reader and function normaliser.

normal_form(fn) maps a function to a structure that is insensitive to SSA
names, to the order of independent pure instructions, to the operand order of
commutative operations and to inferred flags/metadata.  Two functions with
equal normal forms compute the same function of their parameters (given
LLVM's semantics of the instructions); the converse does not hold.
"""
import re, hashlib

_META_RE = re.compile(r",\s*![A-Za-z_.][\w.]*\s+!\d+")
_META_TAIL_RE = re.compile(r",\s*!\w+\s+!\{[^}]*\}")
_ATTR_REF_RE = re.compile(r"\s#\d+")
_VAL_RE = re.compile(r'%(?:"[^"]*"|[-\w.$]+)')
_GLOB_RE = re.compile(r'@(?:"[^"]*"|[-\w.$]+)')

_DROP_WORDS = [
    "nsw", "nuw", "exact", "noundef", "signext", "zeroext", "nonnull", "inbounds",
    "tail", "musttail", "notail", "dso_local", "local_unnamed_addr", "unnamed_addr",
    "nocapture", "readonly", "readnone", "writeonly", "noalias", "nofree", "returned", "immarg",
    "fastcc", "noreturn", "nounwind",
]
_DROP_RE = re.compile(r"\b(?:%s)\b\s*" % "|".join(_DROP_WORDS))
_PARAM_ATTR_CALL_RE = re.compile(r"\b(?:align \d+|dereferenceable(?:_or_null)?\(\d+\)|sret\([^)]*\)|byval\([^)]*\))\s*")

COMMUTATIVE = {"add", "mul", "and", "or", "xor", "fadd", "fmul"}
COMM_INTRINSICS = ("llvm.smax.", "llvm.smin.", "llvm.umax.", "llvm.umin.", "llvm.sadd.sat.", "llvm.uadd.sat.",
                   "llvm.sadd.with.overflow.", "llvm.uadd.with.overflow.", "llvm.smul.with.overflow.",
                   "llvm.umul.with.overflow.", "llvm.smul.fix", "llvm.umul.fix")
SWAP_PRED = {"eq": "eq", "ne": "ne", "slt": "sgt", "sgt": "slt", "sle": "sge", "sge": "sle",
             "ult": "ugt", "ugt": "ult", "ule": "uge", "uge": "ule",
             "oeq": "oeq", "one": "one", "olt": "ogt", "ogt": "olt", "ole": "oge", "oge": "ole",
             "ueq": "ueq", "une": "une", "ord": "ord", "uno": "uno", "true": "true", "false": "false"}
SWAP_PRED.update({"ult_f": "ugt"})

OPAQUE_PREFIX = "vf_cut_"
IMPURE_INTRINSICS = ("llvm.assume", "llvm.trap", "llvm.ubsantrap", "llvm.memcpy", "llvm.memset", "llvm.memmove",
                     "llvm.lifetime", "llvm.debugtrap", "llvm.eh.", "llvm.stacksave", "llvm.stackrestore",
                     "llvm.va_", "llvm.experimental.noalias", "llvm.dbg.")


def _h(s):
    return hashlib.sha1(s.encode()).hexdigest()[:16]


class Function:
    def __init__(self, name, ret, params, blocks, order, header):
        self.name, self.ret, self.params = name, ret, params
        self.blocks, self.order, self.header = blocks, order, header  # blocks: label -> list of raw instr lines

    def text(self):
        out = [self.header]
        for lab in self.order:
            out.append("%s:" % lab)
            out += ["  " + i for i in self.blocks[lab]]
        out.append("}")
        return "\n".join(out)


class Module:
    def __init__(self):
        self.functions = {}
        self.globals = {}   # @name -> initializer text
        self.declares = {}  # @name -> declare line
        self.raw_globals = {}


def _clean(line):
    # strip trailing comment (not inside c"..." strings: those are only in globals)
    if ";" in line and 'c"' not in line:
        line = line.split(";", 1)[0]
    prev = None
    while prev != line:
        prev = line
        line = _META_RE.sub("", line)
        line = _META_TAIL_RE.sub("", line)
    line = _ATTR_REF_RE.sub("", line)
    return line.rstrip()


def _split_top(s, sep=","):
    out, depth, cur = [], 0, []
    inq = False
    for ch in s:
        if ch == '"':
            inq = not inq
        if not inq:
            if ch in "([{<":
                depth += 1
            elif ch in ")]}>":
                depth -= 1
            elif ch == sep and depth == 0:
                out.append("".join(cur).strip())
                cur = []
                continue
        cur.append(ch)
    t = "".join(cur).strip()
    if t:
        out.append(t)
    return out


_DEFINE_RE = re.compile(r"^define\s+(.*?)\s*(@(?:\"[^\"]*\"|[-\w.$]+))\((.*)\)([^()]*)\{\s*$")


def parse_module(text):
    m = Module()
    lines = text.split("\n")
    i, n = 0, len(lines)
    while i < n:
        ln = lines[i]
        if ln.startswith("define "):
            hdr = _clean(ln)
            hdr = re.sub(r"\s+personality\s+.*?(?=\s*\{\s*$)", "", hdr)
            mm = _DEFINE_RE.match(hdr)
            if not mm:
                raise ValueError("cannot parse define: " + ln)
            rettxt, name, ptxt = mm.group(1), mm.group(2), mm.group(3)
            ret = _DROP_RE.sub("", rettxt)
            ret = re.sub(r"\b(?:internal|linkonce_odr|weak_odr|hidden|available_externally|private|weak|linkonce|protected)\b\s*", "", ret).strip()
            params = []
            for k, p in enumerate(_split_top(ptxt)):
                p2 = _PARAM_ATTR_CALL_RE.sub("", _DROP_RE.sub("", p)).strip()
                toks = p2.split()
                pname = None
                if toks and toks[-1].startswith("%"):
                    pname = toks[-1]
                    ty = " ".join(toks[:-1])
                else:
                    ty = " ".join(toks)
                params.append((ty, pname))
            # implicit names for unnamed params
            cnt = 0
            fixed = []
            for ty, pname in params:
                if pname is None:
                    pname = "%%%d" % cnt
                if re.fullmatch(r"%\d+", pname):
                    cnt = int(pname[1:]) + 1
                fixed.append((ty, pname))
            params = fixed
            blocks, order = {}, []
            # entry label
            cur = None
            i += 1
            body_first = True
            while i < n and not lines[i].startswith("}"):
                raw = lines[i]
                i += 1
                if not raw.strip():
                    continue
                lm = re.match(r'^("[^"]*"|[-\w.$]+):', raw)
                if lm:
                    cur = lm.group(1)
                    blocks[cur] = []
                    order.append(cur)
                    continue
                if raw.lstrip().startswith(";"):
                    continue
                if cur is None:
                    # entry block without label: numbered after the params if all unnamed
                    cur = str(cnt) if all(re.fullmatch(r"%\d+", p[1]) for p in params) or not params else "entry"
                    blocks[cur] = []
                    order.append(cur)
                blocks[cur].append(_clean(raw.strip()))
            m.functions[name[1:]] = Function(name[1:], ret, params, blocks, order, hdr)
        elif ln.startswith("@"):
            gm = re.match(r'^(@(?:"[^"]*"|[-\w.$]+))\s*=\s*(.*)$', ln)
            if gm:
                m.raw_globals[gm.group(1)] = gm.group(2)
        elif ln.startswith("declare "):
            dm = _GLOB_RE.search(ln)
            if dm:
                m.declares[dm.group(0)] = ln
        i += 1
    return m


def _global_content(mod, g):
    """private string constants are identified by their content, not their name"""
    init = mod.raw_globals.get(g)
    if init is None:
        return g
    if re.match(r"@\.str|@__const|@switch\.table|@\.", g) or "private" in init.split("constant")[0]:
        body = init
        body = re.sub(r"^(?:private|internal|linkonce_odr|unnamed_addr|local_unnamed_addr|dso_local|constant|global|\s)+", "", body)
        body = re.sub(r",\s*align \d+.*$", "", body)
        body = re.sub(r",\s*comdat.*$", "", body)
        return "@{" + body.strip() + "}"
    return g


class NormalForm:
    def __init__(self, sig, blocks, pretty):
        self.sig, self.blocks, self.pretty = sig, blocks, pretty

    def key(self):
        return _h(repr((self.sig, self.blocks)))

    def __eq__(self, o):
        return self.sig == o.sig and self.blocks == o.blocks


def _successors(term):
    t = term
    if t.startswith("br "):
        return _VAL_RE.findall(" ".join(re.findall(r"label\s+(%(?:\"[^\"]*\"|[-\w.$]+))", t)))
    if t.startswith("switch "):
        m = re.match(r"switch\s+\S+\s+\S+,\s*label\s+(%\S+)\s*\[(.*)\]", t)
        dflt = m.group(1)
        cases = re.findall(r"\S+\s+(-?\d+|true|false),\s*label\s+(%(?:\"[^\"]*\"|[-\w.$]+))", m.group(2))
        def cv(c):
            return {"true": 1, "false": 0}.get(c, None) if c in ("true", "false") else int(c)
        cases = sorted(cases, key=lambda c: cv(c[0]))
        return [dflt] + [c[1] for c in cases]
    if t.startswith("invoke ") or " invoke " in t:
        m = re.search(r"to\s+label\s+(%\S+)\s+unwind\s+label\s+(%\S+)", t)
        return [m.group(1), m.group(2)]
    if t.startswith("indirectbr") or t.startswith("callbr"):
        return re.findall(r"label\s+(%(?:\"[^\"]*\"|[-\w.$]+))", t)
    return []


_TERMS = ("ret ", "ret\n", "br ", "switch ", "unreachable", "resume ", "indirectbr", "callbr")


def _is_term(ins):
    body = ins.split("=", 1)[1].strip() if re.match(r"^%\S+\s*=", ins) else ins
    return body.startswith(("ret", "br ", "switch ", "unreachable", "resume ", "invoke ", "indirectbr", "callbr"))


def normal_form(mod, fn, width_insensitive=True):
    # join multi-line switch terminators (LLVM prints cases on separate lines)
    blocks = {}
    for lab in fn.order:
        ins = []
        pend = None
        for l in fn.blocks[lab]:
            if pend is not None:
                pend += " " + l
                if "]" in l:
                    ins.append(pend)
                    pend = None
                continue
            if l.startswith("switch ") and "]" not in l:
                pend = l
                continue
            ins.append(l)
        if pend is not None:
            ins.append(pend)
        blocks[lab] = ins
    entry = fn.order[0]
    # --- block numbering: DFS preorder following terminator successor order
    def lab_of(v):
        return v[1:]
    bid = {}
    stack = [entry]
    while stack:
        b = stack.pop()
        if b in bid:
            continue
        bid[b] = len(bid)
        term = blocks[b][-1] if blocks[b] else ""
        body = term.split("=", 1)[1].strip() if re.match(r"^%\S+\s*=", term) else term
        succ = [lab_of(s) for s in _successors(body)]
        for s in reversed(succ):
            if s not in bid and s in blocks:
                stack.append(s)
    # --- definitions
    defs = {}  # %name -> (block, instr body text)
    for ty, pn in fn.params:
        pass
    argcanon = {}
    for k, (ty, pn) in enumerate(fn.params):
        argcanon[pn] = "arg%d:%s" % (k, ty)
    for lab, ins in blocks.items():
        for l in ins:
            mm = re.match(r"^(%(?:\"[^\"]*\"|[-\w.$]+))\s*=\s*(.*)$", l)
            if mm:
                defs[mm.group(1)] = (lab, mm.group(2))
    canon = dict(argcanon)
    pretty = dict((k, "a%d" % i) for i, k in enumerate(argcanon))
    impure_ord = {}
    # impure / phi values get positional names first
    phis_by_block = {}
    for lab in blocks:
        if lab not in bid:
            continue
        k = 0
        for l in blocks[lab]:
            mm = re.match(r"^(%(?:\"[^\"]*\"|[-\w.$]+))\s*=\s*(.*)$", l)
            body = mm.group(2) if mm else l
            if body.startswith("phi "):
                phis_by_block.setdefault(lab, []).append(mm.group(1))
            elif _impure(body) and mm:
                canon[mm.group(1)] = "imp@B%d#%d" % (bid[lab], k)
                pretty[mm.group(1)] = "imp%d_%d" % (bid[lab], k)
            if _impure(body):
                k += 1
    for lab, ps in phis_by_block.items():
        # provisional order: by type and masked incoming values
        def masked(p):
            body = defs[p][1]
            ty = body.split()[1]
            inc = re.findall(r"\[\s*([^,\]]+),\s*(%(?:\"[^\"]*\"|[-\w.$]+))\s*\]", body)
            items = []
            for v, b in inc:
                v = v.strip()
                items.append((bid.get(lab_of(b), -1), v if not v.startswith("%") else "?"))
            return (ty, tuple(sorted(items)))
        ps_sorted = sorted(range(len(ps)), key=lambda i: (masked(ps[i]), i))
        for rank, i in enumerate(ps_sorted):
            canon[ps[i]] = "phi@B%d#%d" % (bid[lab], rank)
            pretty[ps[i]] = "phi%d_%d" % (bid[lab], rank)

    def sub_ops(body, depth):
        def rep(m):
            return cv(m.group(0), depth)
        return _VAL_RE.sub(rep, body)

    def cv(v, depth=0):
        if v in canon:
            return canon[v]
        if v not in defs:
            return v  # label or unknown
        if depth > 400:
            raise RecursionError("value chain too deep")
        lab, body = defs[v]
        c, p = canon_instr(body, depth + 1)
        canon[v] = "v" + _h(c)
        pretty[v] = p
        return canon[v]

    def pv(v):
        cv(v)
        return pretty.get(v, v)

    def strip_words(body):
        body = _DROP_RE.sub("", body)
        body = _PARAM_ATTR_CALL_RE.sub("", body)
        body = re.sub(r",\s*align \d+", "", body)
        return re.sub(r"\s+", " ", body).strip()

    def canon_instr(body, depth=0):
        body = strip_words(body)
        body = _GLOB_RE.sub(lambda m: _global_content(mod, m.group(0)), body) if "@" in body else body
        op = body.split(" ", 1)[0]
        # pretty: replace operands by pretty names (bounded)
        def pretty_of(b):
            s = _VAL_RE.sub(lambda m: "(" + pv(m.group(0)) + ")" if m.group(0) in defs and not canon.get(m.group(0), "").startswith(("imp@", "phi@")) else pretty.get(m.group(0), m.group(0)), b)
            return s if len(s) < 600 else s[:600] + "…"
        if op in COMMUTATIVE:
            m = re.match(r"^(\w+) (.+?) ([^ ,]+), ([^ ,]+)$", body)
            if m:
                a, b = sub_ops(m.group(3), depth), sub_ops(m.group(4), depth)
                a, b = sorted([a, b])
                return "%s %s %s, %s" % (m.group(1), m.group(2), a, b), pretty_of(body)
        if op in ("icmp", "fcmp"):
            m = re.match(r"^(\w+) (\w+) (.+?) ([^ ,]+), ([^ ,]+)$", body)
            if m:
                pred, ty = m.group(2), m.group(3)
                a, b = sub_ops(m.group(4), depth), sub_ops(m.group(5), depth)
                if width_insensitive and op == "icmp":
                    ea, eb = _ext_of(defs, m.group(4)), _ext_of(defs, m.group(5))
                    if ea and eb:
                        xa = (ea[0], ea[1], sub_ops(ea[2], depth))
                        xb = (eb[0], eb[1], sub_ops(eb[2], depth))
                        if xa > xb:
                            xa, xb, pred = xb, xa, SWAP_PRED[pred]
                        return "icmpx %s %r %r" % (pred, xa, xb), pretty_of(body)
                if a > b and pred in SWAP_PRED:
                    a, b, pred = b, a, SWAP_PRED[pred]
                return "%s %s %s %s, %s" % (op, pred, ty, a, b), pretty_of(body)
        if op == "call":
            m = re.match(r"^call (.+?) (@[-\w.$]+)\((.*)\)$", body)
            if m and m.group(2)[1:].startswith(COMM_INTRINSICS):
                args = [sub_ops(a, depth) for a in _split_top(m.group(3))]
                if len(args) >= 2:
                    args[:2] = sorted(args[:2])
                return "call %s %s(%s)" % (m.group(1), m.group(2), ", ".join(args)), pretty_of(body)
        if op == "select":
            pass
        return sub_ops(body, depth), pretty_of(body)

    out_blocks = []
    pretty_lines = []
    inv = sorted(bid, key=lambda b: bid[b])

    def sub_labels(s):
        return re.sub(r"label (%(?:\"[^\"]*\"|[-\w.$]+))", lambda m: "label @B%d" % bid.get(lab_of(m.group(1)), -1), s)

    for lab in inv:
        ins = blocks[lab]
        phisigs, imp, term = [], [], None
        pretty_lines.append("B%d:" % bid[lab])
        for l in ins:
            mm = re.match(r"^(%(?:\"[^\"]*\"|[-\w.$]+))\s*=\s*(.*)$", l)
            res, body = (mm.group(1), mm.group(2)) if mm else (None, l)
            if body.startswith("phi "):
                ty = strip_words(body).split()[1]
                inc = re.findall(r"\[\s*([^,\]]+),\s*(%(?:\"[^\"]*\"|[-\w.$]+))\s*\]", body)
                items = sorted((bid.get(lab_of(b), -1), sub_ops(v.strip(), 0)) for v, b in inc)
                phisigs.append((canon[res], ty, tuple(items)))
                pretty_lines.append("  %s = phi %s %s" % (pretty[res], ty, ", ".join("[B%d: %s]" % (b, _VAL_RE.sub(lambda m: pv(m.group(0)), v.strip())) for v, b in sorted(((v, bid.get(lab_of(b), -1)) for v, b in inc), key=lambda x: x[1]))))
            elif _is_term(l):
                b2 = sub_labels(strip_words(body))
                if b2.startswith("switch "):
                    m = re.match(r"(switch \S+ \S+, label @B\d+) \[(.*)\]", b2)
                    if m:
                        cases = re.findall(r"(\S+ (?:-?\d+|true|false)), (label @B\d+)", m.group(2))
                        cases = sorted(cases, key=lambda c: int(c[0].split()[1]) if c[0].split()[1].lstrip("-").isdigit() else 0)
                        b2 = m.group(1) + " [" + " ".join("%s, %s" % c for c in cases) + "]"
                c, p = canon_instr(b2)
                term = c
                pretty_lines.append("  " + p)
            elif _impure(body):
                c, p = canon_instr(body)
                # assumes are unordered facts: collected separately
                imp.append(c)
                pretty_lines.append("  %s%s" % ((pretty.get(res, res) + " = ") if res else "", p))
        assumes = tuple(sorted(x for x in imp if "@llvm.assume" in x))
        rest = tuple(x for x in imp if "@llvm.assume" not in x)
        out_blocks.append((tuple(sorted(phisigs)), assumes, rest, term))
    sig = (fn.ret, tuple(t for t, _ in fn.params))
    return NormalForm(sig, tuple(out_blocks), "\n".join(pretty_lines))


def _ext_of(defs, v):
    """if %v is `sext|zext T x to U` return (kind, T, x)"""
    v = v.strip()
    if v in defs:
        m = re.match(r"^(sext|zext) (\S+) (\S+) to (\S+)$", _DROP_RE.sub("", defs[v][1]).strip())
        if m:
            return (m.group(1), m.group(2), m.group(3))
    return None


def _impure(body):
    op = body.split(" ", 1)[0]
    if op in ("tail", "musttail", "notail"):
        body = body.split(" ", 1)[1]
        op = body.split(" ", 1)[0]
    if op in ("store", "load", "alloca", "fence", "cmpxchg", "atomicrmw", "invoke", "landingpad", "resume", "va_arg"):
        return True
    if op == "call":
        m = re.search(r"@([-\w.$]+)\(", body)
        if not m:
            return True  # indirect call
        name = m.group(1)
        if name.startswith("llvm."):
            return name.startswith(IMPURE_INTRINSICS)
        if name.startswith(OPAQUE_PREFIX):
            return False        # a CNL function cut out by tc.cut_functions: an uninterpreted pure function of its operands
        return True
    return False


def simple_text(fn):
    """readable renamed form for reports"""
    names = {}
    for k, (ty, pn) in enumerate(fn.params):
        names[pn] = "%%a%d" % k
    cnt = [0]
    labs = dict((l, "L%d" % i) for i, l in enumerate(fn.order))
    out = []
    for lab in fn.order:
        for l in fn.blocks[lab]:
            mm = re.match(r"^(%(?:\"[^\"]*\"|[-\w.$]+))\s*=", l)
            if mm:
                names[mm.group(1)] = "%%v%d" % cnt[0]
                cnt[0] += 1
    for lab in fn.order:
        out.append(labs[lab] + ":")
        for l in fn.blocks[lab]:
            s = _DROP_RE.sub("", l)
            s = _VAL_RE.sub(lambda m: names.get(m.group(0), ("%" + labs[m.group(0)[1:]]) if m.group(0)[1:] in labs else m.group(0)), s)
            out.append("  " + s)
    return "\n".join(out)
