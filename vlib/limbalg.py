"""Limb algebra: symbolic re-expression of loop-free (fully unrolled) integer IR as polynomials over the integers.

Used by C10 to decide the multi-limb arithmetic of uintwide_t at fixed small limb counts, for ALL limb values at once:
a kernel `W k(W a, W b) { return a OP b; }` is compiled (never run); after LLVM has unrolled the limb loops the IR is a
straight-line / branching computation on machine words.  Every SSA value is re-expressed as a polynomial with integer
coefficients over

    limb atoms          the limbs of the operands, each ranging over [0, 2^L)
    F(P, k) atoms       floor(P / 2^k) of a polynomial P whose range does not decide it (carries, high parts)
    S(P) atoms          the sign floor of P when P ranges inside [-2^k, 2^k): -1 if P < 0 else 0 (borrows)
    Z(P) atoms          [P != 0]

with machine semantics made explicit: an N-bit add is  a + b - 2^N F(a + b, N), `and` with a low mask is
P - 2^k F(P, k), `lshr k` is F(P, k), `icmp ult a, b` is -S(a - b), ...  F pulls multiples of 2^k out of its argument
(floor((q 2^k + r) m + rest) / 2^k) = q m + floor((r m + rest) / 2^k) for an integer-valued monomial m), evaluates to a
constant when interval arithmetic over the atoms' ranges decides it, and case-splits over two-valued atoms.  Branches are
followed path by path (conditions on limbs refine the limbs' ranges on the path).

The obligation: sum_i result_word_i 2^(64 i) - SPEC(operands) == 0 modulo 2^W as a polynomial, on every path.  The
telescoping of the carries that proves a schoolbook algorithm correct is exactly what the normal form performs.  When the
difference does not vanish, the residue is evaluated (the residue, a mathematical expression -- not the library) at
sampled limb values satisfying the path's conditions: a non-zero value is a concrete counterexample and the obligation is
refuted; otherwise it is undecided (never reported as a violation).
"""
import re, random
from fractions import Fraction
from . import ir


class Undecided(Exception):
    pass


class Ctx:
    def __init__(self):
        self.atoms = []          # dicts
        self.index = {}          # canonical key -> atom id
        self.override = {}       # atom id -> (lo, hi) on the current path
        self.pcons = {}          # poly key -> (lo, hi) on the current path
        self.depth = 0
        self.rcache = {}         # atom id -> range, valid for this context (cleared when the context is refined)
        self.rems = {}           # key of a remainder polynomial x - floor(x / y) y -> key of y: shared, append-only
        self.bands = {}          # key of (x and y) -> (x, y): shared, append-only
        self.bors = {}           # key of (x or y) -> (x, y)

    def limb(self, name, bits):
        k = ("limb", name)
        if k not in self.index:
            self.index[k] = len(self.atoms)
            self.atoms.append({"kind": "limb", "name": name, "lo": 0, "hi": (1 << bits) - 1})
        return {((self.index[k], 1),): 1}

    def atom(self, kind, key, extra):
        k = (kind, key) + tuple(extra.get("k", ()))
        if k not in self.index:
            self.index[k] = len(self.atoms)
            d = {"kind": kind}
            d.update(extra)
            self.atoms.append(d)
        return {((self.index[k], 1),): 1}

    def fork(self):
        c = Ctx.__new__(Ctx)
        c.atoms, c.index = self.atoms, self.index            # shared (append-only)
        c.bands, c.bors, c.rems = self.bands, self.bors, self.rems
        c.override, c.pcons, c.depth = dict(self.override), dict(self.pcons), self.depth
        c.rcache = {}
        return c


# ---------------------------------------------------------------------------------------------------------- polynomials
def const(c):
    return {(): c} if c else {}


def padd(a, b, sb=1):
    r = dict(a)
    for m, c in b.items():
        v = r.get(m, 0) + sb * c
        if v:
            r[m] = v
        else:
            r.pop(m, None)
    return r


def pscale(a, s):
    return {m: c * s for m, c in a.items()} if s else {}


def _mmul(m1, m2):
    d = dict(m1)
    for a, e in m2:
        d[a] = d.get(a, 0) + e
    return tuple(sorted(d.items()))


def pmul(a, b):
    r = {}
    for m1, c1 in a.items():
        for m2, c2 in b.items():
            m = _mmul(m1, m2)
            v = r.get(m, 0) + c1 * c2
            if v:
                r[m] = v
            else:
                r.pop(m, None)
    if len(r) > 20000:
        raise Undecided("polynomial too large")
    return r


def pkey(a):
    return tuple(sorted(a.items()))


def is_const(a):
    return all(m == () for m in a)


def cval(a):
    return a.get((), 0)


def atoms_of(a):
    s = set()
    for m in a:
        for at, _ in m:
            s.add(at)
    return s


def subst(a, at, value):
    """atom := integer value"""
    r = {}
    for m, c in a.items():
        m2, f = [], c
        for x, e in m:
            if x == at:
                f *= value ** e
            else:
                m2.append((x, e))
        if f:
            m2 = tuple(m2)
            v = r.get(m2, 0) + f
            if v:
                r[m2] = v
            else:
                r.pop(m2, None)
    return r


def _imul(a, b):
    c = [a[0] * b[0], a[0] * b[1], a[1] * b[0], a[1] * b[1]]
    return (min(c), max(c))


def _ipow(a, e):
    r = (1, 1)
    for _ in range(e):
        r = _imul(r, a)
    if e % 2 == 0 and a[0] < 0 < a[1]:
        r = (0, r[1])
    return r


def atom_range(cx, at):
    if at in cx.override:
        return cx.override[at]
    if at in cx.rcache:
        return cx.rcache[at]
    r = _atom_range(cx, at)
    cx.rcache[at] = r
    return r


def _atom_range(cx, at):
    d = cx.atoms[at]
    k = d["kind"]
    if k == "limb":
        return (d["lo"], d["hi"])
    if k == "F":
        lo, hi = prange(cx, d["arg"])
        return (lo >> d["sh"], hi >> d["sh"])
    if k == "S":
        lo, hi = prange(cx, d["arg"])
        return (-1 if lo < 0 else 0, -1 if hi < 0 else 0)
    if k == "Z":
        lo, hi = prange(cx, d["arg"])
        if lo == hi == 0:
            return (0, 0)
        if lo > 0 or hi < 0:
            return (1, 1)
        return (0, 1)
    if k == "OR":
        a, b = prange(cx, d["a"]), prange(cx, d["b"])
        return (max(a[0], b[0]), a[1] + b[1])
    if k == "XOR":
        return (0, (1 << d["w"]) - 1)
    if k == "Q":
        xlo, xhi = prange(cx, d["x"])
        ylo, yhi = prange(cx, d["y"])
        if xlo < 0 or ylo < 0 or yhi <= 0:
            raise Undecided("division with a possibly negative or zero operand")
        hi = xhi // max(ylo, 1)
        # x == R * 2^k + a with R a remainder by the same divisor (R < y) and 0 <= a < 2^k: x / y < 2^k
        ky = pkey(d["y"])
        for rk, yk in cx.rems.items():
            if yk != ky:
                continue
            R = dict(rk)
            if any(a_ >= at for a_ in atoms_of(R)):
                continue                # only remainders that existed before this quotient
            for kk in (8, 16, 32, 64):
                rest = padd(d["x"], pscale(R, 1 << kk), -1)
                if len(rest) <= 3:
                    rlo, rhi = prange(cx, rest)
                    if 0 <= rlo and rhi < (1 << kk):
                        hi = min(hi, (1 << kk) - 1)
        return (xlo // yhi, hi)
    raise Undecided("atom kind " + k)


def prange(cx, a, structural=False):
    if not a:
        return (0, 0)
    k = pkey(a)
    if k in cx.pcons and not structural:
        return cx.pcons[k]
    lo = hi = 0
    # groups  c * (P - 2^k F(P, k)) = c * (P mod 2^k)  are bounded as a whole: [0, 2^k - 1] scaled by c
    rest = a
    for m, cf in sorted(a.items()):
        if len(m) != 1 or m[0][1] != 1 or m not in rest:
            continue
        d = cx.atoms[m[0][0]]
        if d["kind"] == "F":
            ks = [d["sh"]]
        elif d["kind"] == "S":
            plo, phi = prange(cx, d["arg"])
            k0 = max(abs(plo), phi + 1).bit_length()
            ks = [k for k in range(max(k0 - 1, 0), k0 + 2) if -(1 << k) <= plo and phi < (1 << k)]
        else:
            continue
        for k in ks:
            if cf % (1 << k):
                continue
            c = -(cf >> k)
            P = d["arg"]
            if c and all(m2 in rest and rest[m2] * c > 0 and abs(rest[m2]) >= abs(c * c2) for m2, c2 in P.items()):
                rest = padd(padd(rest, pscale(P, c), -1), {m: cf}, -1)
                g = _imul((c, c), (0, (1 << k) - 1))
                lo, hi = lo + g[0], hi + g[1]
                break
    # constrained sub-sums: c * Q for a small polynomial Q whose range is recorded on this path (a limb difference known
    # to be negative, two limbs known to be equal, ...)
    if len(rest) > 1 and cx.pcons:
        for qk, (qlo, qhi) in cx.pcons.items():
            if not (1 < len(qk) <= 4) or len(qk) >= len(rest) + 1:
                continue
            (m0, c0) = qk[0]
            if m0 not in rest or rest[m0] % c0:
                continue
            c = rest[m0] // c0
            if c and all(rest.get(m2) == c * c2 for m2, c2 in qk):
                rest = padd(rest, pscale(dict(qk), c), -1)
                g = _imul((c, c), (qlo, qhi))
                slo = shi = 0
                for m2, c2 in qk:               # what the atoms' own ranges give for the same sub-sum (may be tighter by now)
                    r2 = (1, 1)
                    for at, e in m2:
                        r2 = _imul(r2, _ipow(atom_range(cx, at), e))
                    r2 = _imul(r2, (c * c2, c * c2))
                    slo, shi = slo + r2[0], shi + r2[1]
                lo, hi = lo + max(g[0], slo), hi + min(g[1], shi)
                if len(rest) <= 1:
                    break
    for m, c in rest.items():
        r = (1, 1)
        for at, e in m:
            r = _imul(r, _ipow(atom_range(cx, at), e))
        r = _imul(r, (c, c))
        lo, hi = lo + r[0], hi + r[1]
    return (lo, hi)


def two_valued(cx, a):
    out = []
    for at in sorted(atoms_of(a)):
        lo, hi = atom_range(cx, at)
        if hi - lo == 1:
            out.append((at, lo, hi))
    return out


def _with_atom(cx, at, v):
    """context in which atom `at` has value v, with what that implies for its argument"""
    c2 = cx.fork()
    c2.override[at] = (v, v)
    c2.rcache = {}
    d = cx.atoms[at]
    if d["kind"] == "S":
        lo, hi = prange(cx, d["arg"])
        nz = False
        if v == 0:
            # P >= 0 and P known non-zero on this path (its Z atom is 1): P >= 1
            neg = pscale(d["arg"], -1)
            canon = d["arg"] if pkey(d["arg"]) <= pkey(neg) else neg
            zid = cx.index.get(("Z", pkey(canon)))
            nz = zid is not None and atom_range(cx, zid) == (1, 1)
        c2.pcons[pkey(d["arg"])] = (lo, min(hi, -1)) if v == -1 else (max(lo, 1 if nz else 0), hi)
        _affine(c2, d["arg"], *c2.pcons[pkey(d["arg"])])
    elif d["kind"] == "Z":
        lo, hi = prange(cx, d["arg"])
        if v == 0:
            c2.pcons[pkey(d["arg"])] = (0, 0)
            _zero_parts(c2, d["arg"])
            _affine(c2, d["arg"], 0, 0)
        elif lo >= 0:
            c2.pcons[pkey(d["arg"])] = (max(lo, 1), hi)
            _single(c2, d["arg"], max(lo, 1), hi)
        elif hi <= 0:
            c2.pcons[pkey(d["arg"])] = (lo, min(hi, -1))
    elif d["kind"] == "F":
        lo, hi = prange(cx, d["arg"])
        k = d["sh"]
        nlo, nhi = max(lo, v << k), min(hi, ((v + 1) << k) - 1)
        c2.pcons[pkey(d["arg"])] = (nlo, nhi)
        _affine(c2, d["arg"], nlo, nhi)
    return c2


def _affine(cx, a, lo, hi):
    """a == c * atom + k with lo <= a <= hi: propagate to the atom"""
    ms = [m for m in a if m != ()]
    if len(ms) == 1 and len(ms[0]) == 1 and ms[0][0][1] == 1:
        c, k0, at = a[ms[0]], a.get((), 0), ms[0][0][0]
        cur = atom_range(cx, at)
        if c > 0:
            cx.override[at] = (max(cur[0], -(-(lo - k0) // c)), min(cur[1], (hi - k0) // c))
            cx.rcache = {}
        elif c < 0:
            cx.override[at] = (max(cur[0], -((hi - k0) // -c)), min(cur[1], (k0 - lo) // -c))
            cx.rcache = {}


def feasible(cx):
    """no recorded constraint contradicts what the atoms' ranges allow"""
    for at, (lo, hi) in cx.override.items():
        if lo > hi:
            return False
    for key, (lo, hi) in list(cx.pcons.items()):
        if lo > hi:
            return False
        slo, shi = prange(cx, dict(key), structural=True)
        if shi < lo or slo > hi:
            return False
    return True


def _single(cx, a, lo, hi):
    """a == c * atom (+ nothing): propagate a range to the atom"""
    if len(a) == 1:
        (m, c), = a.items()
        if len(m) == 1 and m[0][1] == 1 and c > 0:
            at = m[0][0]
            cur = atom_range(cx, at)
            cx.override[at] = (max(cur[0], -(-lo // c)), min(cur[1], hi // c))
            cx.rcache = {}


def _zero_parts(cx, a):
    """a == 0 where a is a sum of non-negative terms (or of non-positive ones): every term is 0; a term c * atom makes the atom 0"""
    if not a:
        return
    rs = []
    for m, c in a.items():
        r = (1, 1)
        for at, e in m:
            r = _imul(r, _ipow(atom_range(cx, at), e))
        rs.append((m, c, _imul(r, (c, c))))
    if all(r[0] >= 0 for _, _, r in rs) or all(r[1] <= 0 for _, _, r in rs):
        cx.rcache = {}
        for m, c, r in rs:
            if m == ():
                continue
            if len(m) == 1:
                at = m[0][0]
                d = cx.atoms[at]
                if d["kind"] == "OR":
                    cx.override[at] = (0, 0)
                    for sub in (d["a"], d["b"]):
                        cx.pcons[pkey(sub)] = (0, 0)
                        _zero_parts(cx, sub)
                else:
                    cx.override[at] = (0, 0)
                    if d["kind"] == "F":
                        pass
            else:
                cx.pcons[pkey({m: c})] = (0, 0)


def _lift(cx, a, fn, limit=3):
    """fn(cx, poly) -> poly or None (None: not decided).  Tries directly, then by case split over two-valued atoms of `a`
    (multilinear interpolation of the per-case constants)."""
    r = fn(cx, a)
    if r is not None:
        return r
    tv = two_valued(cx, a)
    if not tv or len(tv) > limit or cx.depth > 2:
        return None
    tv = tv[:limit]
    total = {}
    import itertools
    for vals in itertools.product(*[(lo, hi) for _, lo, hi in tv]):
        c2, a2 = cx, a
        for (at, lo, hi), v in zip(tv, vals):
            c2 = _with_atom(c2, at, v)
            a2 = subst(a2, at, v)
        c2.depth = cx.depth + 1
        rv = fn(c2, a2)
        if rv is None or not is_const(rv):
            return None
        term = const(cval(rv))
        for (at, lo, hi), v in zip(tv, vals):
            u = {((at, 1),): 1}
            ind = padd(u, const(lo), -1) if v == hi else padd(const(hi), u, -1)      # (u - lo) or (hi - u); hi - lo == 1
            term = pmul(term, ind)
        total = padd(total, term)
    return total


def F(cx, a, k, hint=None):
    """floor(a / 2^k); hint: an interval known to contain a (from how a was built), possibly tighter than what the
    normalised polynomial shows after cancellations"""
    if k == 0:
        return dict(a)
    if len(a) == 1:
        (m_, c_), = a.items()
        if c_ == 1 and len(m_) == 1 and m_[0][1] == 1 and cx.atoms[m_[0][0]]["kind"] == "XOR" and cx.atoms[m_[0][0]]["w"] == k + 1:
            d_ = cx.atoms[m_[0][0]]           # the top bit of x ^ y is the exclusive or of the top bits
            sa, sb = F(cx, d_["a"], k), F(cx, d_["b"], k)
            return padd(padd(sa, sb), pscale(pmul(sa, sb), 2), -1)
    if a and not is_const(a):
        lo, hi = prange(cx, a)
        if hint is not None:
            lo, hi = max(lo, hint[0]), min(hi, hint[1])
            cx.pcons[pkey(a)] = (lo, hi)
        if (lo >> k) == (hi >> k):
            return const(lo >> k)
        r = _F(cx, a, k)
        if r and not is_const(r):
            old = cx.pcons.get(pkey(r))
            new = (lo >> k, hi >> k)
            cx.pcons[pkey(r)] = new if old is None else (max(old[0], new[0]), min(old[1], new[1]))
        return r
    return _F(cx, a, k)


def _paired(cx, a, k):
    """{F-atom monomial: x monomial} for the pairs  2^j x - 2^k F(x, k - j)  present in a (that is 2^j (x mod 2^(k-j)):
    kept together inside a floor by 2^k, see _F)"""
    pairs = {}
    for m, c in a.items():
        if abs(c) != (1 << k) or len(m) != 1 or m[0][1] != 1:
            continue
        d = cx.atoms[m[0][0]]
        if d["kind"] != "F" or len(d["arg"]) != 1:
            continue
        (xm, xc), = d["arg"].items()
        j = k - d["sh"]
        if xc == 1 and j >= 1 and a.get(xm) == (1 << j) * (-1 if c > 0 else 1):
            pairs[m] = xm
    return pairs


def _F(cx, a, k):
    out, inner = {}, {}
    K = 1 << k
    # a term 2^j x whose range reaches 2^k is split as  2^k F(x, k-j) + 2^j (x mod 2^(k-j)):  the first part leaves the
    # floor, the second is kept as the pair  2^j x - 2^k F(x, k-j)  (canonical: floor(1024 a0 - b0, 64) and
    # floor(a0, 54) + floor((1024 a0 mod 2^64) - b0, 64) become the same expression)
    keep = _paired(cx, a, k)
    extra = {}
    for m, c in list(a.items()):
        ac = abs(c)
        if ac & (ac - 1) == 0 and 1 < ac < K and len(m) == 1 and m[0][1] == 1 and m not in keep.values():
            j = ac.bit_length() - 1
            sg = 1 if c > 0 else -1
            lo, hi = atom_range(cx, m[0][0])
            if lo >= 0 and hi * ac >= K:
                f = F(cx, {m: 1}, k - j)
                if len(f) == 1 and list(f.values()) == [1] and len(list(f)[0]) == 1 and cx.atoms[list(f)[0][0][0]]["kind"] == "F":
                    fm = list(f)[0]
                    if fm not in a:
                        extra = padd(extra, pscale(f, sg))
                        a = padd(a, {fm: -sg * K})
                        keep[fm] = m
    for m, c in a.items():
        if m in keep:
            inner[m] = c
            continue
        q, r = divmod(c, K)
        if r > K // 2:              # balanced residue: -1 stays -1 (any integer split c = q K + r is valid)
            q, r = q + 1, r - K
        if q:
            out[m] = q
        if r:
            inner[m] = r
    out = padd(out, extra)
    if not inner:
        return out
    # floor((2^j X + R) / 2^k) == floor(X / 2^(k-j)) when 0 <= R < 2^j: the low part cannot carry
    for j in range(k, 0, -1):
        J = 1 << j
        mult = dict((m, c) for m, c in inner.items() if c % J == 0)
        if not mult:
            continue
        rest = dict((m, c) for m, c in inner.items() if c % J != 0)
        if rest:
            lo, hi = prange(cx, rest)
            if lo < 0 or hi >= J:
                continue
        if j == k:
            break
        return padd(out, F(cx, dict((m, c >> j) for m, c in mult.items()), k - j))

    # inner == R - 2^k D for a registered remainder R known to lie in [0, 2^k): floor(inner / 2^k) == -D
    for rk in cx.rems:
        rr = cx.pcons.get(rk)
        if rr is None or rr[0] < 0 or rr[1] >= K:
            continue
        D = padd(dict(rk), inner, -1)
        if D and all(c % K == 0 for c in D.values()):
            return padd(out, dict((m, -(c // K)) for m, c in D.items()))
        if not D:
            return out

    def direct(c2, p):
        lo, hi = prange(c2, p)
        if (lo >> k) == (hi >> k):
            return const(lo >> k)
        return None
    r = _lift(cx, inner, direct)
    if r is not None:
        return padd(out, r)
    # floor(floor(E / 2^j) / 2^k) == floor(E / 2^(j + k))
    if len(inner) == 1:
        (m, c), = inner.items()
        if c == 1 and len(m) == 1 and m[0][1] == 1 and cx.atoms[m[0][0]]["kind"] == "F":
            d = cx.atoms[m[0][0]]
            return padd(out, F(cx, d["arg"], d["sh"] + k))
    lo, hi = prange(cx, inner)
    if -K <= lo and hi < K:
        return padd(out, cx.atom("S", pkey(inner), {"arg": inner, "sh": k}))
    # the range straddles exactly one other multiple q 2^k: floor(inner / 2^k) == q + S(inner - q 2^k), the same sign atom
    # that the balanced form of the shifted argument gets (floor((-1 - a + s) / 2^k) == -1 + S(2^k - 1 - a + s))
    q = hi >> k
    if (lo >> k) == q - 1:
        sh_ = padd(inner, const(-q * K))
        return padd(padd(out, const(q)), cx.atom("S", pkey(sh_), {"arg": sh_, "sh": k}))
    return padd(out, cx.atom("F", pkey(inner), {"arg": inner, "sh": k, "k": (k,)}))


def M(cx, a, k, hint=None):
    """a mod 2^k, in [0, 2^k)"""
    r = padd(a, pscale(F(cx, a, k, hint), 1 << k), -1)
    if r and not is_const(r):
        lo, hi = prange(cx, r)
        cx.pcons[pkey(r)] = (max(lo, 0), min(hi, (1 << k) - 1))
    return r


def Z(cx, a):
    """[a != 0]"""
    if len(a) == 1:
        (m_, c_), = a.items()
        if len(m_) == 1 and m_[0][1] == 1 and cx.atoms[m_[0][0]]["kind"] == "XOR":
            d_ = cx.atoms[m_[0][0]]           # x ^ y != 0 iff x != y
            return Z(cx, padd(d_["a"], d_["b"], -1))

    def direct(c2, p):
        lo, hi = prange(c2, p)
        if lo == hi == 0:
            return {}
        if lo > 0 or hi < 0:
            return const(1)
        # p == c * Q + R with Q an integer known to be non-zero on this path and |R| < |c|: p != 0
        for at, (olo, ohi) in c2.override.items():
            if (olo, ohi) != (1, 1) or c2.atoms[at]["kind"] != "Z":
                continue
            Q = c2.atoms[at]["arg"]
            (m0, c0) = sorted(Q.items())[0]
            if m0 not in p or p[m0] % c0:
                continue
            c = p[m0] // c0
            if c and all(p.get(m2) == c * c2_ for m2, c2_ in Q.items()):
                rlo, rhi = prange(c2, padd(p, pscale(Q, c), -1))
                if -abs(c) < rlo and rhi < abs(c):
                    return const(1)
        return None
    r = _lift(cx, a, direct)
    if r is not None:
        return r
    neg = pscale(a, -1)
    canon = a if pkey(a) <= pkey(neg) else neg
    return cx.atom("Z", pkey(canon), {"arg": canon})


def Qdiv(cx, x, y):
    """floor(x / y) for non-negative x and positive y (both polynomials); registers the remainder x - q y in [0, y)"""
    xlo, xhi = prange(cx, x)
    ylo, yhi = prange(cx, y)
    if xlo < 0 or ylo < 0:
        raise Undecided("division of a possibly negative value")
    if ylo > 0 and xhi < ylo:
        return {}
    q = cx.atom("Q", (pkey(x), pkey(y)), {"x": x, "y": y})
    r = padd(x, pmul(q, y), -1)
    if r and not is_const(r):
        cx.rems[pkey(r)] = pkey(y)
        cx.pcons[pkey(r)] = (0, max(yhi - 1, 0))
    return q


def LT(cx, a, b):
    """[a < b] for exact integer polynomials"""
    if cx.rems.get(pkey(a)) == pkey(b):
        return const(1)             # a remainder is below its divisor
    d = padd(a, b, -1)
    lo, hi = prange(cx, d)
    bits = max(abs(lo), abs(hi) + 1).bit_length() + 1
    return pscale(F(cx, d, bits), -1)


# ------------------------------------------------------------------------------------------------------------ IR walking
_TYPES_RE = re.compile(r"^(%(?:\"[^\"]*\"|[-\w.$]+)) = type (.*)$", re.M)


class Layout:
    def __init__(self, text):
        self.named = dict((m.group(1), m.group(2).strip()) for m in _TYPES_RE.finditer(text))

    def parse(self, t):
        t = t.strip()
        m = re.match(r"^i(\d+)$", t)
        if m:
            b = int(m.group(1))
            sz = (b + 7) // 8
            al = 1
            while al < sz and al < 16:
                al *= 2
            return ("int", sz, min(al, 16 if b > 64 else 8) if b > 8 else 1)
        if t.endswith("*"):
            return ("ptr", 8, 8)
        m = re.match(r"^\[(\d+) x (.*)\]$", t)
        if m:
            e = self.parse(m.group(2))
            return ("arr", int(m.group(1)) * e[1], e[2], int(m.group(1)), e)
        if t.startswith("{") or t.startswith("<{"):
            inner = t[t.index("{") + 1:t.rindex("}")]
            fs = [self.parse(x) for x in ir._split_top(inner)] if inner.strip() else []
            off, al, offs = 0, 1, []
            for f in fs:
                a = f[2]
                off = (off + a - 1) // a * a
                offs.append(off)
                off += f[1]
                al = max(al, a)
            sz = (off + al - 1) // al * al
            return ("struct", sz, al, offs, fs)
        if t in self.named:
            return self.parse(self.named[t])
        raise Undecided("type layout of " + t[:60])

    def gep(self, src_ty, idxs):
        """byte offset of a constant GEP; idxs: ints"""
        ty = self.parse(src_ty)
        off = idxs[0] * ty[1]
        for i in idxs[1:]:
            if ty[0] == "struct":
                off += ty[3][i]
                ty = ty[4][i]
            elif ty[0] == "arr":
                off += i * ty[4][1]
                ty = ty[4]
            else:
                raise Undecided("GEP into scalar")
        return off


class Mem:
    def __init__(self):
        self.obj = {}       # base -> list of [off, size, poly]

    def copy(self):
        m = Mem()
        m.obj = dict((b, [list(p) for p in ps]) for b, ps in self.obj.items())
        return m

    def _split(self, cx, base, at):
        ps = self.obj.setdefault(base, [])
        for p in list(ps):
            o, n, v = p
            if o < at < o + n:
                ps.remove(p)
                lo_n = at - o
                ps.append([o, lo_n, M(cx, v, 8 * lo_n)])
                ps.append([at, n - lo_n, F(cx, v, 8 * lo_n)])

    def store(self, cx, base, off, size, v):
        self._split(cx, base, off)
        self._split(cx, base, off + size)
        ps = self.obj.setdefault(base, [])
        ps[:] = [p for p in ps if not (off <= p[0] and p[0] + p[1] <= off + size)]
        ps.append([off, size, v])

    def load(self, cx, base, off, size):
        self._split(cx, base, off)
        self._split(cx, base, off + size)
        ps = sorted(p for p in self.obj.get(base, []) if off <= p[0] and p[0] + p[1] <= off + size)
        cov, v = off, {}
        for o, n, pv in ps:
            if o != cov:
                raise Undecided("load of bytes never written (%s+%d)" % (base, cov))
            v = padd(v, pscale(pv, 1 << (8 * (o - off))))
            cov = o + n
        if cov != off + size:
            raise Undecided("load of bytes never written (%s+%d)" % (base, cov))
        return v


def _body(l):
    return l.split("=", 1)[1].strip() if re.match(r"^%\S+\s*=", l) else l


_STRIP = re.compile(r"(?<![\w.%@])(noundef|nonnull|nocapture|readonly|writeonly|noalias|signext|zeroext|inbounds|nuw|nsw|exact|tail|notail|musttail|immarg|align \d+|dereferenceable\(\d+\)|dereferenceable_or_null\(\d+\))(?![\w.]) ?")


class Path:
    def __init__(self, cx, env, mem, conds):
        self.cx, self.env, self.mem, self.conds = cx, env, mem, conds


def run_function(mod_text, fn, cx, params, layout, max_paths=64, max_steps=400000):
    """params: {param name: ("int", bits, poly) | ("ptr", base)}; returns list of (Path, return value | None)"""
    results = []
    steps = [0]

    def val(p, tok, ty=None):
        tok = tok.strip()
        if tok in p.env:
            return p.env[tok]
        if re.match(r"^-?\d+$", tok):
            b = int(re.match(r"^i(\d+)$", ty).group(1)) if ty and re.match(r"^i(\d+)$", ty) else 64
            return ("int", b, const(int(tok) % (1 << b)))
        if tok in ("true", "false"):
            return ("int", 1, const(1 if tok == "true" else 0))
        if tok in ("undef", "poison"):
            return ("undef",)
        if tok == "null":
            return ("ptr", None, 0)
        raise Undecided("operand " + tok)

    def ibits(ty):
        m = re.match(r"^i(\d+)$", ty.strip())
        if not m:
            raise Undecided("type " + ty)
        return int(m.group(1))

    # immediate post-dominators (for merging redundant data-dependent branches)
    succs = {}
    for lab_ in fn.order:
        t_ = _body(fn.blocks[lab_][-1]) if fn.blocks[lab_] else ""
        succs[lab_] = [x[1:].strip('"') for x in ir._successors(t_)]
    EXIT = "<exit>"
    nodes = list(fn.order) + [EXIT]
    pdom = dict((n, set(nodes)) for n in nodes)
    pdom[EXIT] = {EXIT}
    changed = True
    while changed:
        changed = False
        for n in fn.order:
            ss = succs[n] or [EXIT]
            new = set.intersection(*[pdom[x] for x in ss]) | {n}
            if new != pdom[n]:
                pdom[n], changed = new, True

    def ipdom(n):
        cands = pdom[n] - {n}
        for c_ in cands:
            if all(c_ == o or c_ not in pdom[o] - {o} or True for o in cands) and all(o in pdom[c_] for o in cands):
                return c_
        return None

    def phis_at(p, lab, prev):
        out = {}
        for l in fn.blocks[lab]:
            m = re.match(r"^(%\S+)\s*=\s*phi (\S+) (.*)$", l)
            if not m:
                break
            inc = dict((bb.strip('"'), vv.strip()) for vv, bb in re.findall(r"\[\s*([^,\]]+),\s*%(\"[^\"]*\"|[-\w.$]+)\s*\]", m.group(3)))
            if prev not in inc:
                raise Undecided("phi without the predecessor")
            out[m.group(1)] = val(p, inc[prev], m.group(2))
        return out

    def same_state(cA, pGen, prevGen, pSpec, prevSpec, J):
        """is the state of the general side, specialised by context cA, the state of the special side?"""
        a, b = phis_at(pGen, J, prevGen), phis_at(pSpec, J, prevSpec)
        for k_ in a:
            x, y = a[k_], b[k_]
            if x[0] != y[0]:
                return False
            if x[0] == "int":
                if deep_resolve(cA, padd(x[2], y[2], -1)):
                    return False
            elif x != y:
                return False
        bases = set(pGen.mem.obj) | set(pSpec.mem.obj)
        for base in bases:
            pa = sorted((o, n) for o, n, _ in pGen.mem.obj.get(base, []))
            pb = sorted((o, n) for o, n, _ in pSpec.mem.obj.get(base, []))
            if not pa and not pb:
                continue
            lo_ = min([o for o, n in pa + pb])
            hi_ = max([o + n for o, n in pa + pb])
            try:
                va, vb = pGen.mem.copy().load(cA, base, lo_, hi_ - lo_), pSpec.mem.copy().load(cA, base, lo_, hi_ - lo_)
            except Undecided:
                return False
            if deep_resolve(cA, padd(va, vb, -1)):
                return False
        return True

    def execute(p, lab, prev, visits, stop=None, collector=None):
        cx = p.cx
        while True:
            if stop is not None and lab == stop:
                collector.append((p, prev))
                return
            visits = dict(visits)
            visits[lab] = visits.get(lab, 0) + 1
            if visits[lab] > 70:
                raise Undecided("loop not unrolled (block %s)" % lab)
            blk = fn.blocks[lab]
            # phis first (simultaneous)
            newv = {}
            i = 0
            while i < len(blk) and re.match(r"^%\S+\s*=\s*phi ", blk[i]):
                m = re.match(r"^(%\S+)\s*=\s*phi (\S+) (.*)$", blk[i])
                inc = dict((bb.strip('"'), vv.strip()) for vv, bb in re.findall(r"\[\s*([^,\]]+),\s*%(\"[^\"]*\"|[-\w.$]+)\s*\]", m.group(3)))
                if prev not in inc:
                    raise Undecided("phi without the predecessor")
                newv[m.group(1)] = val(p, inc[prev], m.group(2))
                i += 1
            p.env.update(newv)
            for l in blk[i:]:
                steps[0] += 1
                if steps[0] > max_steps:
                    raise Undecided("too many steps")
                l = re.sub(r", !\w[\w.]* !\d+", "", l)
                l = re.sub(r", align \d+", "", l)
                m = re.match(r"^(%\S+)\s*=\s*(.*)$", l)
                dst, b = (m.group(1), m.group(2)) if m else (None, l)
                b = _STRIP.sub("", b).strip()
                op = b.split(" ", 1)[0]
                if op in ("add", "sub", "mul", "and", "or", "xor", "shl", "lshr", "ashr", "udiv", "urem"):
                    mm = re.match(r"^\w+ (i\d+) (\S+), (\S+)$", b)
                    w = ibits(mm.group(1))
                    x, y = val(p, mm.group(2), mm.group(1)), val(p, mm.group(3), mm.group(1))
                    if x[0] == "undef" or y[0] == "undef":
                        p.env[dst] = ("undef",)
                        continue
                    p.env[dst] = ("int", w, binop(cx, op, w, x[2], y[2]))
                elif op in ("zext", "sext", "trunc"):
                    mm = re.match(r"^\w+ (i\d+) (\S+) to (i\d+)$", b)
                    w1, w2 = ibits(mm.group(1)), ibits(mm.group(3))
                    x = val(p, mm.group(2), mm.group(1))
                    if x[0] == "undef":
                        p.env[dst] = x
                    elif op == "zext":
                        p.env[dst] = ("int", w2, x[2])
                    elif op == "trunc":
                        p.env[dst] = ("int", w2, M(cx, x[2], w2))
                    else:
                        sgn = F(cx, x[2], w1 - 1)                    # 1 when the top bit is set
                        p.env[dst] = ("int", w2, padd(x[2], pscale(sgn, (1 << w2) - (1 << w1))))
                elif op == "icmp":
                    mm = re.match(r"^icmp (\w+) (\S+) (\S+), (\S+)$", b)
                    pred, ty = mm.group(1), mm.group(2)
                    x, y = val(p, mm.group(3), ty), val(p, mm.group(4), ty)
                    if x[0] == "ptr" or y[0] == "ptr":
                        if pred in ("eq", "ne") and x[0] == y[0] == "ptr":
                            same = (x[1] == y[1] and x[2] == y[2])
                            if x[1] != y[1] and None not in (x[1], y[1]):
                                same = False
                            p.env[dst] = ("int", 1, const(1 if same == (pred == "eq") else 0))
                            continue
                        raise Undecided("pointer comparison")
                    w = ibits(ty)
                    p.env[dst] = ("int", 1, icmp(cx, pred, w, x[2], y[2]))
                elif op == "select":
                    mm = re.match(r"^select i1 (\S+), (\S+) (\S+), (\S+) (\S+)$", b)
                    c = val(p, mm.group(1), "i1")
                    x, y = val(p, mm.group(3), mm.group(2)), val(p, mm.group(5), mm.group(4))
                    if is_const(c[2]):
                        p.env[dst] = x if cval(c[2]) else y
                    elif x[0] == "int" and y[0] == "int" and x[1] == 1 and is_const(y[2]) and cval(y[2]) == 0:
                        v = pmul(c[2], x[2])                       # logical and
                        if pkey(v) not in (pkey(c[2]), pkey(x[2])):
                            cx.bands[pkey(v)] = (c[2], x[2])
                        p.env[dst] = ("int", 1, v)
                    elif x[0] == "int" and y[0] == "int" and x[1] == 1 and is_const(x[2]) and cval(x[2]) == 1:
                        v = padd(padd(c[2], y[2]), pmul(c[2], y[2]), -1)     # logical or
                        if pkey(v) not in (pkey(c[2]), pkey(y[2])):
                            cx.bors[pkey(v)] = (c[2], y[2])
                        p.env[dst] = ("int", 1, v)
                    elif x[0] == "int" and y[0] == "int":
                        v = padd(pmul(c[2], x[2]), pmul(padd(const(1), c[2], -1), y[2]))
                        rx, ry = prange(cx, x[2]), prange(cx, y[2])
                        cx.pcons.setdefault(pkey(v), (min(rx[0], ry[0]), max(rx[1], ry[1])))
                        p.env[dst] = ("int", x[1], v)
                    else:
                        raise Undecided("select of non-integers on an undecided condition")
                elif op == "alloca":
                    p.env[dst] = ("ptr", "alloca" + dst, 0)
                    p.mem.obj.setdefault("alloca" + dst, [])
                elif op == "bitcast":
                    mm = re.match(r"^bitcast (.+?) (\S+) to (.+)$", b)
                    p.env[dst] = val(p, mm.group(2))
                elif op == "getelementptr":
                    parts = [x.strip() for x in ir._split_top(b[len("getelementptr "):])]
                    if len(parts) < 2:
                        raise Undecided("GEP form: " + b[:80])
                    src_ty = parts[0]
                    base = val(p, parts[1].rsplit(" ", 1)[1])
                    idx = []
                    for part in parts[2:]:
                        ty_, tok_ = part.strip().split(" ")
                        v_ = val(p, tok_, ty_)
                        if not is_const(v_[2]):
                            raise Undecided("GEP with a symbolic index")
                        c_ = cval(v_[2])
                        wb = ibits(ty_)
                        idx.append(c_ - (1 << wb) if c_ >= (1 << (wb - 1)) else c_)
                    p.env[dst] = ("ptr", base[1], base[2] + layout.gep(src_ty, idx))
                elif op == "load":
                    mm = re.match(r"^load (i\d+), \S+ (\S+)$", b)
                    if not mm:
                        raise Undecided("load form: " + b[:80])
                    ptr = val(p, mm.group(2))
                    w = ibits(mm.group(1))
                    p.env[dst] = ("int", w, p.mem.load(cx, ptr[1], ptr[2], w // 8))
                elif op == "store":
                    mm = re.match(r"^store (i\d+) (\S+), \S+ (\S+)$", b)
                    if not mm:
                        raise Undecided("store form: " + b[:80])
                    v_ = val(p, mm.group(2), mm.group(1))
                    ptr = val(p, mm.group(3))
                    if v_[0] == "undef":
                        raise Undecided("store of undef")
                    p.mem.store(cx, ptr[1], ptr[2], ibits(mm.group(1)) // 8, v_[2])
                elif op == "call":
                    mm = re.match(r"^call .*?@([\w.$]+)\((.*)\)", b)
                    name = mm.group(1) if mm else ""
                    if name.startswith(("llvm.lifetime", "llvm.dbg", "llvm.experimental.noalias", "llvm.assume")):
                        continue
                    args = [a.strip() for a in ir._split_top(mm.group(2))] if mm else []
                    if name.startswith("llvm.memset."):
                        ptr = val(p, args[0].split()[-1])
                        byte = val(p, args[1].split()[-1], "i8")
                        n = val(p, args[2].split()[-1], "i64")
                        if not is_const(n[2]):
                            raise Undecided("memset with a symbolic length")
                        nb = cval(n[2])
                        p.mem.store(cx, ptr[1], ptr[2], nb, pscale(byte[2], sum(1 << (8 * i) for i in range(nb))))
                    elif name.startswith(("llvm.memcpy.", "llvm.memmove.")):
                        d_, s_ = val(p, args[0].split()[-1]), val(p, args[1].split()[-1])
                        n = val(p, args[2].split()[-1], "i64")
                        if not is_const(n[2]):
                            raise Undecided("memcpy with symbolic length")
                        nb = cval(n[2])
                        p.mem._split(cx, s_[1], s_[2])
                        p.mem._split(cx, s_[1], s_[2] + nb)
                        pieces = sorted(q for q in p.mem.obj.get(s_[1], []) if s_[2] <= q[0] and q[0] + q[1] <= s_[2] + nb)
                        if sum(q[1] for q in pieces) != nb:
                            raise Undecided("memcpy from bytes never written")
                        for o, n_, v_ in [tuple(q) for q in pieces]:
                            p.mem.store(cx, d_[1], d_[2] + (o - s_[2]), n_, v_)
                    elif re.match(r"^llvm\.fsh[lr]\.i\d+$", name):
                        ty = args[0].rsplit(" ", 1)[0]
                        w = ibits(ty)
                        hi_, lo_ = val(p, args[0].split()[-1], ty), val(p, args[1].split()[-1], ty)
                        kk = val(p, args[2].split()[-1], ty)
                        if not is_const(kk[2]):
                            raise Undecided("funnel shift by a symbolic count")
                        k_ = cval(kk[2]) % w
                        cat = padd(pscale(hi_[2], 1 << w), lo_[2])            # the 2w-bit concatenation
                        if "fshl" in name:
                            p.env[dst] = ("int", w, M(cx, F(cx, cat, w - k_), w) if k_ else hi_[2])
                        else:
                            p.env[dst] = ("int", w, M(cx, F(cx, cat, k_), w) if k_ else lo_[2])
                    elif re.match(r"^llvm\.(umax|umin)\.", name):
                        ty = args[0].rsplit(" ", 1)[0]
                        x, y = val(p, args[0].split()[-1], ty), val(p, args[1].split()[-1], ty)
                        lt = LT(cx, x[2], y[2])
                        big, small = (y, x)
                        v = padd(pmul(lt, y[2]), pmul(padd(const(1), lt, -1), x[2])) if "umax" in name else padd(pmul(lt, x[2]), pmul(padd(const(1), lt, -1), y[2]))
                        p.env[dst] = ("int", x[1], v)
                    else:
                        raise Undecided("call of " + name)
                elif op == "insertvalue":
                    mm = re.match(r"^insertvalue (\{.*?\}) (\S+), (\S+) (\S+), (\d+)$", b)
                    agg = val(p, mm.group(2)) if mm.group(2) not in ("poison", "undef") else ("agg", {})
                    d_ = dict(agg[1]) if agg[0] == "agg" else {}
                    d_[int(mm.group(5))] = val(p, mm.group(4), mm.group(3))
                    p.env[dst] = ("agg", d_)
                elif op == "extractvalue":
                    mm = re.match(r"^extractvalue (\{.*?\}) (\S+), (\d+)$", b)
                    agg = val(p, mm.group(2))
                    p.env[dst] = agg[1][int(mm.group(3))]
                elif op == "freeze":
                    mm = re.match(r"^freeze (\S+) (\S+)$", b)
                    p.env[dst] = val(p, mm.group(2), mm.group(1))
                elif op == "ret":
                    mm = re.match(r"^ret (void|\{.*?\}|\S+)\s*(\S+)?$", b)
                    rv = None if mm.group(1) == "void" else val(p, mm.group(2), mm.group(1))
                    results.append((p, rv))
                    if len(results) > max_paths:
                        raise Undecided("too many paths")
                    return
                elif op == "br":
                    mm = re.match(r"^br i1 (\S+), label %(\S+), label %(\S+)$", b)
                    if not mm:
                        nxt = re.match(r"^br label %(\S+)$", b).group(1).strip('"')
                        prev, lab = lab, nxt
                        break
                    c = val(p, mm.group(1), "i1")
                    t_, f_ = mm.group(2).strip('"'), mm.group(3).strip('"')
                    if is_const(c[2]):
                        prev, lab = lab, (t_ if cval(c[2]) else f_)
                        break
                    # a data-dependent branch whose one side is a shortcut for the other (e.g. `if (limb != 0)` round a
                    # block that leaves everything as it is when the limb is 0): run both sides up to the join WITHOUT
                    # the condition; if one side's state, specialised by the other side's condition, is the other
                    # side's state, that side is valid for every value and the split is dropped
                    J = ipdom(lab)
                    if J is not None and J != EXIT and J != stop:      # (a chain of exits to one join is not re-explored at every link)
                        try:
                            arr = {}
                            for truth, target in ((1, t_), (0, f_)):
                                col = []
                                p2 = Path(cx.fork(), dict(p.env), p.mem.copy(), list(p.conds))
                                saved = len(results)
                                execute(p2, target, lab, visits, stop=J, collector=col)
                                if len(results) != saved:
                                    del results[saved:]
                                    raise Undecided("a side returns before the join")
                                arr[truth] = col
                            if len(arr[1]) == 1 and len(arr[0]) == 1:
                                merged = None
                                for gen, spec in ((1, 0), (0, 1)):
                                    cS = assume(cx, c[2], spec)
                                    if cS is None:
                                        merged = arr[gen][0]
                                        break
                                    if same_state(cS, arr[gen][0][0], arr[gen][0][1], arr[spec][0][0], arr[spec][0][1], J):
                                        merged = arr[gen][0]
                                        break
                                if merged is not None:
                                    p, prev, lab = merged[0], merged[1], J
                                    cx = p.cx
                                    break
                        except Undecided:
                            pass
                    for truth, target in ((1, t_), (0, f_)):
                        c2 = assume(cx, c[2], truth)
                        if c2 is None:
                            continue
                        p2 = Path(c2, dict(p.env), p.mem.copy(), p.conds + [(c[2], truth)])
                        execute(p2, target, lab, visits, stop, collector)
                    return
                elif op == "unreachable":
                    return
                elif op == "switch":
                    raise Undecided("switch")
                else:
                    raise Undecided("instruction " + b[:60])
            else:
                raise Undecided("block without terminator")

    def binop(cx, op, w, x, y):
        W = 1 << w
        rx, ry = prange(cx, x), prange(cx, y)
        if op == "add":
            return M(cx, padd(x, y), w, (rx[0] + ry[0], rx[1] + ry[1]))
        if op == "sub":
            return M(cx, padd(x, y, -1), w, (rx[0] - ry[1], rx[1] - ry[0]))
        if op == "mul":
            return M(cx, pmul(x, y), w, _imul(rx, ry))
        if op in ("udiv", "urem"):
            if is_const(y) and cval(y) > 0 and cval(y) & (cval(y) - 1) == 0:
                k = cval(y).bit_length() - 1
                return F(cx, x, k) if op == "udiv" else M(cx, x, k)
            if is_const(x) and is_const(y) and cval(y):
                return const(cval(x) // cval(y) if op == "udiv" else cval(x) % cval(y))
            q = Qdiv(cx, x, y)
            return q if op == "udiv" else padd(x, pmul(q, y), -1)
        if op in ("shl", "lshr", "ashr"):
            if not is_const(y):
                raise Undecided("shift by a symbolic count")
            k = cval(y)
            if k >= w:
                raise Undecided("shift count out of range")
            if op == "shl":
                return M(cx, pscale(x, 1 << k), w)
            if op == "lshr":
                return F(cx, x, k)
            sgn = F(cx, x, w - 1)
            return padd(F(cx, x, k), pscale(sgn, W - (1 << (w - k))))
        if op == "and":
            for a, b in ((x, y), (y, x)):
                if is_const(b):
                    c = cval(b)
                    if c == 0:
                        return {}
                    # contiguous mask 2^lo .. 2^hi
                    lo = (c & -c).bit_length() - 1
                    hi = c.bit_length()
                    if c == (1 << hi) - (1 << lo):
                        top = M(cx, a, hi) if hi < w else a
                        return padd(top, M(cx, a, lo), -1) if lo else top
                    raise Undecided("and with a non-contiguous mask")
            if w == 1:
                v = pmul(x, y)
                if pkey(v) not in (pkey(x), pkey(y)):
                    cx.bands[pkey(v)] = (x, y)
                return v
            # x and y == x + y - (x or y)
            return padd(padd(x, y), binop(cx, "or", w, x, y), -1)
        if op == "or":
            if w == 1:
                v = padd(padd(x, y), pmul(x, y), -1)
                if pkey(v) not in (pkey(x), pkey(y)):
                    cx.bors[pkey(v)] = (x, y)
                return v
            # disjoint when one operand is a multiple of 2^k and the other is below 2^k
            for a, b in ((x, y), (y, x)):
                rb = prange(cx, b)
                if rb[0] >= 0:
                    k = max(rb[1], 0).bit_length()
                    if not M(cx, a, k) and k < w + 1:
                        return padd(a, b)
            return cx.atom("OR", (pkey(x), pkey(y)) if pkey(x) <= pkey(y) else (pkey(y), pkey(x)), {"a": x, "b": y})
        if op == "xor":
            for a, b in ((x, y), (y, x)):
                if is_const(b) and cval(b) == W - 1:
                    return padd(const(W - 1), a, -1)
                if is_const(b) and cval(b) == 0:
                    return a
                # a low mask 2^k - 1 against a value known to lie below 2^k: the complement within k bits
                if is_const(b) and cval(b) > 0 and cval(b) & (cval(b) + 1) == 0:
                    ra = prange(cx, a)
                    if ra[0] >= 0 and ra[1] <= cval(b):
                        return padd(const(cval(b)), a, -1)
            if w == 1:
                return padd(padd(x, y), pscale(pmul(x, y), 2), -1)
            kx, ky = pkey(x), pkey(y)
            return cx.atom("XOR", (kx, ky) if kx <= ky else (ky, kx), {"a": x, "b": y, "w": w})
        raise Undecided("operator " + op)

    def icmp(cx, pred, w, x, y):
        if pred in ("eq", "ne"):
            z = Z(cx, padd(x, y, -1))
            return z if pred == "ne" else padd(const(1), z, -1)
        if pred in ("slt", "sle", "sgt", "sge"):
            x = padd(x, pscale(F(cx, x, w - 1), 1 << w), -1)
            y = padd(y, pscale(F(cx, y, w - 1), 1 << w), -1)
            pred = "u" + pred[1:]
        if pred == "ult":
            return LT(cx, x, y)
        if pred == "ugt":
            return LT(cx, y, x)
        if pred == "ule":
            return padd(const(1), LT(cx, y, x), -1)
        if pred == "uge":
            return padd(const(1), LT(cx, x, y), -1)
        raise Undecided("predicate " + pred)

    def assume(cx, c, truth):
        """context refined by `c == truth` (c a 0/1 polynomial); None when infeasible by ranges"""
        lo, hi = prange(cx, c)
        if truth and hi < 1 or (not truth and lo > 0):
            return None
        if truth and pkey(c) in cx.bands:
            x_, y_ = cx.bands[pkey(c)]
            c1 = assume(cx, x_, 1)
            c1 = assume(c1, y_, 1) if c1 is not None else None
            if c1 is not None:
                c1.pcons[pkey(c)] = (1, 1)
            return c1
        if not truth and pkey(c) in cx.bors:
            x_, y_ = cx.bors[pkey(c)]
            c1 = assume(cx, x_, 0)
            c1 = assume(c1, y_, 0) if c1 is not None else None
            if c1 is not None:
                c1.pcons[pkey(c)] = (0, 0)
            return c1
        c2 = cx.fork()
        c2.pcons[pkey(c)] = (truth, truth)
        # c == atom, or c == 1 - atom
        for sign, base in ((1, c), (-1, padd(const(1), c, -1))):
            if len(base) == 1:
                (m, k), = base.items()
                if k == 1 and len(m) == 1 and m[0][1] == 1:
                    at = m[0][0]
                    v = truth if sign == 1 else 1 - truth
                    r = atom_range(cx, at)
                    if not (r[0] <= v <= r[1]):
                        return None
                    c3 = _with_atom(c2, at, v)
                    c3.pcons[pkey(c)] = (truth, truth)
                    return c3
            neg = pscale(base, -1)
            if len(neg) == 1:
                (m, k), = neg.items()
                if k == 1 and len(m) == 1 and m[0][1] == 1:      # c == -atom (atom in {-1, 0})
                    at = m[0][0]
                    v = -(truth if sign == 1 else 1 - truth)
                    r = atom_range(cx, at)
                    if not (r[0] <= v <= r[1]):
                        return None
                    c3 = _with_atom(c2, at, v)
                    c3.pcons[pkey(c)] = (truth, truth)
                    return c3
        return c2

    env = dict(params)
    mem = Mem()
    p0 = Path(cx, env, mem, [])
    return p0, execute, results


def evaluate(cx, a, asg, memo=None):
    """value of polynomial a under an assignment of the limb atoms (atom id -> int); derived atoms are computed"""
    memo = {} if memo is None else memo

    def av(at):
        if at in asg:
            return asg[at]
        if at in memo:
            return memo[at]
        d = cx.atoms[at]
        k = d["kind"]
        if k == "F":
            v = evaluate(cx, d["arg"], asg, memo) >> d["sh"]
        elif k == "S":
            v = -1 if evaluate(cx, d["arg"], asg, memo) < 0 else 0
        elif k == "Z":
            v = 1 if evaluate(cx, d["arg"], asg, memo) != 0 else 0
        elif k == "OR":
            v = evaluate(cx, d["a"], asg, memo) | evaluate(cx, d["b"], asg, memo)
        elif k == "XOR":
            v = (evaluate(cx, d["a"], asg, memo) ^ evaluate(cx, d["b"], asg, memo)) % (1 << d["w"])
        elif k == "Q":
            yv = evaluate(cx, d["y"], asg, memo)
            if yv == 0:
                raise Undecided("division by zero at the sample")
            v = evaluate(cx, d["x"], asg, memo) // yv
        else:
            raise Undecided("unassigned limb atom")
        memo[at] = v
        return v
    t = 0
    for m, c in a.items():
        x = c
        for at, e in m:
            x *= av(at) ** e
        t += x
    return t


def subst_poly(a, at, q):
    """atom := polynomial q"""
    r = {}
    for m, c in a.items():
        e = dict(m).get(at, 0)
        if not e:
            r[m] = r.get(m, 0) + c
            if not r[m]:
                del r[m]
            continue
        base = {tuple(x for x in m if x[0] != at): c}
        for _ in range(e):
            base = pmul(base, q)
        r = padd(r, base)
    return r


def znorm(cx, a):
    """x * [c x != 0] == x: an indicator of the non-zeroness of an atom is dropped from the monomials that contain the atom"""
    out = {}
    changed = False
    for m, c in a.items():
        present = set(at for at, _ in m)
        m2 = []
        for at, e in m:
            d = cx.atoms[at]
            if d["kind"] == "Z" and len(d["arg"]) == 1:
                (am, ac), = d["arg"].items()
                if len(am) == 1 and am[0][0] in present and am[0][0] != at:
                    changed = True
                    continue
            m2.append((at, e))
        m2 = tuple(m2)
        v = out.get(m2, 0) + c
        if v:
            out[m2] = v
        else:
            out.pop(m2, None)
    return out if changed else a


def deep_resolve(cx, a, memo=None, depth=0):
    """resolve, also inside the arguments of derived atoms (an argument that simplifies on this path gives a simpler
    atom: F(a0 b7 + a1 b6 + ..., 64) with a1 == 0 is F(a0 b7 + ..., 64))"""
    memo = {} if memo is None else memo
    a = znorm(cx, resolve(cx, a))
    if depth > 40:
        return a
    for at in sorted(atoms_of(a)):
        d = cx.atoms[at]
        if d["kind"] not in ("F", "S", "Z"):
            continue
        if at not in memo:
            arg2 = deep_resolve(cx, d["arg"], memo, depth + 1)
            new = Z(cx, arg2) if d["kind"] == "Z" else F(cx, arg2, d["sh"])      # re-derived in the path's context
            memo[at] = None if pkey(new) == pkey({((at, 1),): 1}) else new
        if memo[at] is not None:
            a = subst_poly(a, at, memo[at])
    return znorm(cx, resolve(cx, a))


def resolve(cx, a):
    """atoms whose range on this path is a single value are replaced by it"""
    for _ in range(20):
        done = True
        for at in sorted(atoms_of(a)):
            lo, hi = atom_range(cx, at)
            if lo == hi:
                a = subst(a, at, lo)
                done = False
        if done:
            break
    return a


def vanishes(cx, a, W, depth=0):
    """a == 0 modulo 2^W on this path: directly, or by case analysis over the two-valued atoms left in it (each case
    carries what the atom's value implies for its argument)"""
    a = reduce_mod(deep_resolve(cx, a), W)
    if not a:
        return True
    if depth >= 8:
        return False
    tv = two_valued(cx, a)
    if not tv or all(cx.atoms[t[0]]["kind"] == "Z" for t in tv):
        # also the undecided two-valued atoms of the path's own conditions (e.g. the sign bits a branch compared)
        extra = []
        for key, (plo, phi) in cx.pcons.items():
            if plo == phi and len(key) <= 6:
                for m, _ in key:
                    for at_, _e in m:
                        if cx.atoms[at_]["kind"] in ("F", "S") and at_ not in cx.override:
                            r_ = atom_range(cx, at_)
                            if r_[1] - r_[0] == 1 and (at_, r_[0], r_[1]) not in extra:
                                extra.append((at_, r_[0], r_[1]))
        tv = extra[:1] + tv if extra else tv
    if not tv:
        return False
    at, lo, hi = tv[0]
    for v in (lo, hi):
        c2 = _with_atom(cx, at, v)
        if not feasible(c2):
            continue                     # the atom cannot take this value on this path
        if not vanishes(c2, subst(a, at, v), W, depth + 1):
            return False
    return True


def reduce_mod(a, W):
    r = {}
    for m, c in a.items():
        c %= (1 << W)
        if c:
            r[m] = c
    return r


# ------------------------------------------------------------------------------------------------------------ obligation
def operand(cx, name, W, L):
    """limb atoms of one W-bit operand with L-bit limbs: (list of limb polys, value poly)"""
    limbs = [cx.limb("%s%d" % (name, i), L) for i in range(W // L)]
    v = {}
    for i, l in enumerate(limbs):
        v = padd(v, pscale(l, 1 << (L * i)))
    return limbs, v


def limbs_of(p, L, W):
    """The limb polynomials of an operand polynomial sum_i limb_i 2^(i L) (as built by check_kernel), least significant first."""
    out = [{} for _ in range(W // L)]
    for m, c in p.items():
        if c <= 0 or c & (c - 1) or (c.bit_length() - 1) % L or len(m) != 1 or m[0][1] != 1:
            raise Undecided("operand is not a plain limb sum")
        out[(c.bit_length() - 1) // L] = {m: 1}
    return out


def bitwise(cx, op, a, b, L, W):
    """Specification of a limb-wise and/or/xor: sum_i (a_i OP b_i) 2^(i L), stated over the limbs with the same atoms the
    interpreter creates for a machine `or` / `xor` of two symbolic values (x and y == x + y - (x or y))."""
    r = {}
    for i, (x, y) in enumerate(zip(limbs_of(a, L, W), limbs_of(b, L, W))):
        kx, ky = pkey(x), pkey(y)
        if op == "xor":
            t = cx.atom("XOR", (kx, ky) if kx <= ky else (ky, kx), {"a": x, "b": y, "w": L})
        else:
            t = cx.atom("OR", (kx, ky) if kx <= ky else (ky, kx), {"a": x, "b": y})
            if op == "and":
                t = padd(padd(x, y), t, -1)
        r = padd(r, pscale(t, 1 << (i * L)))
    return r


def check_kernel(mod_text, fn, W, opdesc, spec, seed=0, samples=200):
    """fn: ir function of `R k(A a, B b)`.  W: bits of the result object; opdesc: [(name, bits, limb bits)] of the
    operands in parameter order.  spec(cx, values) -> polynomial of the expected result (any representative modulo 2^W).
    Returns ("proved" | "refuted" | "undecided", detail dict)."""
    cx = Ctx()
    layout = Layout(mod_text)
    ops = [operand(cx, n, w_, l_) + (w_, l_) for n, w_, l_ in opdesc]
    params = {}
    ptypes = [t for t, _ in fn.params]
    pnames = [n for _, n in fn.params]
    mem_init = []
    ret_base = None
    k = 0
    if fn.ret.strip() == "void":
        ret_base = "sret"
        params[pnames[0]] = ("ptr", "sret", 0)
        k = 1
    for oi, (limbs, v, Wi, L) in enumerate(ops):
        if k >= len(pnames):
            raise Undecided("fewer parameters than operands")
        t = ptypes[k].strip()
        if t.endswith("*"):
            base = "op%d" % oi
            params[pnames[k]] = ("ptr", base, 0)
            mem_init.append((base, limbs, L))
            k += 1
        else:
            got = 0
            while got < Wi:
                if k >= len(pnames):
                    raise Undecided("operand words missing from the parameter list")
                b = int(re.match(r"^i(\d+)", ptypes[k].strip()).group(1))
                word = {}
                for j in range(got // L, min(-(-(got + b) // L), len(limbs))):
                    word = padd(word, pscale(limbs[j], 1 << (L * j - got)))
                params[pnames[k]] = ("int", b, word)
                got += b
                k += 1
    p0, execute, results = run_function(mod_text, fn, cx, params, layout)
    for base, limbs, L in mem_init:
        for i, l in enumerate(limbs):
            p0.mem.store(cx, base, i * L // 8, L // 8, l)
    execute(p0, fn.order[0], None, {})
    if not results:
        raise Undecided("no path returns")
    want = spec(cx, [o[1] for o in ops])
    rng = random.Random(seed)
    limb_ids = sorted(at for at, d in enumerate(cx.atoms) if d["kind"] == "limb")
    detail = {"paths": len(results), "atoms": len(cx.atoms)}
    verdict = "proved"
    for p, rv in results:
        pc = p.cx
        if not feasible(pc):
            detail["infeasible_paths"] = detail.get("infeasible_paths", 0) + 1
            continue                 # the path's conditions contradict each other: no input takes it
        if ret_base:
            got = p.mem.load(pc, "sret", 0, W // 8)
        elif rv is None:
            raise Undecided("void function without sret")
        elif rv[0] == "agg":
            got, off = {}, 0
            for i in sorted(rv[1]):
                f = rv[1][i]
                got = padd(got, pscale(f[2], 1 << off))
                off += f[1]
        else:
            got = rv[2]
        d = reduce_mod(resolve(pc, padd(got, want, -1)), W)
        if not d or vanishes(pc, d, W):
            continue
        # residue: look for a counterexample among limb values that satisfy the path's conditions
        found = None
        byname = dict((cx.atoms[at]["name"], at) for at in limb_ids)
        for it in range(samples):
            asg = {}
            mode = it % 4            # 0: independent limbs; 1: second operand equal to the first; 2: equal but for one limb; 3: independent
            for at in limb_ids:
                lo, hi = pc.override.get(at, (cx.atoms[at]["lo"], cx.atoms[at]["hi"]))
                if lo > hi:
                    break
                r = rng.random()
                asg[at] = lo if r < 0.15 else (hi if r < 0.3 else rng.randint(lo, hi))
                nm = cx.atoms[at]["name"]
                if mode in (1, 2) and nm.startswith("b") and ("a" + nm[1:]) in byname and byname["a" + nm[1:]] in asg:
                    v_ = asg[byname["a" + nm[1:]]]
                    if lo <= v_ <= hi:
                        asg[at] = v_
            else:
                if mode == 2 and limb_ids:
                    at = rng.choice(limb_ids)
                    lo, hi = pc.override.get(at, (cx.atoms[at]["lo"], cx.atoms[at]["hi"]))
                    if lo <= hi:
                        asg[at] = rng.randint(lo, hi)
                try:
                    if all(evaluate(cx, c, asg) == t for c, t in p.conds) and evaluate(cx, d, asg) % (1 << W) != 0:
                        found = asg
                        break
                except Undecided:
                    pass
        if found is not None:
            detail["counterexample"] = dict((cx.atoms[at]["name"], v) for at, v in sorted(found.items()))
            detail["expected"] = evaluate(cx, want, found) % (1 << W)
            detail["computed"] = evaluate(cx, got, found) % (1 << W)
            detail["path_conditions"] = len(p.conds)
            return "refuted", detail
        verdict = "undecided"
        detail["residue_terms"] = len(d)
    return verdict, detail


# ------------------------------------------------------------------------------------------------------------ batch API
def result_bits(mod_text, fn, layout=None):
    """size in bits of the object a kernel returns (sret pointee, iN or a literal struct)"""
    layout = layout or Layout(mod_text)
    if fn.ret.strip() == "void":
        t = fn.params[0][0].strip()
        m = re.match(r"^(.*)\*", t)
        return layout.parse(m.group(1).strip())[1] * 8
    return layout.parse(fn.ret.strip())[1] * 8


def run_plan(work, tag, src, plan, seed=0, jobs=None):
    """compile one TU of by-value kernels (release semantics, vectorisers off, everything inlined) and decide each job
    (fname, operands [(name, bits, limb bits)], result bits or None (taken from the IR), spec(cx, values, RW));
    returns [(verdict, detail)] in plan order"""
    import os, time
    from . import tc
    p, out = os.path.join(work, tag + ".cpp"), os.path.join(work, tag + ".ll")
    open(p, "w").write(src)
    cmd = [tc.CLANGXX] + tc.COMMON + ["-O2", "-DNDEBUG", "-fno-vectorize", "-fno-slp-vectorize", "-mllvm", "-inline-threshold=1000000", "-S", "-emit-llvm", p, "-o", out]
    rc, so, se = tc.run(cmd)
    if rc != 0:
        raise tc.AnalysisBroken("limb-arithmetic TU %s does not compile: %s" % (tag, se[:1500]))
    text = open(out).read()
    mod = ir.parse_module(text)
    layout = Layout(text)

    def one(job):
        fname, opds, RW, spec = job
        fn = mod.functions.get(fname)
        if fn is None:
            return ("undecided", {"why": "kernel vanished"})
        t0 = time.time()
        try:
            rw = RW or result_bits(text, fn, layout)
            v, d = check_kernel(text, fn, rw, opds, lambda cx, vals: spec(cx, vals, rw), seed=seed)
            d["result_bits"] = rw
        except Undecided as e:
            v, d = "undecided", {"why": str(e)[:200]}
        except RecursionError:
            v, d = "undecided", {"why": "recursion limit"}
        d["wall"] = round(time.time() - t0, 2)
        return (v, d)
    return tc.fmap(one, plan, jobs)


def sval(cx, a, w):
    """the signed value of a w-bit two's-complement word"""
    return padd(a, pscale(F(cx, a, w - 1), 1 << w), -1)
