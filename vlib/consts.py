"""Rational enclosures of the <numbers> constants, computed with integers only (no floating point, no third-party
package): each constant is returned as (lo, hi) Fractions with hi - lo < 2^-190.  Used as the oracle for the
scaled_integer specialisations of std::numbers (C20)."""
from fractions import Fraction
from math import isqrt

BITS = 220
ONE = 1 << BITS


def _atan_inv(n):
    """atan(1/n) * 2^BITS as (lo, hi) integers: alternating series, truncation of each term bounded"""
    s_lo = s_hi = 0
    k, p = 0, ONE // n
    n2 = n * n
    while p:
        t = p // (2 * k + 1)
        if k % 2 == 0:
            s_lo += t
            s_hi += t + 1
        else:
            s_lo -= t + 1
            s_hi -= t
        p //= n2
        k += 1
    # p was floored at every step: each true term lies within (k+2) units of the computed one; remainder < next term < 1 unit
    slack = (k + 2) * (k + 2)
    return s_lo - slack, s_hi + slack


def _atanh_inv(n):
    """atanh(1/n) * 2^BITS (lo, hi)"""
    s = 0
    k, p = 0, ONE // n
    n2 = n * n
    while p:
        s += p // (2 * k + 1)
        p //= n2
        k += 1
    slack = (k + 2) * (k + 2)
    return s - slack, s + slack


def _F(lo, hi):
    return Fraction(lo, ONE), Fraction(hi, ONE)


def _sqrt(q):
    """sqrt of a non-negative Fraction enclosure (lo, hi)"""
    lo, hi = q
    a = isqrt((lo.numerator << (2 * BITS)) // lo.denominator)
    b = isqrt(-((-hi.numerator << (2 * BITS)) // hi.denominator)) + 1
    return Fraction(a, ONE), Fraction(b, ONE)


def _inv(q):
    return 1 / q[1], 1 / q[0]


def _bernoulli(n):
    B = [Fraction(0)] * (n + 1)
    A = [Fraction(0)] * (n + 1)
    for m in range(n + 1):
        A[m] = Fraction(1, m + 1)
        for j in range(m, 0, -1):
            A[j - 1] = j * (A[j - 1] - A[j])
        B[m] = A[0]
    return B


def _egamma(ln10):
    """Euler-Mascheroni by Euler-Maclaurin at n = 1000: gamma = H_n - ln n - 1/(2n) + sum_{k=1..K} B_2k / (2k n^2k) - R,
    |R| <= |B_{2K+2}| / ((2K+2) n^(2K+2))"""
    n, K = 1000, 30
    H = sum(Fraction(1, i) for i in range(1, n + 1))
    B = _bernoulli(2 * K + 2)
    s = H - Fraction(1, 2 * n) + sum(B[2 * k] / (2 * k * Fraction(n) ** (2 * k)) for k in range(1, K + 1))
    R = abs(B[2 * K + 2]) / ((2 * K + 2) * Fraction(n) ** (2 * K + 2))
    lnn = (3 * ln10[0], 3 * ln10[1])
    return s - lnn[1] - R, s - lnn[0] + R


_CACHE = {}


def all_constants():
    if _CACHE:
        return _CACHE
    a5, a239 = _atan_inv(5), _atan_inv(239)
    pi = _F(16 * a5[0] - 4 * a239[1], 16 * a5[1] - 4 * a239[0])
    e_lo, k, t = 0, 0, ONE
    while t:
        e_lo += t
        k += 1
        t //= k
    e = _F(e_lo, e_lo + 2 * k + 2)
    h3, h9 = _atanh_inv(3), _atanh_inv(9)
    ln2 = _F(2 * h3[0], 2 * h3[1])
    ln10 = _F(6 * h3[0] + 2 * h9[0], 6 * h3[1] + 2 * h9[1])     # 3 ln 2 + ln(5/4), ln(5/4) = 2 atanh(1/9)
    two, three, five = (Fraction(2), Fraction(2)), (Fraction(3), Fraction(3)), (Fraction(5), Fraction(5))
    sqrt2, sqrt3, sqrt5 = _sqrt(two), _sqrt(three), _sqrt(five)
    C = {"pi": pi, "e": e, "ln2": ln2, "ln10": ln10, "sqrt2": sqrt2, "sqrt3": sqrt3,
         "log2e": _inv(ln2), "log10e": _inv(ln10), "inv_pi": _inv(pi), "inv_sqrtpi": _inv(_sqrt(pi)), "inv_sqrt3": _inv(sqrt3),
         "phi": ((1 + sqrt5[0]) / 2, (1 + sqrt5[1]) / 2), "egamma": _egamma(ln10)}
    for k, (lo, hi) in C.items():
        assert lo < hi and hi - lo < Fraction(1, 1 << 150), (k, float(hi - lo))
    _CACHE.update(C)
    return _CACHE


# independent cross-check: leading decimal digits as published
_PUBLISHED = {"pi": "3.14159265358979323846264338327950288419716939937510", "e": "2.71828182845904523536028747135266249775724709369995",
              "ln2": "0.69314718055994530941723212145817656807550013436025", "ln10": "2.30258509299404568401799145468436420760110148862877",
              "sqrt2": "1.41421356237309504880168872420969807856967187537694", "sqrt3": "1.73205080756887729352744634150587236694280525381038",
              "phi": "1.61803398874989484820458683436563811772030917980576", "egamma": "0.57721566490153286060651209008240243104215933593992",
              "log2e": "1.44269504088896340735992468100189213742664595415298", "log10e": "0.43429448190325182765112891891660508229439700580366",
              "inv_pi": "0.31830988618379067153776752674502872406891929148091", "inv_sqrtpi": "0.56418958354775628694807945156077258584405062932899",
              "inv_sqrt3": "0.57735026918962576450914878050195745564760175127013"}


def self_check():
    """the computed enclosures agree with the published digits to 1e-40 (first 40 decimals)"""
    bad = []
    for k, (lo, hi) in all_constants().items():
        p = Fraction(_PUBLISHED[k])
        if not (lo - Fraction(1, 10 ** 40) < p < hi + Fraction(1, 10 ** 40)):
            bad.append(k)
    return bad


if __name__ == "__main__":
    for k, (lo, hi) in all_constants().items():
        print(k, float(lo), float(hi - lo))
    print("disagreeing with the published digits:", self_check())
