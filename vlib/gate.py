"""Gated-expression normal form for loop-free functions.

The function is symbolically *re-expressed* (not executed) as one expression over its
parameters: branches become ite(cond, x, y) nodes, phis are resolved per incoming edge.
Smart constructors apply a fixed set of sound rewrites (constant folding, ite(c,x,x)=x,
value-equivalence under `X == K` conditions, with.overflow value projection, commutative
ordering).  Equal expressions => equal functions wherever the analysed function's own
evaluation is defined.  This is a rewriting normaliser (the same family as the compiler's
canonicaliser), not a solver: no search, no model construction.
"""
import re, sys
from . import ir as irmod

sys.setrecursionlimit(20000)

UNDEF = ("undef",)
_NONNEG = set()   # values known non-negative from the kernel's own assumptions (reset per function)
_RANGES = {}      # signed value ranges of parameters from the kernel's own entry assumptions (reset per function)
_DOMAINS = {}
_FIXED = {}
import threading
# the harvested knowledge above is module state: every use of this module from a worker thread holds LOCK for the whole
# gated()/expand() sequence of one obligation (kern._gated_match, C13.selection_trees)
LOCK = threading.RLock()     # the same knowledge as interval sets of bit patterns (vlib.iset.ISet), per parameter


class Unsupported(Exception):
    pass


def _bits(ty):
    m = re.fullmatch(r"i(\d+)", ty)
    return int(m.group(1)) if m else None


def C(bits, v):
    return ("c", bits, v & ((1 << bits) - 1))


def is_c(e):
    return e[0] == "c"


def sval(e):
    b, v = e[1], e[2]
    return v - (1 << b) if v >> (b - 1) else v


_COMM = {"add", "mul", "and", "or", "xor", "fadd", "fmul"}
_SWAP = irmod.SWAP_PRED


def _key(e):
    return repr(e)


_MANT = {"float": 24, "double": 53, "x86_fp80": 64, "fp128": 113}


def _lt_trunc(n):
    """n == (x < trunc(x)) for a floating x, trunc through fptosi / sitofp: returns x"""
    if not (isinstance(n, tuple) and n[0] == "fop" and n[1] == "fcmp"):
        return None
    pred, a, b = n[2], n[4], n[5]
    for p, x, t in ((pred, a, b), (_SWAP.get(pred, pred), b, a)):
        if p == "olt" and t[0] == "cast" and t[1] == "sitofp" and t[4][0] == "cast" and t[4][1] == "fptosi" and t[4][4] == x:
            return x
    return None


def _lt_zero(n):
    """n == (x < 0.0): returns x"""
    if not (isinstance(n, tuple) and n[0] == "fop" and n[1] == "fcmp"):
        return None
    pred, a, b = n[2], n[4], n[5]
    for p, x, z in ((pred, a, b), (_SWAP.get(pred, pred), b, a)):
        if p == "olt" and z[0] == "k" and re.match(r"^(-?0(\.0+)?(e[+-]?0+)?|0x[KLMH]?0+)$", str(z[2])):
            return x
    return None


def mk_bin(op, ty, a, b):
    bits = _bits(ty)
    if op == "and" and ty == "i1":
        # truncation moves toward zero: x < trunc(x) can only hold for a negative x, so  (x < trunc x) and (x < 0)  is  x < trunc x
        for p, q in ((a, b), (b, a)):
            x = _lt_trunc(p)
            if x is not None and _lt_zero(q) == x:
                return p
    if op == "sub" and a[0] == "pint" and b[0] == "pint" and a[1] == b[1] and a[3] == b[3] == ty:
        return mk_bin("sub", ty, a[2], b[2])       # (P + x) - (P + y) == x - y
    if bits and is_c(a) and is_c(b):
        x, y, sx, sy = a[2], b[2], sval(a), sval(b)
        if op == "add":
            return C(bits, x + y)
        if op == "sub":
            return C(bits, x - y)
        if op == "mul":
            return C(bits, x * y)
        if op == "and":
            return C(bits, x & y)
        if op == "or":
            return C(bits, x | y)
        if op == "xor":
            return C(bits, x ^ y)
        if op == "shl" and y < bits:
            return C(bits, x << y)
        if op == "lshr" and y < bits:
            return C(bits, x >> y)
        if op == "ashr" and y < bits:
            return C(bits, sx >> y)
        if op == "udiv" and y != 0:
            return C(bits, x // y)
        if op == "urem" and y != 0:
            return C(bits, x % y)
        if op == "sdiv" and y != 0 and not (sx == -(1 << (bits - 1)) and sy == -1):
            q = abs(sx) // abs(sy)
            return C(bits, q if (sx < 0) == (sy < 0) else -q)
        if op == "srem" and y != 0 and not (sx == -(1 << (bits - 1)) and sy == -1):
            r = abs(sx) % abs(sy)
            return C(bits, -r if sx < 0 else r)
    if bits:
        zero, ones = C(bits, 0), C(bits, -1)
        if op in ("add", "or", "xor") and is_c(a) and a[2] == 0:
            return b
        if op in ("add", "or", "xor", "sub", "shl", "lshr", "ashr") and is_c(b) and b[2] == 0:
            return a
        if op == "mul":
            for p, q in ((a, b), (b, a)):
                if is_c(p) and p[2] == 0:
                    return zero
                if is_c(p) and p[2] == 1:
                    return q
        if op == "and":
            for p, q in ((a, b), (b, a)):
                if is_c(p) and p[2] == 0:
                    return zero
                if p == ones:
                    return q
            if a == b:
                return a
        if op == "or":
            for p, q in ((a, b), (b, a)):
                if p == ones:
                    return ones
            if a == b:
                return a
        if op in ("sub", "xor") and a == b:
            return zero
        if op in ("udiv", "sdiv") and is_c(b) and b[2] == 1:
            return a
        if op in ("shl", "lshr", "mul", "udiv", "urem", "srem", "sdiv") and is_c(a) and a[2] == 0 and op not in ("mul",):
            return zero
    if bits and 1 < bits <= 128 and op == "ashr" and is_c(b) and not is_c(a):
        ra = _range(a)
        if ra is not None and ra[0] >= 0:
            return mk_bin("lshr", ty, a, b)       # arithmetic and logical right shifts agree on non-negative values
    if bits and 1 < bits <= 128 and op == "or" and (is_c(a) != is_c(b)):
        # k | y == k + y when y is non-negative and below the lowest set bit of k (disjoint bits)
        k_, y_ = (a, b) if is_c(a) else (b, a)
        ry = _range(y_)
        if k_[2] and ry is not None and ry[0] >= 0 and ry[1] < (k_[2] & -k_[2]):
            return mk_bin("add", ty, y_, k_)
    if bits and 1 < bits <= 128 and op == "shl" and is_c(a) and b[0] == "op" and b[1] == "add" and (is_c(b[3]) != is_c(b[4])):
        # c << (k + y) == (c << k) << y when 0 <= k, 0 <= y and k + y stays below the width (no shift is out of range)
        k_, y_ = (b[3], b[4]) if is_c(b[3]) else (b[4], b[3])
        ry = _range(y_)
        if ry is not None and ry[0] >= 0 and 0 <= sval(k_) and sval(k_) + ry[1] < bits:
            return mk_bin("shl", ty, C(bits, a[2] << sval(k_)), y_)
    if bits and op == "sub" and b[0] == "op" and b[1] == "mul":
        # x - (x / y) * y == x % y (same signedness of the division), whatever the values (y == 0 is undefined for both)
        for q_, y_ in ((b[3], b[4]), (b[4], b[3])):
            if q_[0] == "op" and q_[1] in ("sdiv", "udiv") and q_[3] == a and q_[4] == y_:
                return mk_bin("srem" if q_[1] == "sdiv" else "urem", ty, a, y_)
    if bits and bits > 1 and op == "sub" and is_c(a) and a[2] == (1 << bits) - 1 and not is_c(b):
        return mk_bin("xor", ty, b, C(bits, -1))                          # -1 - z == ~z
    if bits and bits > 1 and op == "udiv" and b[0] == "op" and b[1] == "sub" and is_c(b[3]) and b[3][2] == 0:
        # x / (0 - y) with x >= 0 and y < 0 (assumed ranges): the unsigned quotient is minus the signed quotient x / y
        rx, ry = _range(a), _range(b[4])
        if rx is not None and ry is not None and rx[0] >= 0 and ry[1] < 0 and ry[0] > -(1 << (bits - 1)):
            return mk_bin("sub", ty, C(bits, 0), mk_bin("sdiv", ty, a, b[4]))
    if bits and bits > 1 and op == "xor" and is_c(b) and b[2] == (1 << bits) - 1 and a[0] == "op" and a[1] == "sub" and is_c(a[3]) and a[3][2] == 0:
        return mk_bin("add", ty, a[4], C(bits, -1))                       # ~(0 - z) == z - 1
    if bits and bits > 1 and op == "xor" and is_c(a) and a[2] == (1 << bits) - 1 and b[0] == "op" and b[1] == "sub" and is_c(b[3]) and b[3][2] == 0:
        return mk_bin("add", ty, b[4], C(bits, -1))
    if bits and op in ("lshr", "udiv") and is_c(b) and a[0] == "op" and a[1] == "mul":
        k_ = (1 << b[2]) if (op == "lshr" and 0 < b[2] < bits) else (b[2] if op == "udiv" else 0)
        for c_, x_ in ((a[3], a[4]), (a[4], a[3])):
            if k_ > 1 and is_c(c_) and c_[2] % k_ == 0:
                rx = _range(x_)
                if rx is not None and rx[0] >= 0 and c_[2] * rx[1] < (1 << bits):
                    return mk_bin("mul", ty, C(bits, c_[2] // k_), x_)    # (c * x) / k == (c / k) * x when c * x cannot wrap and k divides c
    if bits and op == "lshr" and is_c(b) and 0 < b[2] < bits and a[0] == "op" and a[1] == "udiv" and is_c(a[4]) and (a[4][2] << b[2]) < (1 << bits):
        return mk_bin("udiv", ty, a[3], C(bits, a[4][2] << b[2]))          # (x / c) >> k == x / (c * 2^k), unsigned
    if bits and op == "udiv" and is_c(b) and b[2] > 0 and a[0] == "op" and a[1] == "udiv" and is_c(a[4]) and a[4][2] * b[2] < (1 << bits):
        return mk_bin("udiv", ty, a[3], C(bits, a[4][2] * b[2]))           # (x / c1) / c2 == x / (c1 * c2), unsigned
    if bits and op == "udiv" and is_c(b) and b[2] > 0 and a[0] == "op" and a[1] == "lshr" and is_c(a[4]) and a[4][2] < bits and (b[2] << a[4][2]) < (1 << bits):
        return mk_bin("udiv", ty, a[3], C(bits, b[2] << a[4][2]))
    if bits and op == "sdiv" and is_c(b) and sval(b) > 0 and a[0] == "op" and a[1] == "sdiv" and is_c(a[4]) and sval(a[4]) > 0 and sval(a[4]) * sval(b) < (1 << (bits - 1)):
        return mk_bin("sdiv", ty, a[3], C(bits, sval(a[4]) * sval(b)))     # truncating division by positive constants composes
    if bits and bits > 1:
        if a[0] == "ite" and _leafconst(a) and (is_c(b) or _leafconst(b)):
            return mk_ite(a[1], mk_bin(op, ty, a[2], b), mk_bin(op, ty, a[3], b))
        if b[0] == "ite" and _leafconst(b) and is_c(a):
            return mk_ite(b[1], mk_bin(op, ty, a, b[2]), mk_bin(op, ty, a, b[3]))
        if op in ("add", "sub") and b[0] == "ite" and is_c(b[2]) and is_c(b[3]):
            return mk_ite(b[1], mk_bin(op, ty, a, b[2]), mk_bin(op, ty, a, b[3]))   # x +/- (c ? k1 : k2)
        if op == "add" and a[0] == "ite" and is_c(a[2]) and is_c(a[3]):
            return mk_ite(a[1], mk_bin(op, ty, a[2], b), mk_bin(op, ty, a[3], b))
    if bits and bits > 1 and op == "ashr" and is_c(b) and b[2] == bits - 1 and not is_c(a):
        return mk_ite(mk_icmp("slt", ty, a, C(bits, 0)), C(bits, -1), C(bits, 0))   # the sign word
    if bits and bits > 1 and op == "lshr" and is_c(b) and b[2] == bits - 1 and not is_c(a):
        return mk_ite(mk_icmp("slt", ty, a, C(bits, 0)), C(bits, 1), C(bits, 0))    # the sign bit
    if bits and op == "sub" and is_c(b) and not is_c(a):
        op, b = "add", C(bits, -b[2])       # x - C == x + (-C)
    if bits and bits > 1 and op in ("add", "sub") and is_c(b) and b[2] == (1 << (bits - 1)):
        op = "xor"      # adding or subtracting the sign bit flips it
    if bits and bits > 1 and op == "add" and is_c(a) and a[2] == (1 << (bits - 1)):
        op = "xor"
    if bits and op == "shl" and is_c(b) and a[0] == "cast" and a[1] == "sext" and _bits(a[2]) and b[2] >= bits - _bits(a[2]):
        # every extension bit is shifted out: the kind of extension is immaterial (canonical: zext)
        a = mk_cast("zext", a[2], a[4], a[3])
    elif bits and op == "shl" and is_c(b) and a[0] == "cast" and a[1] == "sext" and _bits(a[2]) and 0 < b[2] < bits - _bits(a[2]):
        # the top b extension bits are shifted out: sext n->m, << s  ==  zext (m-s)->m of sext n->(m-s), << s
        mid = "i%d" % (bits - b[2])
        a = mk_cast("zext", mid, mk_cast("sext", a[2], a[4], mid), a[3])
    if bits and bits > 1:
        def neg_of(e):
            return e[4] if (e[0] == "op" and e[1] == "sub" and is_c(e[3]) and e[3][2] == 0) else None
        if op == "sub" and is_c(a) and a[2] == 0 and neg_of(b) is not None:
            return neg_of(b)
        if op == "mul":
            for p_, q_ in ((a, b), (b, a)):
                if is_c(p_) and p_[2] == (1 << bits) - 1:
                    return mk_bin("sub", ty, C(bits, 0), q_)                 # x * -1 == 0 - x
                if is_c(p_) and p_[2] > 1 and p_[2] & (p_[2] - 1) == 0:
                    return mk_bin("shl", ty, q_, C(bits, p_[2].bit_length() - 1))   # x * 2^k == x << k
            for p_, q_ in ((a, b), (b, a)):
                if p_[0] == "op" and p_[1] == "shl" and is_c(p_[4]) and p_[4][2] < bits:
                    return mk_bin("shl", ty, mk_bin("mul", ty, p_[3], q_), p_[4])   # (x << c) * y == (x * y) << c  (mod 2^N)
            na, nb = neg_of(a), neg_of(b)
            if na is not None and nb is not None:
                return mk_bin("mul", ty, na, nb)
            if na is not None:
                return mk_bin("sub", ty, C(bits, 0), mk_bin("mul", ty, na, b))
            if nb is not None:
                return mk_bin("sub", ty, C(bits, 0), mk_bin("mul", ty, a, nb))
    if op == "or" and bits == 128:
        for lo, hi in ((a, b), (b, a)):
            # high word given as the sign word in ite form: (X < 0 ? -2^64 : 0) | zext(sext64(X))  ==  sext128(X)
            if lo[0] == "cast" and lo[1] == "zext" and lo[2] == "i64" and hi[0] == "ite" and hi[2] == C(128, -(1 << 64)) and hi[3] == C(128, 0) \
                    and hi[1][0] == "icmp" and hi[1][1] == "slt" and is_c(hi[1][4]) and hi[1][4][2] == 0:
                X, L = hi[1][3], lo[4]
                if L == X and _bits(hi[1][2]) == 64:
                    return mk_cast("sext", "i64", X, "i128")
                if L[0] == "cast" and L[1] == "sext" and L[4] == X:
                    return mk_cast("sext", L[2], X, "i128")
        for lo, hi in ((a, b), (b, a)):
            # two-word left shift reassembled: ((zext64(x) << s) & (2^64 - 2^s)) | (zext64(x >> (64 - s)) << 64)  ==  zext64(x) << s
            if lo[0] == "op" and lo[1] == "and" and hi[0] == "op" and hi[1] == "shl" and hi[4] == C(128, 64) \
                    and hi[3][0] == "cast" and hi[3][1] == "zext" and hi[3][2] == "i64":
                for msk, sh in ((lo[3], lo[4]), (lo[4], lo[3])):
                    if is_c(msk) and sh[0] == "op" and sh[1] == "shl" and is_c(sh[4]) and 0 < sh[4][2] < 64 and msk[2] == (1 << 64) - (1 << sh[4][2]) \
                            and sh[3][0] == "cast" and sh[3][1] == "zext" and sh[3][2] == "i64":
                        x, sft = sh[3][4], sh[4][2]
                        if hi[3][4] == mk_bin("lshr", "i64", x, C(64, 64 - sft)):
                            return sh
            # the same with the high word written as a shift of the zero-extended value: (zext64(x) >> (64 - s)) << 64
            if lo[0] == "op" and lo[1] == "and" and hi[0] == "op" and hi[1] == "shl" and hi[4] == C(128, 64) \
                    and hi[3][0] == "op" and hi[3][1] == "lshr" and is_c(hi[3][4]) and hi[3][3][0] == "cast" and hi[3][3][1] == "zext" and hi[3][3][2] == "i64":
                for msk, sh in ((lo[3], lo[4]), (lo[4], lo[3])):
                    if is_c(msk) and sh[0] == "op" and sh[1] == "shl" and is_c(sh[4]) and 0 < sh[4][2] < 64 and msk[2] == (1 << 64) - (1 << sh[4][2]) \
                            and sh[3] == hi[3][3] and hi[3][4][2] == 64 - sh[4][2]:
                        return sh
        for lo, hi in ((a, b), (b, a)):
            if lo[0] == "cast" and lo[1] == "zext" and lo[2] == "i64" and hi[0] == "op" and hi[1] == "shl" and hi[4] == C(128, 64) \
                    and hi[3][0] == "cast" and hi[3][1] == "zext" and hi[3][2] == "i64":
                L, H = lo[4], hi[3][4]
                # two-word sign extension: the high word is the sign word of the low word
                if H == mk_bin("ashr", "i64", L, C(64, 63)):
                    return mk_cast("sext", "i64", L, "i128")
                if L[0] == "cast" and L[1] == "sext" and H[0] == "cast" and H[1] == "sext" and H[2] == L[2]:
                    k = _bits(L[2])
                    if k and H[4] == mk_bin("ashr", L[2], L[4], C(k, k - 1)):
                        return mk_cast("sext", L[2], L[4], "i128")
    if op == "xor" and bits:
        terms, k = [], 0
        def flat(e):
            nonlocal k
            if is_c(e):
                k ^= e[2]
            elif e[0] == "op" and e[1] == "xor":
                flat(e[3]); flat(e[4])
            else:
                terms.append(e)
        flat(a); flat(b)
        terms.sort(key=_key)
        out = []
        for t in terms:
            if out and out[-1] == t:
                out.pop()
            else:
                out.append(t)
        if not out:
            return C(bits, k)
        acc = out[0]
        for t in out[1:]:
            acc = ("op", "xor", ty, acc, t)
        if k:
            acc = ("op", "xor", ty, acc, C(bits, k))
        return acc
    if op in _COMM and _key(a) > _key(b):
        a, b = b, a
    return ("op", op, ty, a, b)


def _range(e, depth=0):
    """signed value interval of an integer expression from the parameters' assumed ranges (interval arithmetic;
    None when the value may wrap or the operation is not modelled)"""
    if depth > 12 or not isinstance(e, tuple):
        return None
    t = e[0]
    if t == "c":
        return (sval(e), sval(e)) if e[1] > 1 else None
    if t == "arg":
        b = _bits(e[2])
        if not b:
            return None
        return _RANGES.get(e, (-(1 << (b - 1)), (1 << (b - 1)) - 1))
    if t == "cast":
        r = _range(e[4], depth + 1)
        if r is None:
            if e[1] == "zext" and _bits(e[2]) and _bits(e[3]) and _bits(e[2]) < _bits(e[3]):
                return (0, (1 << _bits(e[2])) - 1)
            return None
        if e[1] == "sext":
            return r
        if e[1] == "zext":
            b0 = _bits(e[2])
            return r if r[0] >= 0 else ((0, (1 << b0) - 1) if b0 else None)     # a zero extension is non-negative whatever its operand
        if e[1] == "trunc":
            b = _bits(e[3])
            return r if b and -(1 << (b - 1)) <= r[0] and r[1] < (1 << (b - 1)) else None
        return None
    if t == "op" and _bits(e[2]) and _bits(e[2]) > 1:
        b = _bits(e[2])
        lo_, hi_ = -(1 << (b - 1)), (1 << (b - 1)) - 1
        x, y = _range(e[3], depth + 1), _range(e[4], depth + 1)
        if x is None or y is None:
            return None
        if e[1] == "add":
            r = (x[0] + y[0], x[1] + y[1])
        elif e[1] == "sub":
            r = (x[0] - y[1], x[1] - y[0])
        elif e[1] == "mul":
            c = [x[0] * y[0], x[0] * y[1], x[1] * y[0], x[1] * y[1]]
            r = (min(c), max(c))
        elif e[1] == "shl" and y[0] == y[1] and 0 <= y[0] < b:
            r = (x[0] << y[0], x[1] << y[0])
        elif e[1] == "ashr" and y[0] == y[1] and 0 <= y[0] < b:
            r = (x[0] >> y[0], x[1] >> y[0])
        elif e[1] == "lshr" and y[0] == y[1] and 0 <= y[0] < b and x[0] >= 0:
            r = (x[0] >> y[0], x[1] >> y[0])
        else:
            return None
        return r if lo_ <= r[0] and r[1] <= hi_ else None
    if t == "ite":
        x, y = _range(e[2], depth + 1), _range(e[3], depth + 1)
        return None if x is None or y is None else (min(x[0], y[0]), max(x[1], y[1]))
    return None


def mk_icmp(pred, ty, a, b):
    bits = _bits(ty)
    if bits and bits > 1 and _RANGES and is_c(b) and not is_c(a) and pred in ("slt", "sle", "sgt", "sge", "eq", "ne"):
        r = _range(a)
        if r is not None:
            k = sval(b)
            always = {"slt": r[1] < k, "sle": r[1] <= k, "sgt": r[0] > k, "sge": r[0] >= k, "eq": r[0] == r[1] == k, "ne": k < r[0] or k > r[1]}[pred]
            never = {"slt": r[0] >= k, "sle": r[0] > k, "sgt": r[1] <= k, "sge": r[1] < k, "eq": k < r[0] or k > r[1], "ne": r[0] == r[1] == k}[pred]
            if always:
                return C(1, 1)
            if never:
                return C(1, 0)
    if bits and is_c(a) and is_c(b):
        x, y, sx, sy = a[2], b[2], sval(a), sval(b)
        r = {"eq": x == y, "ne": x != y, "ult": x < y, "ule": x <= y, "ugt": x > y, "uge": x >= y,
             "slt": sx < sy, "sle": sx <= sy, "sgt": sx > sy, "sge": sx >= sy}[pred]
        return C(1, 1 if r else 0)
    if a == b and bits:
        return C(1, 1 if pred in ("eq", "ule", "uge", "sle", "sge") else 0)
    if bits and is_c(b):
        if b[2] == 0 and pred in ("ult", "uge"):
            return C(1, 1 if pred == "uge" else 0)
        if a[0] == "cast" and a[1] == "zext" and _bits(a[2]) and _bits(a[2]) < bits:
            # zext(x) lies in [0, 2^k - 1]
            hi, k = (1 << _bits(a[2])) - 1, sval(b)
            if pred in ("slt", "sle", "sgt", "sge"):
                lo_true = {"slt": hi < k, "sle": hi <= k, "sgt": 0 > k, "sge": 0 >= k}[pred]
                lo_false = {"slt": 0 >= k, "sle": 0 > k, "sgt": hi <= k, "sge": hi < k}[pred]
                if lo_true:
                    return C(1, 1)
                if lo_false:
                    return C(1, 0)
    if a[0] == "ite" and is_c(b):
        return mk_ite(a[1], mk_icmp(pred, ty, a[2], b), mk_icmp(pred, ty, a[3], b))
    if a[0] == "cast" and a[1] in ("zext", "sext") and a[2] == "i1" and is_c(b):
        one = C(bits, 1 if a[1] == "zext" else -1)
        return mk_ite(a[4], mk_icmp(pred, ty, one, b), mk_icmp(pred, ty, C(bits, 0), b))
    # width-insensitive comparison of two extensions (see DESIGN 2.2)
    # by-value view: every operand is (kind, source type, source value) with kind sext = its signed value,
    # zext = its unsigned value, math = a constant; the predicate then compares mathematical values and the
    # width at which LLVM happened to perform the comparison disappears.  Plain-vs-constant comparisons keep
    # the plain form (the equality-atom rules work on it).
    if bits and not ((is_c(a) or is_c(b)) and not (a[0] == "cast" or b[0] == "cast")):
        signedp = pred in ("eq", "ne", "slt", "sle", "sgt", "sge")

        def view(e):
            if e[0] == "cast" and e[1] in ("zext", "sext"):
                x = (e[1], e[2], e[4])
            elif is_c(e):
                return ("math", "", sval(e) if signedp else e[2])
            else:
                x = ("sext" if signedp else "zext", ty, e)
            if x[0] == "sext" and x[2] in _NONNEG:
                x = ("zext", x[1], x[2])
            if x[0] == "sext" and not signedp:
                return None     # the unsigned reading of a sign extension depends on the width
            return x
        va, vb = view(a), view(b)
        if va is not None and vb is not None and not (va[0] == "math" and vb[0] == "math"):
            mp = {"eq": "eq", "ne": "ne", "slt": "lt", "sle": "le", "sgt": "gt", "sge": "ge", "ult": "lt", "ule": "le", "ugt": "gt", "uge": "ge"}[pred]
            if _key(va) > _key(vb):
                va, vb, mp = vb, va, {"eq": "eq", "ne": "ne", "lt": "gt", "le": "ge", "gt": "lt", "ge": "le"}[mp]
            return ("icmpx", mp, va, vb)
    if is_c(a) and not is_c(b):
        a, b, pred = b, a, _SWAP[pred]
    elif not is_c(b) and _key(a) > _key(b):
        a, b, pred = b, a, _SWAP[pred]
    return ("icmp", pred, ty, a, b)


def mk_cast(op, ty, a, ty2):
    b1, b2 = _bits(ty), _bits(ty2)
    if op == "fptosi" and b2 and ty in _MANT and b2 <= _MANT[ty] and isinstance(a, tuple):
        # integers of at most mantissa width are exact in the floating type: converting back is the identity, and the
        # difference of such an integer and a boolean is exact too (wrap of T - 1 at the most negative T is outside every
        # conversion's precondition: the floating original is poison there)
        if a[0] == "cast" and a[1] == "sitofp" and a[2] == ty2 and a[3] == ty:
            return a[4]
        if a[0] == "fop" and a[1] == "fsub" and a[2] == ty and a[3][0] == "cast" and a[3][1] == "sitofp" and a[3][2] == ty2 \
                and a[4][0] == "cast" and a[4][1] == "uitofp" and a[4][2] == "i1":
            return mk_bin("sub", ty2, a[3][4], mk_cast("zext", "i1", a[4][4], ty2))
    if op == "trunc" and a[0] == "pint" and a[3] == ty:
        return ("pint", a[1], mk_cast("trunc", ty, a[2], ty2), ty2)
    if b1 and b2 and is_c(a):
        if op == "zext":
            return C(b2, a[2])
        if op == "sext":
            return C(b2, sval(a))
        if op == "trunc":
            return C(b2, a[2])
    if op == "trunc" and a[0] == "cast" and a[1] in ("zext", "sext") and a[2] == ty2:
        return a[4]
    if op == "trunc" and b1 and b2 and a[0] == "op" and a[1] == "lshr" and is_c(a[4]) and a[3][0] == "op" and a[3][1] == "shl" and a[3][4] == a[4] and b2 <= b1 - a[4][2]:
        return mk_cast("trunc", ty, a[3][3], ty2)     # the low N-c bits of ((z << c) >> c) are those of z
    if op == "trunc" and a[0] == "op" and a[1] in ("add", "sub", "mul", "and", "or", "xor", "shl") and b2:
        if a[1] != "shl" or (is_c(a[4]) and a[4][2] < b2):
            return mk_bin(a[1], ty2, mk_cast("trunc", ty, a[3], ty2), mk_cast("trunc", ty, a[4], ty2))
    if op == "trunc" and a[0] == "cast" and a[1] in ("zext", "sext") and b2 and _bits(a[2]) and _bits(a[2]) < b2:
        return mk_cast(a[1], a[2], a[4], ty2)
    if op == "trunc" and a[0] == "cast" and a[1] in ("zext", "sext", "trunc") and b2 and _bits(a[2]) and _bits(a[2]) > b2:
        return mk_cast("trunc", a[2], a[4], ty2)
    if op == "sext" and b1 and b2 and b2 <= 128 and a[0] == "op" and a[1] == "shl" and is_c(a[4]) and a[4][2] < b1 \
            and a[3][0] == "cast" and a[3][1] == "zext" and _bits(a[3][2]) and a[4][2] >= b1 - _bits(a[3][2]):
        # (zext n->m x) << s with every extension bit shifted out is (sext n->m x) << s; when the signed value of x, shifted,
        # stays inside the m-bit type, sign-extending the result is shifting the sign-extended x
        x_ = a[3][4]
        rr = _range(x_)
        if rr is not None and -(1 << (b1 - 1)) <= (rr[0] << a[4][2]) and (rr[1] << a[4][2]) < (1 << (b1 - 1)):
            return mk_bin("shl", ty2, mk_cast("sext", a[3][2], x_, ty2), C(b2, a[4][2]))
    if op == "sext" and b1 and b2 and b2 <= 128 and a[0] == "op" and a[1] == "shl" and is_c(a[4]) and a[4][2] < b1:
        # a narrow left shift that cannot overflow (the operand's assumed range, shifted, stays inside the narrow type)
        # is the wide left shift of the extended operand
        rr = _range(a[3])
        if rr is not None and -(1 << (b1 - 1)) <= (rr[0] << a[4][2]) and (rr[1] << a[4][2]) < (1 << (b1 - 1)):
            return mk_bin("shl", ty2, mk_cast("sext", ty, a[3], ty2), C(b2, a[4][2]))
    if op == "sext" and b1 and b2 and b2 <= 128 and a[0] == "op" and a[1] in ("add", "sub", "mul") and _range(a) is not None and _range(a[3]) is not None and _range(a[4]) is not None:
        # the narrow operation cannot wrap on the assumed operand ranges: extending its result is operating on the extended operands
        return mk_bin(a[1], ty2, mk_cast("sext", ty, a[3], ty2), mk_cast("sext", ty, a[4], ty2))
    if op == "sext" and b1 and b2 and b2 <= 128 and a[0] == "op" and a[1] == "sdiv" and is_c(a[4]) and sval(a[4]) not in (0, -1):
        return mk_bin("sdiv", ty2, mk_cast("sext", ty, a[3], ty2), C(b2, sval(a[4])))      # a quotient never leaves the dividend's range
    if op == "zext" and b1 and b2 and b2 <= 128 and a[0] == "op" and a[1] in ("udiv", "lshr") and is_c(a[4]) and a[4][2] != 0:
        return mk_bin(a[1], ty2, mk_cast("zext", ty, a[3], ty2), C(b2, a[4][2]))
    if op == "sext" and b1 and b2 and b2 <= 128 and a[0] == "op" and a[1] == "lshr" and is_c(a[4]) and 0 < a[4][2] < b1:
        rr = _range(a[3])
        if rr is not None and rr[0] >= 0:       # a non-negative value shifted right: both extensions agree and commute with the shift
            return mk_bin("lshr", ty2, mk_cast("sext", ty, a[3], ty2), C(b2, a[4][2]))
    if op == "zext" and b1 and b2 and b2 <= 128 and a[0] == "op" and a[1] in ("add", "mul"):
        r3, r4 = _range(a[3]), _range(a[4])
        if r3 is not None and r4 is not None and r3[0] >= 0 and r4[0] >= 0:
            top = r3[1] * r4[1] if a[1] == "mul" else r3[1] + r4[1]
            if top < (1 << b1):
                # non-negative operands whose sum / product stays below 2^width: no unsigned wrap, so zero-extending the
                # result is operating on the zero-extended operands
                return mk_bin(a[1], ty2, mk_cast("zext", ty, a[3], ty2), mk_cast("zext", ty, a[4], ty2))
    if op == "sext" and a in _NONNEG:
        op = "zext"
    if op in ("zext", "sext") and ty == "i1" and b2:
        return mk_ite(a, C(b2, 1 if op == "zext" else -1), C(b2, 0))
    if op in ("zext", "sext", "trunc") and a[0] == "ite" and _leafconst(a) and b1 and b2:
        return mk_ite(a[1], mk_cast(op, ty, a[2], ty2), mk_cast(op, ty, a[3], ty2))
    return ("cast", op, ty, ty2, a)


def _leafconst(e, depth=0):
    """an ite tree whose leaves are all constants"""
    if is_c(e):
        return True
    if e[0] == "ite" and depth < 6:
        return _leafconst(e[2], depth + 1) and _leafconst(e[3], depth + 1)
    return False


def _is_bool(e):
    if is_c(e):
        return e[1] == 1
    if e[0] in ("icmp", "icmpx"):
        return True
    if e[0] == "op":
        return e[2] == "i1"
    if e[0] == "extract":
        return e[2] == "1" and e[1][0] == "call" and ".with.overflow." in e[1][2]
    if e[0] == "ite":
        return _is_bool(e[2]) and _is_bool(e[3])
    return False


def mk_not(c):
    return mk_bin("xor", "i1", c, C(1, 1))


def mk_ite(c, x, y):
    if is_c(c):
        return x if c[2] else y
    if c[0] in ("icmp", "icmpx") and c[1] == "ne":
        c, x, y = (c[0], "eq") + tuple(c[2:]), y, x        # canonical polarity
    if x == y:
        return x
    if x == UNDEF:
        return y
    if y == UNDEF:
        return x
    # boolean-valued ite with constant arms
    if is_c(x) and is_c(y) and x[1] == 1:
        return c if x[2] == 1 else mk_not(c)
    if _is_bool(x) and _is_bool(y):
        if x == mk_not(y):      # ite(c, !y, y) == c xor y
            return mk_bin("xor", "i1", c, y)
        if is_c(x):             # ite(c, true, y) = c or y ; ite(c, false, y) = !c and y
            return mk_bin("or", "i1", c, y) if x[2] else mk_bin("and", "i1", mk_not(c), y)
        if is_c(y):
            return mk_bin("and", "i1", c, x) if not y[2] else mk_bin("or", "i1", mk_not(c), x)
    # xor c, true => swap arms
    if c[0] == "op" and c[1] == "xor" and c[2] == "i1" and (c[4] == C(1, 1) or c[3] == C(1, 1)):
        inner = c[3] if c[4] == C(1, 1) else c[4]
        return mk_ite(inner, y, x)
    # decompose logical or / and
    if c[0] == "op" and c[2] == "i1" and c[1] in ("or", "and"):
        c1, c2 = c[3], c[4]
        if c[1] == "or":
            r = mk_ite0(c1, x, mk_ite(c2, x, y))
        else:
            r = mk_ite0(c1, mk_ite(c2, x, y), y)
        if r[0] != "ite" or _size(r) < _size(("ite", c, x, y)):
            return r
        return ("ite", c, x, y)
    if c[0] == "ite" and c[2][0] == "c" and c[3][0] == "c":
        pass
    if c[0] == "ite" and c[3] == C(1, 0):
        # logical and of (x < trunc x) and (x < 0), in either order: the first implies the second
        for p_, q_ in ((c[1], c[2]), (c[2], c[1])):
            xx = _lt_trunc(p_)
            if xx is not None and _lt_zero(q_) == xx:
                return mk_ite(p_, x, y)
    if c[0] == "ite":  # select c1, true, c2 (logical or) / select c1, c2, false (logical and)
        c1, t, f = c[1], c[2], c[3]
        if t == C(1, 1):
            r = mk_ite0(c1, x, mk_ite(f, x, y))
            if r[0] != "ite":
                return r
        if f == C(1, 0):
            r = mk_ite0(c1, mk_ite(t, x, y), y)
            if r[0] != "ite":
                return r
    return mk_ite0(c, x, y)


def _size(e, memo=None):
    if not isinstance(e, tuple):
        return 1
    return 1 + sum(_size(k) for k in e if isinstance(k, tuple))


def _args_in(e, out, depth=0):
    if not isinstance(e, tuple) or depth > 40:
        return
    if e[0] == "arg":
        out.add(e)
        return
    for k in e[1:]:
        if isinstance(k, tuple):
            _args_in(k, out, depth + 1)


def _domain_decides(c):
    """a condition over a single parameter whose admissible values are known from the kernel's own assumptions:
    decided when the parameter's whole domain lies inside (or outside) the condition's truth set"""
    if not _DOMAINS:
        return None
    vs = set()
    _args_in(c, vs)
    if len(vs) != 1:
        return None
    v = next(iter(vs))
    if v not in _DOMAINS:
        return None
    from . import iset as _iset
    try:
        T = _iset.truth(c, v)
    except Exception:
        return None
    if T is None:
        return None
    D = _DOMAINS[v]
    if not (D - T):
        return True
    if not (D & T):
        return False
    return None


def mk_ite0(c, x, y, _ctx=True):
    if x == y:
        return x
    if isinstance(x, tuple) and x[0] == "ite" and x[3] == y:
        # nested form of the same conjunction:  if (x < 0) { if (x < trunc x) X } else Y  ==  if (x < trunc x) X else Y
        for p_, q_ in ((c, x[1]), (x[1], c)):
            xx = _lt_trunc(p_)
            if xx is not None and _lt_zero(q_) == xx:
                return mk_ite0(p_, x[2], y, _ctx)
    if _ctx and c[0] in ("icmp", "icmpx", "op") and _DOMAINS:
        d_ = _domain_decides(c)
        if d_ is not None:
            return x if d_ else y
    if x == UNDEF:
        return y
    if y == UNDEF:
        return x
    if is_c(c):
        return x if c[2] else y
    # the condition is known inside the arms
    if _ctx and c[0] in ("icmp", "icmpx", "extract", "fop", "op"):
        x2, y2 = subst(x, c, C(1, 1)), subst(y, c, C(1, 0))
        if x2 != x or y2 != y:
            return mk_ite0(c, x2, y2, False)
    # range knowledge: inside the arms of `arg pred const` the parameter's interval is narrower, and the range-driven
    # rewrites (extensions of non-negative values, shifts by bounded counts, ...) may apply there
    if _ctx and c[0] == "icmp" and c[3][0] == "arg" and is_c(c[4]) and c[1] in ("sgt", "slt", "sge", "sle") and _bits(c[2]) and _bits(c[2]) <= 64 \
            and _size(x) + _size(y) < 600:
        X = c[3]
        b_ = _bits(c[2])
        cur = _RANGES.get(X, (-(1 << (b_ - 1)), (1 << (b_ - 1)) - 1))
        tr, fr = _signed_interval(c, True), _signed_interval(c, False)
        if tr is not None and fr is not None:
            tr, fr = (max(tr[0], cur[0]), min(tr[1], cur[1])), (max(fr[0], cur[0]), min(fr[1], cur[1]))
            had, old = X in _RANGES, _RANGES.get(X)
            try:
                x2, y2 = x, y
                if tr[0] <= tr[1] and tr != cur:
                    _RANGES[X] = tr
                    x2 = rebuild(x, lambda e: None)
                if fr[0] <= fr[1] and fr != cur:
                    _RANGES[X] = fr
                    y2 = rebuild(y, lambda e: None)
            finally:
                if had:
                    _RANGES[X] = old
                else:
                    _RANGES.pop(X, None)
            if x2 != x or y2 != y:
                return mk_ite0(c, x2, y2, False)
    # sign knowledge: where X >= 0 is known, zext(X) and sext(X) are the same value (canonical: sext)
    if c[0] == "icmp" and is_c(c[4]) and c[1] in ("sgt", "slt", "sge", "sle"):
        k = sval(c[4])
        nonneg_true = (c[1] == "sgt" and k >= -1) or (c[1] == "sge" and k >= 0)
        nonneg_false = (c[1] == "slt" and k >= 0) or (c[1] == "sle" and k >= -1)
        if nonneg_true or nonneg_false:
            X = c[3]
            def z2s(e):
                if e[0] == "cast" and e[1] == "zext" and e[4] == X:
                    return mk_cast("sext", e[2], X, e[3])
                return None
            if nonneg_true:
                x2 = rebuild(x, z2s)
                if x2 != x:
                    return mk_ite0(c, x2, y)
            else:
                y2 = rebuild(y, z2s)
                if y2 != y:
                    return mk_ite0(c, x, y2)
    # value equivalence: under `X == K` the arms may be compared with X := K
    if c[0] == "icmp" and c[1] in ("eq", "ne") and is_c(c[4]):
        X, K = c[3], c[4]
        eqarm, nearm = (x, y) if c[1] == "eq" else (y, x)
        if subst(eqarm, X, K) == subst(nearm, X, K):
            return nearm
    if c[0] == "icmpx" and c[1] in ("eq", "ne"):
        pass
    return ("ite", c, x, y)


def mk_call(ty, name, args):
    n = name
    if n.startswith(irmod.COMM_INTRINSICS) and len(args) >= 2:
        a0, a1 = args[0], args[1]
        if _key(a0[1]) > _key(a1[1]):
            args = [a1, a0] + list(args[2:])
    bits = _bits(ty)
    if bits and n.startswith("llvm.abs.") and len(args) == 2:
        # |x| written out (the poison flag for the most negative value is dropped: UB-freedom is C07's subject)
        x = args[0][1]
        if is_c(x):
            return C(bits, abs(sval(x)))
        return mk_ite(mk_icmp("slt", ty, x, C(bits, 0)), mk_bin("sub", ty, C(bits, 0), x), x)
    # saturating / min-max intrinsics with one constant operand: written out as the comparison they abbreviate
    if bits and len(args) == 2 and (is_c(args[0][1]) != is_c(args[1][1])):
        m_ = re.match(r"llvm\.(sadd|uadd|ssub|usub)\.sat\.|llvm\.(smax|smin|umax|umin)\.", n)
        if m_:
            kind = m_.group(1) or m_.group(2)
            x, k = (args[0][1], args[1][1]) if is_c(args[1][1]) else (args[1][1], args[0][1])
            k_first = is_c(args[0][1])
            M, h = 1 << bits, 1 << (bits - 1)
            smax_, smin_, umax_ = C(bits, h - 1), C(bits, h), C(bits, M - 1)
            ks = sval(k)
            if kind == "sadd":
                if ks >= 0:
                    return mk_ite(mk_icmp("sgt", ty, x, C(bits, (h - 1) - ks)), smax_, mk_bin("add", ty, x, k))
                return mk_ite(mk_icmp("slt", ty, x, C(bits, -h - ks)), smin_, mk_bin("add", ty, x, k))
            if kind == "uadd":
                return mk_ite(mk_icmp("ugt", ty, x, C(bits, (M - 1) - k[2])), umax_, mk_bin("add", ty, x, k))
            if kind == "ssub" and not k_first:      # x - k
                if ks >= 0:
                    return mk_ite(mk_icmp("slt", ty, x, C(bits, -h + ks)), smin_, mk_bin("sub", ty, x, k))
                return mk_ite(mk_icmp("sgt", ty, x, C(bits, (h - 1) + ks)), smax_, mk_bin("sub", ty, x, k))
            if kind == "ssub" and k_first:          # k - x
                if ks >= 0:
                    return mk_ite(mk_icmp("slt", ty, x, C(bits, ks - (h - 1))), smax_, mk_bin("sub", ty, k, x))
                return mk_ite(mk_icmp("sgt", ty, x, C(bits, ks + h)), smin_, mk_bin("sub", ty, k, x))
            if kind == "usub" and not k_first:
                return mk_ite(mk_icmp("ult", ty, x, k), C(bits, 0), mk_bin("sub", ty, x, k))
            if kind == "usub" and k_first:          # k - x
                return mk_ite(mk_icmp("ugt", ty, x, k), C(bits, 0), mk_bin("sub", ty, k, x))
            if kind in ("smax", "smin", "umax", "umin"):
                pred = {"smax": "sgt", "smin": "slt", "umax": "ugt", "umin": "ult"}[kind]
                return mk_ite(mk_icmp(pred, ty, x, k), x, k)
    if bits and all(is_c(a[1]) for a in args):
        vs = [a[1] for a in args]
        if n.startswith("llvm.smax."):
            return C(bits, max(sval(vs[0]), sval(vs[1])))
        if n.startswith("llvm.smin."):
            return C(bits, min(sval(vs[0]), sval(vs[1])))
        if n.startswith("llvm.umax."):
            return C(bits, max(vs[0][2], vs[1][2]))
        if n.startswith("llvm.umin."):
            return C(bits, min(vs[0][2], vs[1][2]))
        if n.startswith("llvm.abs."):
            return C(bits, abs(sval(vs[0])))
    return ("call", ty, name, tuple(args))


def mk_extract(agg, idx):
    if agg[0] == "call" and idx == "0":
        m = re.match(r"llvm\.([su])(add|sub|mul)\.with\.overflow\.(i\d+)", agg[2])
        if m:
            return mk_bin(m.group(2), m.group(3), agg[3][0][1], agg[3][1][1])
    if agg[0] == "call" and idx == "1":
        m = re.match(r"llvm\.([su])(add|sub|mul)\.with\.overflow\.i(\d+)", agg[2])
        if m:
            sg, op, bits = m.group(1), m.group(2), int(m.group(3))
            a, b = agg[3][0][1], agg[3][1][1]
            if is_c(a) and is_c(b):
                va, vb = (sval(a), sval(b)) if sg == "s" else (a[2], b[2])
                r = {"add": va + vb, "sub": va - vb, "mul": va * vb}[op]
                lo, hi = (-(1 << (bits - 1)), (1 << (bits - 1)) - 1) if sg == "s" else (0, (1 << bits) - 1)
                return C(1, 0 if lo <= r <= hi else 1)
            for p, q in ((a, b), (b, a)):
                if is_c(p):
                    if op == "mul" and p[2] in (0, 1):
                        return C(1, 0)
                    if op == "add" and p[2] == 0:
                        return C(1, 0)
                    if op == "sub" and p is b and p[2] == 0:
                        return C(1, 0)
    return ("extract", agg, idx)


def rebuild(e, f):
    r = f(e)
    if r is not None:
        return r
    if not isinstance(e, tuple) or e[0] in ("c", "arg", "k", "undef"):
        return e
    t = e[0]
    if t == "op":
        return mk_bin(e[1], e[2], rebuild(e[3], f), rebuild(e[4], f))
    if t == "icmp":
        return mk_icmp(e[1], e[2], rebuild(e[3], f), rebuild(e[4], f))
    if t == "cast":
        return mk_cast(e[1], e[2], rebuild(e[4], f), e[3])
    if t == "ite":
        return mk_ite(rebuild(e[1], f), rebuild(e[2], f), rebuild(e[3], f))
    if t == "call":
        return mk_call(e[1], e[2], [(ty, rebuild(a, f)) for ty, a in e[3]])
    if t == "extract":
        return mk_extract(rebuild(e[1], f), e[2])
    return e


_subst_memo = {}


def _signed_interval(atom, truth):
    """the signed interval of v on which the atom (v pred const) has the given truth value; None if not of that shape or
    not an interval (ne true / eq false)"""
    if not (isinstance(atom, tuple) and atom[0] == "icmp" and is_c(atom[4]) and not is_c(atom[3])):
        return None
    b = _bits(atom[2])
    if not b or b < 2:
        return None
    lo, hi, k = -(1 << (b - 1)), (1 << (b - 1)) - 1, sval(atom[4])
    p = atom[1]
    if not truth:
        p = {"slt": "sge", "sge": "slt", "sgt": "sle", "sle": "sgt", "eq": "ne", "ne": "eq"}.get(p)
    if p == "slt":
        return (lo, k - 1)
    if p == "sle":
        return (lo, k)
    if p == "sgt":
        return (k + 1, hi)
    if p == "sge":
        return (k, hi)
    if p == "eq":
        return (k, k)
    return None


def _implied_atom(e, X, K):
    """e and X are comparisons of the same value with constants and X is known to be K: e is decided, or narrows to an
    equality, when the two signed intervals are nested, disjoint or meet in one point"""
    if not (is_c(K) and K[1] == 1 and isinstance(X, tuple) and X[0] == "icmp" and e[0] == "icmp" and e[3] == X[3] and e[2] == X[2] and e is not X):
        return None
    known = _signed_interval(X, bool(K[2]))
    if known is None or known[0] > known[1]:
        return None
    te, fe = _signed_interval(e, True), _signed_interval(e, False)
    if te is not None:
        lo, hi = max(known[0], te[0]), min(known[1], te[1])
        if lo > hi:
            return C(1, 0)
        if lo == known[0] and hi == known[1]:
            return C(1, 1)
        if lo == hi and e[1] != "eq":
            return mk_icmp("eq", e[2], e[3], C(_bits(e[2]), lo))
    if fe is not None:
        lo, hi = max(known[0], fe[0]), min(known[1], fe[1])
        if lo > hi:
            return C(1, 1)
        if lo == known[0] and hi == known[1]:
            return C(1, 0)
        if lo == hi and e[1] != "ne":
            return mk_icmp("ne", e[2], e[3], C(_bits(e[2]), lo))
    return None


def subst(e, X, K):
    if e == X:
        return K
    if not isinstance(e, tuple) or e[0] in ("c", "arg", "k", "undef"):
        return e
    key = (id(e), id(X), id(K))
    t = e[0]
    if t == "op":
        return mk_bin(e[1], e[2], subst(e[3], X, K), subst(e[4], X, K))
    if t == "icmp":
        imp = _implied_atom(e, X, K)
        if imp is not None:
            return imp
        return mk_icmp(e[1], e[2], subst(e[3], X, K), subst(e[4], X, K))
    if t == "icmpx":
        (k1, t1, a1), (k2, t2, a2) = e[2], e[3]
        sa = a1 if k1 == "math" else subst(a1, X, K)
        sb = a2 if k2 == "math" else subst(a2, X, K)
        if sa is a1 and sb is a2:
            return e
        wb = 2 * max([_bits(t) for t in (t1, t2) if t] + [8])
        for v in (sa, sb):
            if isinstance(v, int):
                wb = max(wb, v.bit_length() + 2)
        wide = "i%d" % wb
        oa = C(wb, sa) if k1 == "math" else mk_cast(k1, t1, sa, wide)
        ob = C(wb, sb) if k2 == "math" else mk_cast(k2, t2, sb, wide)
        return mk_icmp({"eq": "eq", "ne": "ne", "lt": "slt", "le": "sle", "gt": "sgt", "ge": "sge"}[e[1]], wide, oa, ob)
    if t == "cast":
        return mk_cast(e[1], e[2], subst(e[4], X, K), e[3])
    if t == "ite":
        return mk_ite(subst(e[1], X, K), subst(e[2], X, K), subst(e[3], X, K))
    if t == "call":
        return mk_call(e[1], e[2], [(ty, subst(a, X, K)) for ty, a in e[3]])
    if t == "extract":
        return mk_extract(subst(e[1], X, K), e[2])
    if t == "raw":
        return ("raw", e[1], tuple(subst(a, X, K) for a in e[2]))
    if t == "effect":
        return ("effect", e[1], tuple(subst(a, X, K) for a in e[2]))
    if t == "fop":
        return ("fop",) + tuple(subst(a, X, K) if isinstance(a, tuple) else a for a in e[1:])
    return e


_INT_BIN = {"add", "sub", "mul", "udiv", "sdiv", "urem", "srem", "shl", "lshr", "ashr", "and", "or", "xor"}
_FP_BIN = {"fadd", "fsub", "fmul", "fdiv", "frem"}
_CASTS = {"zext", "sext", "trunc", "bitcast", "sitofp", "uitofp", "fptosi", "fptoui", "fpext", "fptrunc", "ptrtoint", "inttoptr", "addrspacecast"}


def gated(mod, fn, max_paths=4000, control_only=False):
    """control_only: stores, memset/memcpy and allocas are skipped (memory is not modelled: a remaining load is
    Unsupported) and a never-returning call becomes an argument-less effect leaf; what is left is which exit each
    path takes, as a function of the scalar arguments."""
    blocks = {}
    for lab in fn.order:
        ins, pend = [], None
        for l in fn.blocks[lab]:
            if pend is not None:
                pend += " " + l
                if "]" in l:
                    ins.append(pend)
                    pend = None
                continue
            if l.startswith("switch ") and "]" not in l:
                pend = l
                continue
            ins.append(l)
        blocks[lab] = ins
    # loop-free functions only: a back edge makes the re-expression unbounded
    succ = {}
    for lab, ins in blocks.items():
        t = ins[-1] if ins else ""
        body = t.split("=", 1)[1].strip() if re.match(r"^%\S+\s*=", t) else t
        succ[lab] = [x[1:] for x in irmod._successors(body)]
    color = {}
    def dfs(b):
        color[b] = 1
        for x in succ.get(b, []):
            if color.get(x) == 1:
                raise Unsupported("loop in CFG")
            if x not in color and x in blocks:
                dfs(x)
        color[b] = 2
    dfs(fn.order[0])
    args = {}
    for k, (ty, pn) in enumerate(fn.params):
        args[pn] = ("arg", k, ty)
    budget = [max_paths]

    def strip(body):
        body = irmod._DROP_RE.sub("", body)
        body = irmod._PARAM_ATTR_CALL_RE.sub("", body)
        body = re.sub(r",\s*align \d+", "", body)
        return re.sub(r"\s+", " ", body).strip()

    def operand(tok, ty, env):
        tok = tok.strip()
        if tok.startswith("%"):
            if tok in env:
                return env[tok]
            raise Unsupported("use of undefined value " + tok)
        b = _bits(ty)
        if b:
            if tok == "true":
                return C(1, 1)
            if tok == "false":
                return C(1, 0)
            if re.fullmatch(r"-?\d+", tok):
                return C(b, int(tok))
            if tok in ("undef", "poison"):
                return UNDEF
        return ("k", ty, tok)

    def eval_instr(body, env):
        body = strip(body)
        if "@" in body:
            body = irmod._GLOB_RE.sub(lambda m: irmod._global_content(mod, m.group(0)), body)
        op = body.split(" ", 1)[0]
        if op == "getelementptr":
            # byte pointer arithmetic: a pointer is (base, byte offset); offsets add up
            m = re.match(r"^getelementptr (?:inbounds )?i8, i8\* (\S+), (i\d+) (\S+)$", body)
            if m:
                base = operand(m.group(1), "i8*", env)
                off = operand(m.group(3), m.group(2), env)
                if m.group(2) != "i64":
                    off = mk_cast("sext", m.group(2), off, "i64")
                if base[0] == "padd":
                    return ("padd", base[1], mk_bin("add", "i64", base[2], off))
                return ("padd", base, off)
        if op == "icmp":
            m = re.match(r"^icmp (\w+) i8\* ([^,]+), (.+)$", body)
            if m:
                a, b = operand(m.group(2), "i8*", env), operand(m.group(3), "i8*", env)
                pa = a if a[0] == "padd" else ("padd", a, C(64, 0))
                pb = b if b[0] == "padd" else ("padd", b, C(64, 0))
                if pa[1] == pb[1]:
                    # same base object (inbounds arithmetic never wraps): the order of the pointers is the order of the offsets
                    pred = {"ugt": "sgt", "uge": "sge", "ult": "slt", "ule": "sle"}.get(m.group(1), m.group(1))
                    return mk_icmp(pred, "i64", pa[2], pb[2])
        if op == "ptrtoint":
            m = re.match(r"^ptrtoint i8\* (\S+) to (i\d+)$", body)
            if m:
                a = operand(m.group(1), "i8*", env)
                pa = a if a[0] == "padd" else ("padd", a, C(64, 0))
                return ("pint", pa[1], pa[2] if m.group(2) == "i64" else mk_cast("trunc", "i64", pa[2], m.group(2)), m.group(2))
        if op in _INT_BIN:
            m = re.match(r"^(\w+) (\S+) ([^,]+), (.+)$", body)
            if m and _bits(m.group(2)):
                return mk_bin(op, m.group(2), operand(m.group(3), m.group(2), env), operand(m.group(4), m.group(2), env))
        if op in _FP_BIN:
            m = re.match(r"^(\w+) (\S+) ([^,]+), (.+)$", body)
            if m:
                a, b = operand(m.group(3), m.group(2), env), operand(m.group(4), m.group(2), env)
                if op in ("fadd", "fmul") and _key(a) > _key(b):
                    a, b = b, a
                return ("fop", op, m.group(2), a, b)
        if op == "fneg":
            m = re.match(r"^fneg (\S+) (.+)$", body)
            return ("fop", "fneg", m.group(1), operand(m.group(2), m.group(1), env))
        if op == "icmp":
            m = re.match(r"^icmp (\w+) (\S+) ([^,]+), (.+)$", body)
            if m and _bits(m.group(2)):
                return mk_icmp(m.group(1), m.group(2), operand(m.group(3), m.group(2), env), operand(m.group(4), m.group(2), env))
        if op == "fcmp":
            m = re.match(r"^fcmp (\w+) (\S+) ([^,]+), (.+)$", body)
            a, b = operand(m.group(3), m.group(2), env), operand(m.group(4), m.group(2), env)
            pred = m.group(1)
            if _key(a) > _key(b):
                a, b, pred = b, a, _SWAP.get(pred, pred)
            return ("fop", "fcmp", pred, m.group(2), a, b)
        if op == "select":
            m = re.match(r"^select i1 ([^,]+), (\S+) ([^,]+), (\S+) (.+)$", body)
            if m:
                return mk_ite(operand(m.group(1), "i1", env), operand(m.group(3), m.group(2), env), operand(m.group(5), m.group(4), env))
        if op in _CASTS:
            m = re.match(r"^(\w+) (\S+) (\S+) to (\S+)$", body)
            if m:
                return mk_cast(op, m.group(2), operand(m.group(3), m.group(2), env), m.group(4))
        if op == "freeze":
            m = re.match(r"^freeze (\S+) (.+)$", body)
            return operand(m.group(2), m.group(1), env)
        if op == "extractvalue":
            m = re.match(r"^extractvalue (\{.*?\}|\S+) (\S+), (\d+)$", body)
            if m:
                return mk_extract(operand(m.group(2), m.group(1), env), m.group(3))
        if op == "call":
            m = re.match(r"^call (.+?) @([-\w.$]+)\((.*)\)$", body)
            if m and ((m.group(2).startswith("llvm.") and not m.group(2).startswith(irmod.IMPURE_INTRINSICS)) or m.group(2).startswith(irmod.OPAQUE_PREFIX)):
                a = []
                for part in irmod._split_top(m.group(3)):
                    ty, tok = part.rsplit(" ", 1) if " " in part else (part, "")
                    a.append((ty, operand(tok, ty, env)))
                return mk_call(m.group(1), m.group(2), a)
        if op == "insertvalue":
            # aggregate construction with every element an operand (a literal and a folded constant must look alike)
            m = re.match(r"^insertvalue (\{.*?\}|\S+) ([^,]+), (\S+) ([^,]+), (\d+)$", body)
            if m:
                base = UNDEF if m.group(2).strip() in ("poison", "undef") else operand(m.group(2), m.group(1), env)
                return ("raw", "insertvalue %s %%0, %s %%1, %s" % (m.group(1), m.group(3), m.group(5)), (base, operand(m.group(4), m.group(3), env)))
        # generic pure instruction: template + operands
        ops = []
        def rep(mm):
            ops.append(env[mm.group(0)] if mm.group(0) in env else ("k", "?", mm.group(0)))
            return "%%%d" % (len(ops) - 1)
        templ = irmod._VAL_RE.sub(rep, body)
        return ("raw", templ, tuple(ops))

    def run(lab, pred, env, depth):
        budget[0] -= 1
        if budget[0] < 0:
            raise Unsupported("too many paths")
        if depth > 300:
            raise Unsupported("cycle or too deep")
        env = dict(env)
        ins = blocks[lab]
        # phis evaluate simultaneously
        newvals = {}
        idx = 0
        while idx < len(ins):
            l = ins[idx]
            mm = re.match(r"^(%(?:\"[^\"]*\"|[-\w.$]+))\s*=\s*phi (\S+) (.*)$", l)
            if not mm:
                break
            inc = re.findall(r"\[\s*([^,\]]+),\s*%(\"[^\"]*\"|[-\w.$]+)\s*\]", mm.group(3))
            found = False
            for v, b in inc:
                if b == pred:
                    newvals[mm.group(1)] = operand(v.strip(), irmod._DROP_RE.sub("", mm.group(2)), env)
                    found = True
                    break
            if not found:
                raise Unsupported("phi without incoming for %s" % pred)
            idx += 1
        env.update(newvals)
        for l in ins[idx:]:
            mm = re.match(r"^(%(?:\"[^\"]*\"|[-\w.$]+))\s*=\s*(.*)$", l)
            res, body = (mm.group(1), mm.group(2)) if mm else (None, l)
            sb = strip(body)
            if irmod._is_term(l):
                if sb.startswith("ret "):
                    m = re.match(r"^ret (\{.*?\}|\S+?) (.+)$", sb)
                    if sb == "ret void":
                        return ("k", "void", "void")
                    return operand(m.group(2), m.group(1), env)
                if sb.startswith("unreachable"):
                    return UNDEF
                if sb.startswith("br label"):
                    t = re.match(r"^br label %(.+)$", sb).group(1)
                    return run(t, lab, env, depth + 1)
                if sb.startswith("br i1"):
                    m = re.match(r"^br i1 ([^,]+), label %(\S+), label %(\S+)$", sb)
                    c = operand(m.group(1), "i1", env)
                    if is_c(c):
                        return run(m.group(2) if c[2] else m.group(3), lab, env, depth + 1)
                    return mk_ite(c, run(m.group(2), lab, env, depth + 1), run(m.group(3), lab, env, depth + 1))
                if sb.startswith("switch "):
                    m = re.match(r"^switch (\S+) ([^,]+), label %(\S+) \[(.*)\]$", sb)
                    ty, v = m.group(1), operand(m.group(2), m.group(1), env)
                    cases = re.findall(r"\S+ (-?\d+|true|false), label %(\"[^\"]*\"|[-\w.$]+)", m.group(4))
                    cases = sorted(cases, key=lambda c: int(c[0]) if c[0] not in ("true", "false") else (1 if c[0] == "true" else 0))
                    res_e = run(m.group(3), lab, env, depth + 1)
                    for cv, tl in reversed(cases):
                        k = C(_bits(ty), int(cv) if cv not in ("true", "false") else (1 if cv == "true" else 0))
                        res_e = mk_ite(mk_icmp("eq", ty, v, k), run(tl, lab, env, depth + 1), res_e)
                    return res_e
                raise Unsupported("terminator: " + sb[:60])
            if irmod._impure(body):
                if "@llvm.assume" in sb:
                    m = re.match(r"^call void @llvm\.assume\(i1 (\S+)\)$", sb)
                    if m and m.group(1) in env and lab == fn.order[0]:
                        _harvest(env[m.group(1)])
                    continue
                if "@llvm.dbg." in sb or "@llvm.lifetime" in sb or "llvm.experimental.noalias" in sb:
                    continue
                if control_only and sb.startswith("alloca"):
                    env[res] = ("k", "ptr", "alloca " + res)
                    continue
                if control_only and (sb.startswith("store ") or re.match(r"^call void @llvm\.mem(set|cpy|move)\.", sb)):
                    continue
                if "@__cxa_allocate_exception" in sb:
                    # the C++ throw sequence: allocate, construct (invoke), __cxa_throw(obj, typeinfo, dtor); unreachable
                    rest = ins[ins.index(l):]
                    text = " ".join(rest)
                    mi = re.search(r"to label %(\S+) unwind", text)
                    if mi and mi.group(1) in blocks:
                        text += " " + " ".join(blocks[mi.group(1)])
                    mt = re.search(r"@__cxa_throw\(.*?(@_ZTI\w+)", text)
                    if mt:
                        strs = [irmod._global_content(mod, gname) for gname in re.findall(r"@\.str[.\w]*", text)]
                        msgs = re.findall(r'c"([^"]*?)\\00"', " ".join(strs))
                        return ("effect", "throw", (("k", "typeinfo", mt.group(1)), ("k", "msg", msgs[0] if msgs else "")))
                    raise Unsupported("exception allocation without a recognisable __cxa_throw")
                if sb.startswith("call") and "@llvm.ubsantrap" in sb:
                    mk_ = re.search(r"@llvm\.ubsantrap\(i8 (\d+)\)", sb)
                    return ("effect", "ubsantrap", (("k", "kind", mk_.group(1) if mk_ else "?"),))
                if sb.startswith("call") and "@llvm.trap" in sb:
                    return ("effect", "trap", ())
                # a call that never returns (next instruction is `unreachable`): an effect leaf
                nxt = ins[ins.index(l) + 1] if ins.index(l) + 1 < len(ins) else ""
                if sb.startswith(("call", "invoke")) and strip(nxt).startswith("unreachable"):
                    m = re.match(r"^call (.+?) @([-\w.$]+)\((.*)\)$", sb)
                    if m and control_only:
                        strs = [irmod._global_content(mod, gname) for gname in re.findall(r"@\.str[.\w]*", sb)]
                        msgs = re.findall(r'c"([^"]*?)\\00"', " ".join(strs))
                        return ("effect", m.group(2), (("k", "msg", msgs[0] if msgs else ""),))
                    if m:
                        a = []
                        for part in irmod._split_top(m.group(3)):
                            ty, tok = part.rsplit(" ", 1) if " " in part else (part, "")
                            if tok.startswith("%"):
                                a.append(operand(tok, ty, env))
                            else:
                                a.append(("k", ty, irmod._GLOB_RE.sub(lambda mm: irmod._global_content(mod, mm.group(0)), part)))
                        return ("effect", m.group(2), tuple(a))
                raise Unsupported("impure instruction: " + sb[:80])
            env[res] = eval_instr(body, env)
        raise Unsupported("block without terminator")

    _NONNEG.clear()
    _RANGES.clear()
    _DOMAINS.clear()
    _FIXED.clear()
    first = run(fn.order[0], None, args, 0)
    if not _NONNEG and not _RANGES and not _DOMAINS and not _FIXED:
        return first
    budget[0] = max_paths
    for pn in list(args):
        if args[pn] in _FIXED:
            args[pn] = _FIXED[args[pn]]     # a parameter the entry assumptions pin to one value
    return run(fn.order[0], None, args, 0)   # second pass: the harvested sign knowledge is applied everywhere


def _harvest(c):
    """entry-block assumptions of the form x > -1 / x >= 0 / x <u 2^(N-1): x is non-negative"""
    vs = set()
    _args_in(c, vs)
    if len(vs) == 1:
        v = next(iter(vs))
        b = _bits(v[2])
        if b:
            from . import iset as _iset
            try:
                T = _iset._truth(c, v)
            except Exception:
                T = None
            if T is not None:
                D = _DOMAINS.get(v, _iset.ISet.full(b)) & T
                _DOMAINS[v] = D
                runs = sorted(D.signed_intervals())
                merged = []
                for a_, b_ in runs:
                    if merged and a_ == merged[-1][1] + 1:
                        merged[-1] = (merged[-1][0], b_)
                    else:
                        merged.append((a_, b_))
                if len(merged) == 1:
                    _RANGES[v] = merged[0]
    if c[0] == "icmp" and is_c(c[4]) and c[3][0] == "arg":
        b_ = c[4][1]
        lo_, hi_ = _RANGES.get(c[3], (-(1 << (b_ - 1)), (1 << (b_ - 1)) - 1))
        k_ = sval(c[4])
        if c[1] == "sgt":
            lo_ = max(lo_, k_ + 1)
        elif c[1] == "sge":
            lo_ = max(lo_, k_)
        elif c[1] == "slt":
            hi_ = min(hi_, k_ - 1)
        elif c[1] == "sle":
            hi_ = min(hi_, k_)
        elif c[1] == "ult" and c[4][2] <= (1 << (b_ - 1)):
            lo_, hi_ = max(lo_, 0), min(hi_, c[4][2] - 1)
        _RANGES[c[3]] = (lo_, hi_)
    if c[0] == "icmp" and is_c(c[4]):
        b = c[4][1]
        if (c[1] == "sgt" and sval(c[4]) >= -1) or (c[1] == "sge" and sval(c[4]) >= 0) or (c[1] == "ult" and c[4][2] <= (1 << (b - 1))) or (c[1] == "ule" and c[4][2] < (1 << (b - 1))):
            _NONNEG.add(c[3])
    # a two-word parameter (hi:lo) assumed below 2^64: the high word is zero
    if c[0] in ("icmp", "icmpx") and c[1] in ("ult", "lt") and is_c(c[4]) and c[4][2] <= (1 << 64) and c[3][0] == "op" and c[3][1] == "or" and _bits(c[3][2]) == 128:
        for lo, hi in ((c[3][3], c[3][4]), (c[3][4], c[3][3])):
            if lo[0] == "cast" and lo[1] == "zext" and lo[2] == "i64" and hi[0] == "op" and hi[1] == "shl" and hi[4] == C(128, 64) \
                    and hi[3][0] == "cast" and hi[3][1] == "zext" and hi[3][2] == "i64" and hi[3][4][0] == "arg":
                _FIXED[hi[3][4]] = C(64, 0)


def _atoms(e, out, seen):
    if not isinstance(e, tuple) or id(e) in seen:
        return
    seen.add(id(e))
    if e[0] == "icmp" and e[1] in ("eq", "ne") and is_c(e[4]) and e[3][0] in ("arg", "cast", "op"):
        out.add(e)
    for k in e:
        if isinstance(k, tuple):
            _atoms(k, out, seen)


def expand(e, budget=64):
    """Shannon expansion on equality atoms `X ==/!= K`: in the equal branch X := K is substituted
    everywhere (so conditions that depend on X fold), in the other branch the atom is false/true."""
    if budget <= 0:
        return e
    at = set()
    _atoms(e, at, set())
    if not at:
        return e
    d = min(at, key=_key)
    X, K = d[3], d[4]
    eqb = expand(subst(e, X, K), budget - 1)
    neb = expand(subst(e, d, C(1, 1 if d[1] == "ne" else 0)), budget - 1)
    return mk_ite0(("icmp", "eq", d[2], X, K), eqb, neb)


def show(e, depth=0):
    if not isinstance(e, tuple):
        return str(e)
    t = e[0]
    if depth > 12:
        return "…"
    if t == "c":
        return "%d:i%d" % (sval(e) if e[1] > 1 else e[2], e[1])
    if t == "arg":
        return "a%d" % e[1]
    if t == "op":
        return "(%s %s %s)" % (show(e[3], depth + 1), e[1], show(e[4], depth + 1))
    if t == "icmp":
        return "(%s %s %s)" % (show(e[3], depth + 1), e[1], show(e[4], depth + 1))
    if t == "icmpx":
        return "(%s(%s) %s %s(%s))" % (e[2][0], show(e[2][2], depth + 1), e[1], e[3][0], show(e[3][2], depth + 1))  # compared by value
    if t == "cast":
        return "%s<%s>(%s)" % (e[1], e[3], show(e[4], depth + 1))
    if t == "ite":
        return "ite(%s, %s, %s)" % tuple(show(k, depth + 1) for k in e[1:])
    if t == "call":
        return "%s(%s)" % (e[2], ", ".join(show(a, depth + 1) for _, a in e[3]))
    if t == "extract":
        return "%s.%s" % (show(e[1], depth + 1), e[2])
    if t == "effect":
        return "EFFECT %s(%s)" % (e[1], ", ".join(show(a, depth + 1) for a in e[2]))
    if t == "raw":
        return "raw[%s](%s)" % (e[1], ", ".join(show(a, depth + 1) for a in e[2]))
    if t == "fop":
        return "(%s)" % " ".join(show(a, depth + 1) if isinstance(a, tuple) else str(a) for a in e[1:])
    if t == "k":
        return str(e[2])
    return repr(e)
