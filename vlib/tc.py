"""Toolchain layer: scratch dirs, compile commands, parallel execution.

Nothing under /repo is ever executed; the compilers are only asked to
type-check and to emit LLVM IR for generated translation units that include
/repo/include as it is at the time of the call.
"""
import os, shutil, subprocess, sys, time, re, json, hashlib
from concurrent.futures import ThreadPoolExecutor

VERIF = os.path.dirname(os.path.dirname(os.path.abspath(__file__)))
REPO = os.environ.get("VERIF_REPO", "/repo")
INC = os.path.join(REPO, "include")
JOBS = int(os.environ.get("VERIF_JOBS", "16"))

CLANGXX = shutil.which("clang++") or "clang++"
GXX = shutil.which("g++") or "g++"
OPT = shutil.which("opt-14") or "opt-14"
CXXFILT = shutil.which("llvm-cxxfilt-14") or "llvm-cxxfilt-14"

STD_HEADERS = """#include <algorithm>
#include <array>
#include <bit>
#include <cassert>
#include <charconv>
#include <cinttypes>
#include <climits>
#include <cmath>
#include <concepts>
#include <cstddef>
#include <cstdint>
#include <cstdio>
#include <cstdlib>
#include <cstring>
#include <functional>
#include <iosfwd>
#include <iostream>
#include <istream>
#include <iterator>
#include <limits>
#include <numbers>
#include <numeric>
#include <ostream>
#include <sstream>
#include <stdexcept>
#include <string>
#include <string_view>
#include <system_error>
#include <tuple>
#include <type_traits>
#include <utility>
"""

# The "gcc" configuration: CNL selects its code paths with the preprocessor
# only (CNL_BUILTIN_OVERFLOW_ENABLED, !defined(__clang__) in bit.h ...).  All
# system headers are included first, then __clang__ is undefined, then CNL is
# included: clang then compiles the code paths GCC builds.
PRELUDE = {
    "clang": STD_HEADERS + "#include <cnl/all.h>\n",
    "gcc": STD_HEADERS
    + '#pragma clang diagnostic ignored "-Wbuiltin-macro-redefined"\n#undef __clang__\n'
    + "#include <cnl/all.h>\n",
}

COMMON = ["-std=gnu++20", "-I" + INC, "-w", "-ferror-limit=0"]
MODE_FLAGS = {
    # equivalence kernels: wrap semantics on both sides, asserts visible as abort calls
    "eq": ["-O2", "-fwrapv", "-mllvm", "-inline-threshold=1000000"],
    "eq3": ["-O3", "-fwrapv", "-mllvm", "-inline-threshold=1000000"],
    # release-mode equivalence (NDEBUG): used only where stated
    "eqr": ["-O2", "-fwrapv", "-DNDEBUG", "-mllvm", "-inline-threshold=1000000"],
    # UB residual kernels
    "ub": ["-O2", "-g", "-DNDEBUG",
           "-fsanitize=signed-integer-overflow,shift,integer-divide-by-zero,unreachable,builtin",
           "-fsanitize-trap=all", "-mllvm", "-inline-threshold=1000000"],
    # type facts / call graph
    # equivalence with some CNL functions cut out (made uninterpreted): front end only, then cut_functions + opt
    "eqcut": ["-O2", "-fwrapv", "-Xclang", "-disable-llvm-passes"],
    "o0": ["-O0"],
    "o0g": ["-O0", "-g", "-fno-discard-value-names"],
    "o1ni": ["-O1", "-fno-inline", "-g"],
}


class AnalysisBroken(Exception):
    """exit 2: the analysis itself cannot run (anchor vanished, tool failed)."""


def workdir(tag):
    d = os.path.join(VERIF, ".work", "%s.%d" % (tag, os.getpid()))
    shutil.rmtree(d, ignore_errors=True)
    os.makedirs(d)
    return d


def cleanup(d):
    shutil.rmtree(d, ignore_errors=True)


def run(cmd, timeout=1800, cwd=None):
    p = subprocess.run(cmd, stdout=subprocess.PIPE, stderr=subprocess.PIPE, text=True,
                       timeout=timeout, cwd=cwd)
    return p.returncode, p.stdout, p.stderr


def clang_ll(src, out, mode, extra=()):
    cmd = [CLANGXX] + COMMON + MODE_FLAGS[mode] + list(extra) + ["-S", "-emit-llvm", src, "-o", out]
    return run(cmd) + (cmd,)


def cut_functions(ll_in, ll_out, patterns):
    """Replace the body of every defined function whose demangled name matches one of `patterns` (regexes) by a call of
    an external function `vf_cut_<mangled name>` with the same signature, declared readnone: the function becomes an
    uninterpreted pure function of its arguments, for the CNL kernel and the reference alike.  Only functions whose
    parameters and result are scalars are cut.  Then the module is optimised (-O2, twice, everything else inlined).
    Returns the list of demangled names cut."""
    lines = open(ll_in).read().split("\n")
    names = re.findall(r"^define [^@]*@([\w.$]+)\(", "\n".join(lines), re.M)
    dem = demangle(names)
    cut = dict((n, d) for n, d in dem.items() if any(re.search(p, d) for p in patterns))
    out, decls, i = [], [], 0
    done = []
    while i < len(lines):
        l = lines[i]
        m = re.match(r"^define (?:[\w() ]+? )??((?:i\d+|float|double|x86_fp80)) @([\w.$]+)\((.*)\)[^()]*\{\s*$", l)
        m2 = re.match(r"^define [^@]*@([\w.$]+)\(", l)
        if m2 and m2.group(1) in cut:
            mm = re.match(r"^define (.*?)(i\d+|float|double|x86_fp80) @([\w.$]+)\((.*)\)([^()]*)\{\s*$", l)
            if not mm:
                raise AnalysisBroken("cannot cut %s: result is not a scalar (`%s`)" % (cut[m2.group(1)], l[:200]))
            ret, name, params = mm.group(2), mm.group(3), mm.group(4)
            ptys, pnames = [], []
            for k, part in enumerate([x.strip() for x in _split_params(params)] if params.strip() else []):
                toks = part.split()
                ty = toks[0]
                if not re.match(r"^(i\d+|float|double|x86_fp80)$", ty):
                    raise AnalysisBroken("cannot cut %s: parameter %d is not a scalar (`%s`)" % (cut[name], k, part))
                ptys.append(ty)
                pnames.append(toks[-1] if toks[-1].startswith("%") else "%%%d" % k)
            head = "define linkonce_odr dso_local %s @%s(%s) {" % (ret, name, ", ".join("%s %s" % (t, n) for t, n in zip(ptys, pnames)))
            out.append(head)
            out.append("  %%vfr = call %s @vf_cut_%s(%s)" % (ret, name, ", ".join("%s %s" % (t, n) for t, n in zip(ptys, pnames))))
            out.append("  ret %s %%vfr" % ret)
            out.append("}")
            decls.append("declare %s @vf_cut_%s(%s) #99999" % (ret, name, ", ".join(ptys)))
            done.append(cut[name])
            while lines[i] != "}":
                i += 1
        else:
            out.append(l)
        i += 1
    out += decls + ["attributes #99999 = { nounwind readnone willreturn mustprogress nofree nosync }"]
    ed = ll_out + ".cut.ll"
    open(ed, "w").write("\n".join(out))
    tmp = ll_out + ".o1.ll"
    for a_, b_ in ((ed, tmp), (tmp, ll_out)):
        rc, so, se = run([OPT, "-S", "-O2", "-inline-threshold=1000000", a_, "-o", b_])
        if rc != 0:
            raise AnalysisBroken("opt failed on the cut module: " + se[:800])
    return done


def _split_params(s):
    out, depth, cur = [], 0, ""
    for ch in s:
        if ch in "([{<":
            depth += 1
        elif ch in ")]}>":
            depth -= 1
        if ch == "," and depth == 0:
            out.append(cur)
            cur = ""
        else:
            cur += ch
    if cur.strip():
        out.append(cur)
    return out


def gxx_syntax(src, extra=()):
    cmd = [GXX, "-std=gnu++20", "-I" + INC, "-w", "-fmax-errors=0", "-fsyntax-only"] + list(extra) + [src]
    return run(cmd) + (cmd,)


def opt_passes(inp, out, passes):
    cmd = [OPT, "-S", "-passes=" + passes, inp, "-o", out]
    return run(cmd) + (cmd,)


def demangle(names):
    if not names:
        return {}
    p = subprocess.run([CXXFILT], input="\n".join(names) + "\n", stdout=subprocess.PIPE, text=True)
    outs = p.stdout.split("\n")
    return dict(zip(names, outs))


def pmap(fn, items, jobs=None):
    items = list(items)
    if not items:
        return []
    with ThreadPoolExecutor(max_workers=jobs or JOBS) as ex:
        return list(ex.map(fn, items))


_FMAP = {}


def _fcall(i):
    return _FMAP["fn"](_FMAP["items"][i])


def fmap(fn, items, jobs=None):
    """like pmap but in forked worker processes (the Python-heavy analyses do not run in parallel under threads);
    results must be picklable"""
    import multiprocessing as mp
    items = list(items)
    if not items:
        return []
    _FMAP["fn"], _FMAP["items"] = fn, items
    with mp.get_context("fork").Pool(min(jobs or JOBS, len(items))) as p:
        return p.map(_fcall, range(len(items)), chunksize=1)


def repo_rev():
    try:
        rc, out, _ = run(["git", "-C", REPO, "rev-parse", "HEAD"])
        rc2, st, _ = run(["git", "-C", REPO, "status", "--porcelain", "--untracked-files=no"])
        return out.strip() + ("+dirty" if st.strip() else "")
    except Exception:
        return "unknown"


def tool_versions():
    v = {}
    for name, cmd in (("clang", [CLANGXX, "--version"]), ("g++", [GXX, "--version"]), ("opt", [OPT, "--version"])):
        try:
            rc, out, err = run(cmd)
            v[name] = (out or err).strip().split("\n")[0 if name != "opt" else 1].strip()
        except Exception as e:
            v[name] = "missing: %s" % e
    return v
