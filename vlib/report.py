"""Evidence files, violation / known-finding handling, exit codes."""
import os, json, re, time, sys
from . import tc

KNOWN = os.path.join(tc.VERIF, "known_findings.json")


def load_known(prop):
    if not os.path.exists(KNOWN):
        return []
    with open(KNOWN) as f:
        data = json.load(f)
    return [e for e in data.get("findings", []) if e.get("property") == prop]


INSTANCES = os.path.join(tc.VERIF, "known_instances.json")


def load_instances(prop, tier):
    """{finding id: {obligation key: signature}} frozen on the pinned tree by `VERIF_FREEZE_INSTANCES=1 check.py ...`;
    a listed finding covers exactly these obligations with exactly these deviations"""
    if not os.path.exists(INSTANCES):
        return None
    with open(INSTANCES) as f:
        data = json.load(f)
    return data.get(prop, {}).get(tier)


def signature(text):
    import hashlib
    return hashlib.sha1(text.replace(tc.REPO, "/repo").encode()).hexdigest()[:12]


def _safe(s):
    import hashlib
    return re.sub(r"[^A-Za-z0-9_.+-]+", "_", s)[:120] + "." + hashlib.sha1(s.encode()).hexdigest()[:8]


class Run:
    def __init__(self, prop, tier, seed, level):
        self.prop, self.tier, self.seed, self.level = prop, tier, seed, level
        self.t0 = time.time()
        self.violations = []   # dict(key, finding_key, text, payload)
        self.broken = []       # strings
        self.coverage = {}
        self.assumptions = []
        self.notes = []

    def violation(self, key, text, payload=None, finding_key=None, sampled=False):
        """sampled: the obligation belongs to the seed-dependent part of the matrix (it exists for some seeds only), so
        it cannot be in the frozen instance table; for such obligations the class key alone decides whether a listed
        finding covers it"""
        self.violations.append({"key": key, "finding_key": finding_key or key, "text": text, "payload": payload or {}, "sampled": sampled})

    def broke(self, text):
        self.broken.append(text)

    def finish(self):
        known = load_known(self.prop)
        inst = load_instances(self.prop, self.tier)
        freeze = os.environ.get("VERIF_FREEZE_INSTANCES")
        unlisted, listed = [], []
        used = set()
        for v in self.violations:
            hit = None
            for e in known:
                pat = e.get("match")
                if pat is not None and re.fullmatch(pat, v["finding_key"]):
                    hit = e
                    break
            if hit is not None and inst is not None and not freeze and not v.get("sampled"):
                # the finding is the recorded set of failing obligations, each with the recorded deviation: a new
                # obligation of the same class, or a recorded one failing differently, is a different violation
                rec = inst.get(hit.get("id"), {}).get(v["key"])
                if rec is None:
                    v["text"] += "  [same class as known finding %s but not one of its recorded instances]" % hit.get("id")
                    hit = None
                elif rec != signature(v["text"]):
                    v["text"] += "  [a recorded instance of known finding %s now fails differently]" % hit.get("id")
                    hit = None
            if hit is not None:
                listed.append((v, hit))
                used.add(hit.get("id"))
            else:
                unlisted.append(v)
        if freeze:
            data = json.load(open(INSTANCES)) if os.path.exists(INSTANCES) else {}
            table = {}
            for v, e in listed:
                if not v.get("sampled"):
                    table.setdefault(e.get("id"), {})[v["key"]] = signature(v["text"])
            data.setdefault(self.prop, {})[self.tier] = table
            with open(INSTANCES, "w") as f:
                json.dump(data, f, indent=0, sort_keys=True)
            print("froze %d known-finding instances for %s/%s" % (sum(len(t) for t in table.values()), self.prop, self.tier))
        # one KNOWN-FINDING line per listed finding entry that fired
        printed = set()
        for v, e in listed:
            if e.get("id") in printed:
                continue
            printed.add(e.get("id"))
            n = sum(1 for v2, e2 in listed if e2.get("id") == e.get("id"))
            print("KNOWN-FINDING: property=%s %s [%s; %d obligation(s), e.g. %s]" % (self.prop, e.get("what"), e.get("id"), n, v["key"]))
        rdir = os.path.join(tc.VERIF, "replay", self.prop)
        if os.path.isdir(rdir):      # replay files describe the latest run only
            for old in os.listdir(rdir):
                try:
                    os.remove(os.path.join(rdir, old))
                except OSError:
                    pass
        for v in unlisted:
            os.makedirs(rdir, exist_ok=True)
            path = os.path.join(rdir, _safe(v["key"]) + ".json")
            with open(path, "w") as f:
                json.dump({"property": self.prop, "key": v["key"], "what": v["text"], "repo": tc.repo_rev(), **v["payload"]}, f, indent=1, default=str)
            v["replay"] = path
        cov = dict(self.coverage)
        cov.setdefault("trusted_base", ["clang/LLVM 14 front end, optimiser and sanitizer instrumentation", "g++ 12 type checker",
                                        "the Python oracles and reference kernels under /verif/specs", "GCC and clang give the same meaning to the same preprocessed C++"])
        cov["known_findings_reported"] = sorted(x for x in printed if x)
        cov["violations_unlisted"] = [v["key"] for v in unlisted][:50]
        cov["analysis_broken"] = self.broken[:20]
        cov["repo_rev"] = tc.repo_rev()
        ev = {"property_id": self.prop, "tier": self.tier, "seed": self.seed, "level": self.level,
              "coverage": cov, "assumptions": self.assumptions, "wall_s": round(time.time() - self.t0, 2),
              "violations": len(unlisted)}
        if not os.environ.get("VERIF_NO_EVIDENCE"):     # set only by tools/seeded.py (runs against scratch copies)
            os.makedirs(os.path.join(tc.VERIF, "evidence"), exist_ok=True)
            with open(os.path.join(tc.VERIF, "evidence", self.prop + ".json"), "w") as f:
                json.dump(ev, f, indent=1, default=str)
        for n in self.notes:
            print(n)
        if self.broken:
            for b in self.broken[:20]:
                print("ANALYSIS-BROKEN property=%s %s" % (self.prop, b.replace("\n", " | ")[:1500]))
            # a broken analysis is never a pass; violations found are still shown
        for v in unlisted[:40]:
            print("VIOLATION property=%s replay=%s  # %s" % (self.prop, v["replay"], v["text"].replace("\n", " ")[:400]))
        if len(unlisted) > 40:
            print("... %d more violations (see evidence)" % (len(unlisted) - 40))
        if unlisted:
            return 1
        if self.broken:
            return 2
        print("OK property=%s tier=%s wall=%.1fs %s" % (self.prop, self.tier, time.time() - self.t0,
                                                       json.dumps({k: v for k, v in cov.items() if isinstance(v, (int, float, bool))})))
        return 0
