#!/usr/bin/env python3
"""Rewrite section 7 of DESIGN.md from seeded/TABLE.md, seeded/TABLE.equiv.md and seeded/INDEX.fixes.md (run after
tools/seeded.py and tools/mkmeta.py)."""
import os, re, json, glob
V = os.path.dirname(os.path.dirname(os.path.abspath(__file__)))


def rows(path):
    out = []
    if os.path.exists(path):
        for l in open(path):
            if l.startswith("| M-") or l.startswith("| E-"):
                out.append(l.rstrip("\n"))
    return out


def main():
    m = rows(os.path.join(V, "seeded", "TABLE.md"))
    e = rows(os.path.join(V, "seeded", "TABLE.equiv.md"))
    metas = {}
    for p in glob.glob(os.path.join(V, "seeded", "M-*", "meta.json")):
        d = json.load(open(p))
        metas[d["id"]] = d
    n = len(metas)
    reported = [i for i, d in metas.items() if d.get("detected_by")]
    own = [i for i, d in metas.items() if d.get("detected_by") and re.search(r"\b%s\b" % d["property"], d["detected_by"])]
    missed_first = [i for i, d in metas.items() if d.get("history", "").startswith(("missed at first", "absorbed at first", "reported at first as"))]
    not_rep = sorted(i for i, d in metas.items() if not d.get("detected_by"))
    rounds = sorted({i.rsplit("-", 1)[1] for i in metas})
    e_bad = [l for l in e if not re.search(r"\|\s*\|\s*\|[^|]*\|\s*$", l)]
    fixes = rows(os.path.join(V, "seeded", "INDEX.fixes.md"))
    nfix = sum(1 for l in open(os.path.join(V, "seeded", "INDEX.fixes.md")) if l.startswith("| revert")) if os.path.exists(os.path.join(V, "seeded", "INDEX.fixes.md")) else 0
    text = """## 7. Seeded changes and which checks catch them

`/verif/seeded/<id>/` holds **%d changes that break a property** (`M-*`), written by independent sub-agents over twelve
rounds (each given only one property's text and its own scratch worktree of /repo, nothing from /verif; from round 2 on
additionally one sentence saying where to look or what had already been done, so that it would do something different),
and **%d behaviour-preserving refactors** (`E-*`, eight rounds). Each `M-*` was **confirmed by me** with
`tools/confirm_mutant.sh` in a scratch worktree: the patch applies, the whole pinned suite is rebuilt (`ninja -k 0`, no
failing target other than the two that never build here) and passes, the demonstration exits 0 without and non-zero with
the change (`seeded/<id>/confirm.txt`, `meta.json`). None is ever committed to /repo; `tools/seeded.py` applies each to a
scratch worktree of /repo's HEAD (or to /repo itself with `--in-place`: `git apply`, checks, `git checkout -- .`), runs
the quick checks listed in its meta and writes `seeded/INDEX.md`; `tools/mkmeta.py` writes the metas and the tables
below. Reverting each `fix:` commit is an additional built-in mutant set (`tools/seeded.py --fixes`,
`seeded/INDEX.fixes.md`): %d reverts, each reported by the owning check.

State at the end: **%d of the %d are reported with exit 1 by at least one quick check, %d by the check of the property
they were written against**; not reported: %s (those in ckormanyos/uintwide_t.h are all inside Knuth's division, the one part of the multi-limb arithmetic that is not decided, see 2.5b; M-C17-1 because its property, C17, is not applicable). %d of them were *not* reported (or reported only as exit 2) when first
run; what was strengthened is in the last column. The miss rate fell from round to round (rounds 1-2: 15 of 35; round 8:
5 of 7; round 9: 5 of 12, three of them duplicates of earlier changes found again for another property; round 10, whose
agents were told to stay out of Knuth's division: 0 of 8; round 11: 2 of 6 missed and one reported only as exit 2, all three closed; round 12: 0 of 3; round 13, six changes against the properties with the fewest changes so far: 5 reported at first run, the sixth, M-C10-6, is the fourth change inside Knuth's division - while it was being written C10 gained the bitwise operators `& | ^` and built-in operands for all limb values, which it does not touch; round 14, six more: 5 reported at first run - one of them, M-C16-8, is M-C16-1 proposed again - and M-C13-8 missed, closed by C13's new bound-passing rule E; refactor round E9 (2) exposed a false alarm of C13's store rule, corrected, see section 6). The strengthenings exposed genuine defects of the pinned tree (D18/D19,
D20, D22, D23, D24) and two engine bugs of mine (section 6).

| change | property | what was changed | what it needs to manifest | confirmed | reported by (violations, quick tier) | history |
|---|---|---|---|---|---|---|
%s

**Behaviour-preserving changes.** To test the other direction ("never raise an alarm on code where the property
holds") sub-agents were asked, in eight rounds, for a realistic refactor of the code a property is anchored in that keeps
behaviour identical for every instantiation and input (if/else for conditional expressions, hoisted sub-expressions,
inlined or extracted helpers, `if constexpr` for tag-dispatch structs, named locals, De Morgan, loops rewritten, aliases
…), each with its own differential argument (`seeded/E-*/notes.md`). They are part of `tools/seeded.py`'s run; the
expected outcome is exit 0 for every check listed. Three of them raised an alarm when first run and the machinery — not the
property, not the refactor — was corrected (section 6: E-C06-2, a false VIOLATION of C12 until the normaliser learned
interval implication between comparison atoms; E-C11-2, an exit 2 of C10 until type facts tolerated an earlier library
rejection; E-C19-3, an exit 2 of C19 from a malformed pattern of mine); E-C08-1 needed the `llvm.abs` expansion first. One of these agents' differential drivers hung, which led to
defect D22.

| change | anchored in | what was refactored | checks run | exit 1 | exit 2 | exit 0 |
|---|---|---|---|---|---|---|
%s

What the campaign says about the method's blind spots: every miss was an **instance the matrix did not contain** (a type
pair, a distinct fundamental type, a token shape, a digit count above 128, a radix, a count type), a **clause declared
undecidable too early** (layout arithmetic, the limb arithmetic of multi-limb integers, the constants of C20) or — once —
a **reference that repeated the code's own conversion** (D23), never a wrong verdict on an instance that was analysed.
Rules that enumerate instances are therefore generated from stratifications of the property's own quantifier (width
relation x signedness, separator placement, every fundamental type with its own specialisation, limb type x limb count),
floors fail the check when instances vanish, and references state comparisons on mathematical values.

---------------------------------------------------------------------------------------------------------------------

""" % (n, len(e), nfix, len(reported), n, len(own), "M-C02-6, M-C04-5 and M-C10-4 (all three inside Knuth's division, the one part of the multi-limb arithmetic that is not decided, see 2.5b) and M-C17-1 (its property, C17, is not applicable)" if not_rep == ["M-C02-6", "M-C04-5", "M-C10-4", "M-C17-1"] else (", ".join(not_rep) or "none"), len(missed_first), "\n".join(m), "\n".join(e))
    p = os.path.join(V, "DESIGN.md")
    s = open(p).read()
    a, b = s.index("## 7. Seeded changes"), s.index("## 8. Layout")
    open(p, "w").write(s[:a] + text + s[b:])
    print("section 7 rewritten: %d M, %d E, %d reported, %d own, not reported %s" % (n, len(e), len(reported), len(own), not_rep))


if __name__ == "__main__":
    main()
