#!/bin/bash
# confirm_mutant.sh <seeded-id>: in the scratch worktree /tmp/confirm (own build dir), apply seeded/<id>/patch.diff,
# rebuild the whole suite (-k 0), require no failing target other than the two boost ones, run ctest, then compile and run
# the demonstration with and without the change (CONFIRM_WT=<dir> selects another worktree, so that several can run side by side).  Writes /tmp/confirm.<id>.result.  The worktree is restored afterwards.
ID=$1; S=/verif/seeded/$ID; W=${CONFIRM_WT:-/tmp/confirm}; R=/tmp/confirm.$ID.result
set -u
if [ ! -d $W ]; then git -C /repo worktree add -q $W HEAD || exit 2; fi
git -C $W checkout -q --detach $(git -C /repo rev-parse HEAD) && git -C $W checkout -q -- . 
[ -d $W/_build ] || cmake -G Ninja -S $W -B $W/_build -DCMAKE_BUILD_TYPE=RelWithDebInfo -DCMAKE_CXX_FLAGS=-Wno-error > /tmp/confirm.$ID.cmake.log 2>&1
CXX=$(grep -o 'clang++\|g++' $S/demo.cpp | head -1); CXX=${CXX:-g++}
DEMOFLAGS="$(grep -o '\-O[0-3s]' $S/demo.cpp | head -1) $(head -1 $S/demo.cpp | grep -o '\-D[A-Z_]*' | tr '\n' ' ')"
# demo on the original
$CXX -std=gnu++20 $DEMOFLAGS -I$W/include $S/demo.cpp -o /tmp/confirm.$ID.demo.orig > /tmp/confirm.$ID.demo.orig.log 2>&1; timeout 60 /tmp/confirm.$ID.demo.orig > /tmp/confirm.$ID.demo.orig.out 2>&1; ORIG=$?
git -C $W apply $S/patch.diff || { echo "RESULT=patch-does-not-apply" > $R; exit 1; }
$CXX -std=gnu++20 $DEMOFLAGS -I$W/include $S/demo.cpp -o /tmp/confirm.$ID.demo.mut > /tmp/confirm.$ID.demo.mut.log 2>&1; timeout 60 /tmp/confirm.$ID.demo.mut > /tmp/confirm.$ID.demo.mut.out 2>&1; MUT=$?
nice -n 5 ninja -C $W/_build -j ${JOBS:-12} -k 0 > /tmp/confirm.$ID.build.log 2>&1
BAD=$(grep '^FAILED:' /tmp/confirm.$ID.build.log | grep -v -e 'test-unit-index' -e 'test-unit-boost.multiprecision' | sort -u | head -5)
ctest --test-dir $W/_build -j8 --timeout 900 > /tmp/confirm.$ID.ctest.log 2>&1
NF=$(grep -E '^\s*[0-9]+ - ' /tmp/confirm.$ID.ctest.log | grep -v -e 'test-unit-index' -e 'test-unit-boost.multiprecision' -e 'test-benchmark' | wc -l)
PASSED=$(grep -E 'tests passed' /tmp/confirm.$ID.ctest.log)
git -C $W checkout -q -- .
{ echo "demo_exit_original=$ORIG"; echo "demo_exit_mutant=$MUT"; echo "build_failed_targets=${BAD:-none}"; echo "ctest_failed_other=$NF"; echo "ctest=$PASSED"; echo "compiler=$CXX $DEMOFLAGS";
  if [ "$ORIG" = "0" ] && [ "$MUT" != "0" ] && [ -z "$BAD" ] && [ "$NF" = "0" ]; then echo "RESULT=confirmed"; else echo "RESULT=rejected"; fi; } > $R
cat $R
