#!/usr/bin/env python3
"""Run the quick checks against seeded changes.

  tools/seeded.py                 every /verif/seeded/<id>/patch.diff, the checks listed in its meta.json ("checks") or all
  tools/seeded.py --fixes         every `fix:` commit of /repo reverted (the defects the checks found must come back)
  tools/seeded.py --only <id>     one seeded change
  tools/seeded.py --all-checks    run every registered check against each change (slow)

Each change is applied to /repo with `git apply`, the checks are run, and the tree is restored with
`git checkout -- .` straight afterwards (also on error).  Nothing is committed.  Writes seeded/INDEX.md.
"""
import sys, os, json, subprocess, glob, re, time

VERIF = os.path.dirname(os.path.dirname(os.path.abspath(__file__)))
MAIN = "/repo"
# The changes are applied in a scratch worktree of /repo's HEAD (outside /repo and /verif) and the checks are pointed at it
# with VERIF_REPO, so that nothing else that reads /repo at the same time is disturbed.  `--in-place` applies to /repo itself
# (git apply ... ; checks ; git checkout -- .), which is how the checks are meant to be used.
REPO = MAIN if "--in-place" in sys.argv else "/tmp/seedwt"


def prepare():
    if REPO == MAIN:
        return
    head = subprocess.run(["git", "-C", MAIN, "rev-parse", "HEAD"], stdout=subprocess.PIPE, text=True).stdout.strip()
    if not os.path.isdir(REPO):
        subprocess.run(["git", "-C", MAIN, "worktree", "add", "-q", "--detach", REPO, head], check=True)
    subprocess.run(["git", "-C", REPO, "checkout", "-q", "--detach", head], check=True)
    subprocess.run(["git", "-C", REPO, "checkout", "-q", "--", "."], check=True)


def sh(cmd, **kw):
    return subprocess.run(cmd, stdout=subprocess.PIPE, stderr=subprocess.STDOUT, text=True, **kw)


def registered():
    return [c["property_id"] for c in json.load(open(os.path.join(VERIF, "MANIFEST.json")))["checks"]]


def run_checks(props):
    res = {}
    for p in props:
        t0 = time.time()
        r = sh(["python3", os.path.join(VERIF, "check.py"), p, "--tier", "quick"], cwd=VERIF, env=dict(os.environ, VERIF_REPO=REPO, VERIF_NO_EVIDENCE="1"))
        viol = [l for l in r.stdout.split("\n") if l.startswith("VIOLATION")]
        broken = [l for l in r.stdout.split("\n") if l.startswith("ANALYSIS-BROKEN")]
        res[p] = dict(exit=r.returncode, violations=len(viol), broken=len(broken), first=(viol or broken or [""])[0][:300], wall=round(time.time() - t0, 1))
    return res


def clean_tree():
    st = sh(["git", "-C", REPO, "status", "--porcelain", "--untracked-files=no"]).stdout.strip()
    return st == ""


def with_patch(patch_text, reverse, props):
    if not clean_tree():
        raise SystemExit("/repo has uncommitted changes; refusing to apply a seeded change")
    args = ["git", "-C", REPO, "apply"] + (["-R"] if reverse else []) + ["-"]
    r = subprocess.run(args, input=patch_text, text=True, stdout=subprocess.PIPE, stderr=subprocess.STDOUT)
    if r.returncode != 0:
        return {"apply_failed": r.stdout[:500]}
    try:
        return run_checks(props)
    finally:
        sh(["git", "-C", REPO, "checkout", "--", "."])


def main():
    a = sys.argv[1:]
    prepare()
    allp = registered()
    rows = []
    if "--fixes" in a:
        log = sh(["git", "-C", MAIN, "log", "--format=%h %s", "--reverse"]).stdout.strip().split("\n")
        fixes = [l.split(" ", 1) for l in log if l.split(" ", 1)[1].startswith("fix:")]
        known = json.load(open(os.path.join(VERIF, "known_findings.json")))
        owner = {}
        for e in known.get("fixed", []):
            m = re.match(r"fixed: property=(\w+) (\w+) ", e)
            if m:
                owner[m.group(2)] = m.group(1)
        related = {"C06": ["C06", "C07", "C12"], "C12": ["C12", "C06", "C07"], "C05": ["C05", "C11"], "C02": ["C02"], "C16": ["C16"], "C13": ["C13", "C14"], "C18": ["C18", "C16"]}
        only = a[a.index("--only") + 1] if "--only" in a else None
        for h, subj in fixes:
            if only and h != only:
                continue
            diff = sh(["git", "-C", MAIN, "show", "--format=", h, "--", "include"]).stdout
            own = owner.get(h, "?")
            props = allp if "--all-checks" in a else related.get(own, [own] if own in allp else allp)
            res = with_patch(diff, True, props)
            rows.append(("revert " + h, subj[:90], own, res))
            print("revert", h, own, {k: (v.get("exit") if isinstance(v, dict) else v) for k, v in res.items()}, flush=True)
    else:
        only = a[a.index("--only") + 1] if "--only" in a else None
        for d in sorted(glob.glob(os.path.join(VERIF, "seeded", "*", "patch.diff"))):
            sid = os.path.basename(os.path.dirname(d))
            if only and sid != only:
                continue
            meta = json.load(open(os.path.join(os.path.dirname(d), "meta.json")))
            props = allp if "--all-checks" in a else meta.get("checks", allp)
            res = with_patch(open(d).read(), False, props)
            rows.append((sid, meta.get("summary", "")[:90], meta.get("property", "?"), res))
            print(sid, meta.get("property"), {k: (v.get("exit") if isinstance(v, dict) else v) for k, v in res.items()}, flush=True)
    out = os.path.join(VERIF, "seeded", "INDEX.fixes.md" if "--fixes" in a else "INDEX.md")
    os.makedirs(os.path.dirname(out), exist_ok=True)
    lines = {}
    if "--only" in a and os.path.exists(out):           # one change re-run: its row replaces the old one, the others stay
        for l in open(out):
            c = l.split("|")
            if len(c) > 2 and (c[1].strip()[:2] in ("M-", "E-") or c[1].strip().startswith("revert ")):
                lines[c[1].strip()] = l.rstrip("\n")
    for sid, what, prop, res in rows:
        if "apply_failed" in res:
            lines[sid] = "| %s | %s | %s | patch does not apply: %s | | |" % (sid, what, prop, res["apply_failed"][:80].replace("\n", " "))
            continue
        c1 = ", ".join("%s (%d)" % (p, v["violations"]) for p, v in res.items() if v["exit"] == 1)
        c2 = ", ".join(p for p, v in res.items() if v["exit"] == 2)
        c0 = ", ".join(p for p, v in res.items() if v["exit"] == 0)
        lines[sid] = "| %s | %s | %s | %s | %s | %s |" % (sid, what.replace("|", "/"), prop, c1, c2, c0)
    with open(out, "w") as f:
        f.write("| change | what | property | checks that report it (exit 1) | analysis-broken (exit 2) | silent (exit 0) |\n|---|---|---|---|---|---|\n")
        for sid in (sorted(lines) if "--fixes" not in a else lines):
            f.write(lines[sid] + "\n")
    print("wrote", out)


if __name__ == "__main__":
    main()
