#!/usr/bin/env python3
"""Regenerate /verif/MANIFEST.json from the table below (single source of truth)."""
import json, os, sys
HERE = os.path.dirname(os.path.dirname(os.path.abspath(__file__)))

CHECKS = {
    "C12": dict(level="translation_validation", design="3/C12", technique="static translation validation: normal form of optimised LLVM IR of generated CNL kernels vs built-in reference kernels, plus type facts vs an LP64 promotion oracle",
                text="For every operator x native-tag wrapper nesting x 8..64-bit representation (both compiler configurations) the CNL kernel and the built-in expression are shown to be the same function of all operand values by comparing normal forms of their optimised IR; result representations are checked as type facts under clang and g++.",
                note="Trusts LLVM 14's optimiser and the /verif normaliser rewrites (each sound, listed in DESIGN 2.2); GCC configuration is obtained by #undef __clang__ under clang; equality is claimed wherever the CNL kernel's own evaluation is defined."),
}

CHECKS["C01"] = dict(level="translation_validation", design="3/C01", technique="static translation validation of generated kernels (CNL expression vs aligned built-in arithmetic) as normal forms of optimised LLVM IR + type facts on result exponent/rep + power<> algebra grid",
    text="For each operator x rep pair x exponent difference x radix the CNL kernel is shown equal, for all operand values, to 'multiply the coarser operand by Radix^d in its promoted rep, then apply the built-in operator'; the result exponent (min / sum) and rep are type facts checked under clang and g++; power_value<T,N,R>() == R^N.",
    note="Equality under wrap semantics on both sides; real-arithmetic exactness follows only under the property's own restriction (aligned operands and result fit). Multi-limb reps are not covered at value level.")
CHECKS["C05"] = dict(level="proof", design="3/C05", technique="type-level facts (declared digits, signedness, rep of every result type) read from clang and g++ and judged by an exact interval-arithmetic oracle; IR equivalence kernels for operand widening",
    text="Ranges are type-level in elastic_integer: for every (op, digits, signedness, narrowest) in the matrix the declared range of the result type must contain the exact hull of the operation over the operands' declared ranges and fit its rep; numeric_limits must report that range; EQ kernels show that operands are converted to a type holding both operands and the result before the built-in operator runs.",
    note="Oracle: exact Python integers, C++20 semantics of / % >> on LP64. One template body per operator: value-level EQ on a boundary-rich digit subset + type facts on the full matrix. Bitwise operators are outside the statement.")

CHECKS["C02"] = dict(level="translation_validation", design="3/C02", technique="static translation validation: a/b, a%b, quotient(a,b) kernels vs built-in division kernels as IR normal forms; exponent/width/signedness as type facts",
    text="a/b and a%b are shown equal, for all operands in the property's domain, to the built-in / and % on the promoted unscaled reps (so the division identity, sign of remainder and |rem|<|b| are the built-in guarantees carried by the exponent facts Ea-Eb / Ea); unwrap(quotient(a,b)) equals ((W)ra << digits(B)) / (W)rb in the result rep W, whose width >= digits(A)+digits(B) and signedness are type facts.",
    note="Domain split into conjunctive pieces (b != 0, b != -1 | b == -1, a != lowest). Decimal quotient() is ill-formed in CNL and not covered.")
CHECKS["C03"] = dict(level="translation_validation", design="3/C03", technique="static translation validation of each of the six comparison operators separately against aligned built-in / by-value reference comparisons; by-value (width-insensitive) normal form for integer compares",
    text="Each comparison operator kernel (scaled_integer with exponent differences, elastic_integer over every sign/width mix, elastic_scaled_integer, single-word wide_integer, built-in vs wrapper) is shown equal for all operand values to its reference; mutual consistency of the six operators follows from the six separate equalities.",
    note="Multi-limb wide_integer comparisons are not covered (C10). Elastic operands assumed within declared range.")
CHECKS["C04"] = dict(level="translation_validation", design="3/C04", technique="static translation validation of conversion kernels (int->int both directions, float<->scaled, built-in<->scaled, wrap/unwrap identities) against spec kernels as IR normal forms",
    text="Conversions are shown equal for all source values to: multiply by Radix^d in the destination rep (d>=0), C++ division toward zero in the source rep (d<0), truncating cast of f*2^-E, F(rep)*2^E, identity for wrap/unwrap and from_rep/to_rep.",
    note="Correct rounding of int->float is the hardware conversion composed with an exact power-of-two factor (radix 2 only). Values outside the destination range are undefined by the property; both kernels wrap identically there.")
CHECKS["C16"] = dict(level="translation_validation", design="3/C16", technique="static translation validation of fraction component kernels against cross-multiplication formulas (loops: shared std::gcd), plus an IR dataflow rule on std::hash<fraction>::operator()",
    text="+ - * / unary, == !=, the four order operators (against the cross-product order corrected for the sign of d1*d2), float conversion, reduce and canonical are shown equal to their rational-arithmetic formulas for all components; the hash function's argument is shown to flow only into canonical().",
    note="Cross products assumed to fit (both sides wrap identically otherwise). Equal fractions => equal canonical forms is the composition of the reduce/canonical facts, not separately proved.")

CHECKS["C06"] = dict(level="other", design="3/C06", technique="abstract interpretation over interval sets of the optimised IR of checked-operation kernels with one operand pinned ('lines'), compared with an exact big-integer overflow oracle; both detection paths",
    text="For each operator x operand type pair x overflow tag x detection path, one operand is pinned to a boundary constant; LLVM reduces the checked operation to a function of the other operand, whose ite tree partitions that operand's whole range into interval sets; on each part the outcome (plain result / saturation bound / throw or trap with the right polarity) is compared with what an exact oracle demands. A line is decided for all values of the free operand, interior boundary included.",
    note="Decides exactness along lines (one operand a boundary constant), not for arbitrary operand pairs; lines whose branch conditions the interval domain cannot invert are counted as undecided (floor-guarded). Floating-point sources and 128-bit operands are not covered in the quick tier.")

CHECKS["C07"] = dict(level="other", design="3/C07", technique="same line engine in UB mode: every undefined integer operation instrumented as a sanitizer trap, trap leaves located on interval sets of the free operand; whole-domain residual-trap count for two-operand kernels",
    text="The checked operations (saturated/throwing/trapping, both detection paths) are recompiled in release mode with signed overflow, out-of-range shifts, division by zero / lowest/-1, unreachable and invalid builtin arguments instrumented as traps. On a line a surviving trap is a leaf of the ite tree and the interval partition states for exactly which operand values it executes: a non-empty set is a definite undefined operation. Two-operand kernels must contain no trap where LLVM can discharge them.",
    note="Relational safety of the final unchecked operation for two free operands is undecidable for LLVM's range analysis (counted as undischarged, never an alarm); along lines it is decided.")

CHECKS["C08"] = dict(level="other", design="3/C08", technique="IR equivalence for the non-division operators and for neg_inf against the textbook floor-division definition; divisor-pinned lines whose ite-tree leaves are matched to the bias-then-divide family with the offset demanded by an exact rational-rounding oracle; UB-mode lines for the bias arithmetic",
    text="All operators other than / are shown equal to the built-in ones; neg_inf division equals floor division for all operand pairs; for nearest and tie_to_pos_inf the rounding direction is decided for every dividend along lines with the divisor pinned to a set of constants (both signs, ties, type limits), by recognising each leaf as s_out*trunc((s_in*a+c)/|K|) and comparing (s_out,s_in,c) with the closed form derived from the mode's definition (validated against Fraction arithmetic on each run); the bias arithmetic is checked for undefined operations on UB lines in both directions.",
    note="Rounding direction for two free operands is decided only for neg_inf; for nearest/tie_to_pos_inf only along divisor-pinned lines. Leaves outside the recognised family are undecided (floor-guarded), never alarms.")

CHECKS["C09"] = dict(level="other", design="3/C09", technique="IR equivalence of narrowing conversions with the closed forms that define each rounding mode on integers (validated against a rational oracle); whole-domain UB analysis of the bias arithmetic; an IR precision rule on the floating-point bias addition; constructor kernels decided by the divisor-pinned line family",
    text="scaled->coarser scaled and scaled->integer conversions under each rounding tag equal x>>k, (x+2^(k-1))>>k, (x +/- 2^(k-1))/2^k for all source values; digit-preserving conversions equal the plain conversion; the bias arithmetic is searched for undefined operations over the whole source range; in floating->integer conversions the instruction adding +/-0.5 must work in a strictly wider floating type than the source; constructors of scaled_integer<rounding_integer<>> round by the destination's mode.",
    note="Floating-point value semantics beyond the precision rule, and radix != 2, are not decided.")

CHECKS["C10"] = dict(level="other", design="3/C10", technique="type facts (clang constant values cross-checked by g++ static_assert) on the storage, numeric_limits and operator result types of multi-limb wide_integer instantiations; a path rule over the four sign valuations (-O1 -fno-inline IR) on how the signed multi-limb type reduces / % compare and >> to the unsigned limb arithmetic",
    text="Only the type-level clauses: beyond the widest built-in the rep is a multi-limb uintwide_t whose limb is the unsigned narrowest type, whose signedness is the narrowest type's and whose width is the smallest multiple of the limb width holding the digits plus the sign bit; numeric_limits digits / is_signed / digits_v / signedness_v; binary operator results have max(A, B) digits and are signed when either operand is; shifts and unary operators keep the operand's digits and signedness; comparisons return bool (12 digit counts x 6 narrowest types on the quick tier). Sign discipline of the signed multi-limb type (4 / 9 instantiations): is_neg tests the top bit of the most significant limb; operator/= and operator%= negate exactly the negative operands' copies, run one unsigned division on (copy of *this, copy of other), and negate the quotient iff the signs differ and the remainder iff the dividend is negative, on every path for each of the four sign valuations; compare orders negative below non-negative and defers equal signs to compare_ranges(this, other); right_shift_fill_value is all-ones exactly for negative values.",
    note="The limb arithmetic itself (carry propagation, Knuth division, shifts across limbs, negate, conversions, text output) runs in data-dependent loops and is NOT decided: no static abstraction in reach relates it to arithmetic mod 2^N. The sign rules assume negate() is two's-complement negation and eval_divide_knuth unsigned division.")

CHECKS["C11"] = dict(level="other", design="3/C11", technique="type facts on the composite types vs the interval oracle; must-pass-through of the overflow/elastic/rounding/wide layers on the -O0 call graph; IR equivalence of expression chains; line engine on narrowing assignments",
    text="static_integer/static_number are the documented compositions and every operator result keeps both tags with oracle-sufficient digits; from each public operator the call graph reaches a custom_operator of the overflow tag, from it one of elastic_tag, (for /) the rounding tag's divide, then wide_tag; three-operation chains equal plain arithmetic; narrowing assignments return the (mode-)rounded value inside the declared range and the bound / the right signal outside, for every source value.",
    note="Multi-limb value-level behaviour (C10), rounding direction of / for two free operands (C08) and chains longer than three operations are not decided; neg_inf narrowing lines are undecided (periodic conditions).")

CHECKS["C13"] = dict(level="other", design="3/C13", technique="type facts on to_chars_capacity vs a decimal-length oracle; CFG dominance rule on byte stores, a path rule on value_too_large returns and who-may-call rules over -O1 -fno-inline LLVM IR; interval-set analysis over the buffer size of the real layout selection (to_chars_positive with fill cut to never-returning declarations) against the real solve_fixed/solve_scientific",
    text="Capacity of the fixed-size variants is compared with the exact maximum decimal length for integers (8..128 bit, wide_integer digit counts up to 1000, elastic_integer digit counts) and integral scaled types; every byte store of the integer path and the scaled overload's sign is dominated by a failed comparison of the written pointer with `last`; every return of errc::value_too_large carries ptr == last; the digit-writing internals are called only from the to_chars family and the fixed-capacity entry points reach the buffer only through cnl::to_chars. Layout contract: along lines with the significand length and exponent pinned and the buffer size free (0..4096), the exit the real to_chars_positive takes (fill(scientific), fill(fixed), value_too_large, a failing CNL_ASSERT) is extracted from its IR and compared with what the real solvers return: fill is reached only with a layout it can carry out inside the buffer, value_too_large only when neither layout holds a digit, and with both possible the one with more digits then fewer characters.",
    note="fill's own copy loops and to_chars_static's digit loop are not analysed: fill's consumption is taken from its CNL_ASSERTs and unconditional writes, to_chars_static<10,int> is modelled by its specification (the decimal text of the exponent). The layout lines cover pinned (digits, exponent) pairs, every buffer size on each.")
CHECKS["C14"] = dict(level="other", design="3/C14", technique="call-graph reachability, forbidden-callee and argument-derivation rules on -O1 -fno-inline LLVM IR of the fixed-capacity output entry points; template-argument rule on the descale instantiation each to_chars<Rep> calls; forbidden-callee rule below the digit generator; idle-cycle (progress) rule on the loops of descale",
    text="Decides the property's last sentence and one structural necessary condition of the sign/magnitude clause. Last sentence: to_string, to_chars_static and operator<< (scaled_integer, 128-bit integers) obtain their text from cnl::to_chars applied to the same value, pass the result's own character array as the buffer, compute the length from the returned pointer, and cannot reach any other number formatter. R5: in every cnl::to_chars<Rep,...> instance (19 reps incl. unsigned long long, 128-bit, elastic and wide) the working significand type passed to descale represents every value of Rep (digits and signedness). R6: no rounding (non-truncating) division is reachable from the digit generator to_chars_natural, for rounding_integer / static_integer / elastic / overflow wrappers. R7: every cycle of every loop of the 29 descale instantiations reached makes progress (idle-cycle rule on un-simplified SSA IR; a necessary condition for to_chars to return). R8: none of descale's 42 room tests is a constant function. R9: one step of the digit generator for the 10 built-in types (the recursive call receives value / base, the stored character is itoc(value mod base), both in the type's own signedness) and the digit alphabet (all 36 values of itoc).",
    note="Digit generation, truncation direction and exponent after rescaling are loops over run-time digits and are not decided.")

CHECKS["C15"] = dict(level="other", design="3/C15", technique="IR equivalence of the parser's table functions with their specification, call-site constant extraction from scan_base, type-level deduction facts, and compile-time witnesses on the types of a stratified sample of user-defined literals",
    text="Literal witnesses: digits, exponent, radix (all part of the literal's type) and the constant rep of ~375 (quick) _cnl/_cnl2 tokens stratified by base, length, separator placement before/after the radix point and leading/trailing zeros, against exact rational arithmetic on the spelling. Structural part: per-digit scale equals the base, the chunk factor equals base^stride for the stride scan_base itself announces (so a stride/chunk disagreement, invisible to tokens shorter than one chunk, is caught), digit tables are correct on every valid character class and mutual negations, a chunk fits the int64 accumulator, the bit-width estimate is >= log2(base) per digit; digits/signedness/exponent of types deduced from values.",
    note="That EVERY token or constant<V> yields exactly its value / used-digit count is not decided: the scan/parse loops over characters are not analysed; the literal witnesses settle the sampled spellings only.")

CHECKS["C18"] = dict(level="other", design="3/C18", technique="IR equivalence with the <bit> library functions on a frozen claimed set (both compiler configurations), UB-mode analysis of every utility (interval-set lines for pinned rotation counts, residual traps for free counts), scalar-evolution loop bounds",
    text="For the intrinsic-backed widths (and every width of ispow2/rotl/rotr) the CNL utility and its <bit> counterpart reduce to one normal form for all values, on the Clang configuration and on the GCC configuration (intrinsic specialisations, where llvm.cttz/ctlz zero-poison flags expose an unguarded intrinsic); no utility keeps an out-of-range shift, an invalid builtin argument or a division for any value on any width. Signedness dispatch: cnl::used_digits / leading_bits of a signed number type (built-in, 128-bit, wide incl. multi-limb, elastic, overflow, static) enter the signed used-digits algorithm, of an unsigned one the unsigned algorithm (13 types).",
    note="Generic recursive definitions on 8/16/128-bit types that LLVM does not bring to the intrinsic form are listed as unproved, not claimed; value correctness of used_digits/leading_bits/trailing_bits is not decided.")
CHECKS["C19"] = dict(level="other", design="3/C19", technique="type facts and compile-fail witnesses; loop termination by scalar evolution or a shift ranking rule on the optimised IR; residual sanitizer traps",
    text="sqrt's result types (elastic digits (D+1)/2 with an integer-sqrt oracle, scaled exponent E/2, odd exponents rejected), termination of both loops for all 8..128-bit reps, and absence of out-of-range shifts.",
    note="That the returned root is floor(sqrt(x)) — the digit-by-digit algorithm over run-time values, including root + bit at the top of the range — is NOT decided.")

CHECKS["C20"] = dict(level="other", design="3/C20", technique="engine T on constexpr initialisers (every std::numbers constant x (Rep, Exponent) instantiation vs an exact integer-arithmetic oracle); IR equivalence of exp2 with the polynomial cut to an uninterpreted function; exact rational certificate of the coefficient table; type facts on intermediate widths",
    text="Constants clause, complete over instantiations: the compiled initialiser of each of the 13 std::numbers specialisations for every (Rep, Exponent) that can hold it (8..64-bit reps; 3196 instantiations in the thorough tier) is floor(c/2^E) or that plus one, c enclosed by rationals computed with integers only. exp2 clause, structural part: for every input, rep(exp2(x)) == (P(frac x) >> (N+E-floor x)) + (1 << (floor x - E)) with the real evaluate_polynomial uninterpreted (all exponents of the 8/16/32-bit reps); P(0) == 0 (so integral x are exact); the coefficient table a1..a7 of each format defines a polynomial within 12 units of 2^-N of 2^t-1 at every representable grid point (beyond that exp2 must be off by two units there); products of the intermediate format keep 2N digits.",
    note="The accumulated rounding of the fixed-point Horner evaluation, i.e. the one-unit bound for exp2 itself, is NOT decided (a statement about values); the series fall-backs pi()/e() are never selected on x86-64 long double and are not separately analysed.")

NOT_APPLICABLE = {
    "C17": "termination/accuracy of the floating-point driven Stern-Brocot loop is a numerical statement with no structural clause (DESIGN 3/C17)",
}
PENDING = "check not yet registered (build in progress; see DESIGN.md section 3 for the planned decision)"


def main():
    props = [json.loads(l) for l in open(os.path.join(HERE, "properties.jsonl"))]
    checks, na = [], []
    for p in props:
        pid = p["id"]
        if pid in CHECKS:
            c = CHECKS[pid]
            checks.append({
                "property_id": pid,
                "quick_cmd": "python3 check.py %s --tier quick" % pid,
                "thorough_cmd": "python3 check.py %s --tier thorough" % pid,
                "evidence_file": "/verif/evidence/%s.json" % pid,
                "replay_cmd_template": "python3 check.py %s --replay {path}" % pid,
                "engine": "vlib",
                "level_claimed": {"category": c["level"], "text": c["text"], "design_ref": c["design"]},
                "level_note": c["note"],
                "technique": c["technique"],
            })
        else:
            na.append({"property_id": pid, "reason": NOT_APPLICABLE.get(pid, PENDING)})
    m = {
        "version": 1,
        "setup_cmd": "python3 /verif/setup.py",
        "hooks": {"guard": "JOHNMCFARLANE_CNL_VERIF",
                  "enable": "none needed: checks compile generated translation units against /repo/include and never execute them",
                  "baseline_off_cmd": "cmake -G Ninja -B /repo/_build -S /repo && cmake --build /repo/_build && ctest --test-dir /repo/_build -j8 --timeout 900",
                  "source_commits": [], "add_only": True},
        "engines": [{"name": "vlib", "path": "/verif/vlib", "serves_properties": sorted(CHECKS),
                     "kind_free_text": "static analysis: generated kernels/facts compiled (never run) by clang 14 / g++ 12; LLVM IR normal forms, abstract cells, sanitizer-trap residuals, call graph and CFG rules; Python oracles"}],
        "checks": checks,
        "notes": "All checks are static: nothing under /repo is executed. exit 2 = analysis broken/degraded. Known findings: /verif/known_findings.json.",
        "not_applicable": na,
    }
    json.dump(m, open(os.path.join(HERE, "MANIFEST.json"), "w"), indent=1)
    print("MANIFEST.json: %d checks, %d not_applicable" % (len(checks), len(na)))


if __name__ == "__main__":
    main()
