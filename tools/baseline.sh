#!/bin/bash
# Rebuild /repo/_build (keep going), fail loudly if any target other than the two boost-based ones
# (not part of the pinned baseline) fails to build, then run the pinned ctest command.
LOG=${1:-/tmp/baseline}
nice -n 10 cmake --build /repo/_build -j ${JOBS:-8} -- -k 0 > $LOG.build.log 2>&1
BAD=$(grep '^FAILED:' $LOG.build.log | grep -v -e 'test-unit-index' -e 'test-unit-boost.multiprecision' | sort -u)
if [ -n "$BAD" ]; then echo "BASELINE BUILD FAILED:"; echo "$BAD"; echo BASELINE_RESULT=build-failed > $LOG.result; exit 1; fi
ctest --test-dir /repo/_build -j8 --timeout 900 > $LOG.ctest.log 2>&1
NF=$(grep -E '^\s*[0-9]+ - ' $LOG.ctest.log | grep -v -e 'test-unit-index' -e 'test-unit-boost.multiprecision' | wc -l)
grep -E 'tests passed' $LOG.ctest.log
if [ "$NF" != "0" ]; then echo "BASELINE TESTS FAILED:"; grep -E '^\s*[0-9]+ - ' $LOG.ctest.log; echo BASELINE_RESULT=tests-failed > $LOG.result; exit 1; fi
echo BASELINE_RESULT=ok > $LOG.result; echo "baseline ok"
