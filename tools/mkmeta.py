#!/usr/bin/env python3
"""Write seeded/<id>/meta.json from the table below, the confirmation results (tools/confirm_mutant.sh, copied into
seeded/<id>/confirm.txt) and the last tools/seeded.py run (seeded/INDEX.md).  Run by hand; never by a check."""
import json, os, re, glob, shutil

VERIF = os.path.dirname(os.path.dirname(os.path.abspath(__file__)))

# id -> (property, summary, what it needs to manifest, checks to run against it)
T = {
 "M-C01-1": ("C01", "scaled +/- operand alignment: Radix argument dropped from the scale<> of the left operand (binary_operator.h)",
             "radix != 2 (power<E,10>), left operand with the larger exponent, any non-zero value", ["C01"]),
 "M-C02-1": ("C02", "operator%(power,power) returns the smaller exponent instead of the dividend's (scaled/definition.h)",
             "dividend exponent greater than divisor exponent, ra % rb != 0", ["C02", "C01"]),
 "M-C03-1": ("C03", "heterogeneous comparison widens the left operand in a type derived from the RIGHT rep (scaled_integer/operators.h, RhsExponent < LhsExponent case)",
             "different exponents with the coarser operand on the left, left rep wider than the promoted right rep or of different signedness, boundary values", ["C03"]),
 "M-C04-1": ("C04", "scaled_integer -> float conversion scales in double and then narrows (double rounding) (scaled/convert_operator.h)",
             "Dest == float, 64-bit rep holding more than 53 significant bits near a float rounding tie", ["C04"]),
 "M-C05-1": ("C05", "elastic_integer unary -/+ applies the operator in the operand's rep and converts afterwards (elastic_integer/custom_operator.h)",
             "unsigned elastic_integer whose rep is 32 or 64 bits wide (negation wraps before widening)", ["C05"]),
 "M-C06-1": ("C06", "is_overflow<divide_op, positive> compares the dividend with numeric_limits<Lhs>::lowest() instead of the result type's (overflow/is_overflow.h)",
             "result type wider than the dividend type (int8/int16 dividend, or int32 dividend with a 64-bit divisor), dividend == lowest(Lhs), divisor == -1", ["C06", "C07"]),
 "M-C07-1": ("C07", "is_overflow<divide_op, positive> gains a digits condition that switches the test off for divisors narrower than the result (overflow/is_overflow.h)",
             "dividend == lowest() of a type as wide as the promoted result, signed divisor type strictly narrower, divisor == -1 (hardware trap / UB for every overflow tag)", ["C07", "C06"]),
 "M-C08-1": ("C08", "neg_inf rounding: remainder helper returns Rhs instead of the common result type (rounding/neg_inf_rounding_tag.h)",
             "neg_inf_rounding_tag, signed dividend with unsigned divisor of lower rank, negative dividend, inexact division", ["C08"]),
 "M-C09-1": ("C09", "nearest conversion from floating point adds +-0.5 in the source type instead of long double (rounding/convert_operator.h)",
             "double source, nearest_rounding_tag: values adjacent to +-0.5 and odd integers in [2^52, 2^53) with a 64-bit destination", ["C09"]),
 "M-C11-1": ("C11", "wide_integer min_width no longer reserves the sign bit (wide_integer/definition.h)",
             "signed wide/static integers whose digit count is a multiple of the limb width and > 127, value using the top digit", ["C11", "C10"]),
 "M-C12-1": ("C12", "same token swap as M-C03-1 proposed independently for the native-tag wrapper property (scaled_integer/operators.h)",
             "different exponents, coarser operand left, 64-bit left rep with narrower right rep, boundary values", ["C12", "C03"]),
 "M-C13-1": ("C13", "solve_fixed: num_integer_digits ignores a positive exponent, so trailing zeros are not budgeted (scaled_integer/to_chars.h)",
             "exponent >= 0, value ending in zeros, buffer shorter than the number but longer than the zeros, release build (debug build asserts)", ["C13", "C14"]),
 "M-C14-1": ("C14", "to_chars(scaled_integer): working significand chosen by sizeof(Rep) instead of digits (scaled_integer/to_chars.h)",
             "unsigned 64-bit rep (uint64_t, unsigned long long, elastic/wide 64 unsigned) with the top bit set: printed negative", ["C14", "C13"]),
 "M-C15-1": ("C15", "scan_base counts separators after the radix point as fractional digits (parse.h)",
             "_cnl/_cnl2 literal with a fractional part and a digit separator after the point", ["C15"]),
 "M-C16-1": ("C16", "fraction ordering: cross_product_reverses_order computed as lhs*rhs < 0 (fraction/operators.h)",
             "int or wider components, |d1*d2| >= 2^31 while the cross products fit (signed overflow in the new product)", ["C16"]),
 "M-C18-1": ("C18", "countl_zero(unsigned long long) loses its zero guard (bit.h)",
             "operand type exactly unsigned long long (not uint64_t), value 0 reaching __builtin_clzll (also via log2p1/ceil2/countr_used)", ["C18", "C16"]),
 "M-C19-1": ("C19", "sqrt(scaled_integer) result exponent (Exponent-1)/2 instead of Exponent/2 (scaled_integer/sqrt.h)",
             "strictly positive even exponent", ["C19"]),
 "M-C05-2": ("C05", "elastic subtract digit rule: max(Ld + Ls, Rd + Rs) instead of max(Ld, Rd) + (Ls | Rs) (elastic_tag/policy.h)",
             "mixed signedness, the unsigned operand has strictly more digits, operand values near the extremes", ["C05"]),
 "M-C06-2": ("C06", "is_overflow<shift_left_op, negative>: rhs < positive_digits instead of <= (overflow/is_overflow.h)",
             "left operand exactly -1, count == digits of the result type (31/63): a false negative overflow under throwing/trapping", ["C06", "C07"]),
 "M-C07-2": ("C07", "is_overflow<shift_left_op, positive> flattened, losing the rhs > 0 guard: lhs >> (positive_digits - 0) (overflow/is_overflow.h)",
             "unsigned left operand at least int wide, positive, shift count exactly 0 (shift by the full width: UB, masked on x86 into a false overflow)", ["C07", "C06"]),
 "M-C08-2": ("C08", "tie_to_pos_inf division: (rhs - neg)/2 rewritten as rhs/2 - neg (rounding/tie_to_pos_inf_rounding_tag.h)",
             "tie_to_pos_inf, negative exact quotient, odd divisor magnitude r, |a| mod r == (r+1)/2", ["C08"]),
 "M-C09-2": ("C09", "neg_inf scaled->coarser conversion narrows the rep before the right shift (scaled_integer/convert_operator.h)",
             "neg_inf_rounding_tag, destination rep narrower than the source rep, source rep value not fitting the destination rep", ["C09"]),
 "M-C11-2": ("C11", "the same change as M-C08-2, proposed independently for the static_integer/static_number property",
             "explicit / on a static_integer/static_number with tie_to_pos_inf rounding, operands as for M-C08-2", ["C11", "C08"]),
 "M-C13-2": ("C13", "integer to_chars_non_zero: the `length < 2` guard before writing '-' removed (charconv/to_chars.h)",
             "negative value of a signed integer-family type and an EMPTY buffer (first == last): '-' and every digit written past last", ["C13"]),
 "M-C14-2": ("C14", "integer to_chars no longer converts the value to native rounding before digit generation (charconv/to_chars.h)",
             "rounding_integer / static_integer with nearest or tie_to_pos_inf rounding passed to to_chars, a non-leading digit d with 2d >= base", ["C14", "C13"]),
 "M-C01-2": ("C01", "scaled rep-level unary operator gains a trailing return type Rep: -rep narrowed back to the rep (scaled/unary_operator.h)",
             "rep narrower than int: every non-zero value of uint8/uint16 reps, the most negative value of int8/int16 reps; the result type changes too", ["C01", "C12"]),
 "M-C02-2": ("C02", "elastic policy<modulo_op>: is_signed = LhsIsSigned only (elastic_tag/policy.h)",
             "unsigned elastic dividend, signed elastic divisor with a negative value, |a| >= |b|", ["C02", "C05"]),
 "M-C03-2": ("C03", "builtin OP wrapper comparison converts the integer with static_cast<Rhs> instead of from_value<Rhs> (wrapper/comparison_operator.h)",
             "built-in integer as the LEFT operand whose value does not fit the right operand's type (narrow rep, negative exponent, negative vs unsigned)", ["C03", "C12"]),
 "M-C04-2": ("C04", "integer->integer scaled conversion: arithmetic right shift fast path for wide built-in sources (scaled/convert_operator.h)",
             "signed built-in rep wider than int, radix 2, destination exponent greater than the source's, negative value with a non-zero discarded bit (floors instead of truncating)", ["C04"]),
 "M-C12-2": ("C12", "assign_bitwise_xor_op::binary = bitwise_or_op (custom_operator/op.h)",
             "a ^= b on any CNL wrapper with operands sharing a set bit", ["C12"]),
 "M-C15-2": ("C15", "make_from_udl descales through std::int64_t instead of the parsed significand type (elastic_scaled_integer.h)",
             "_cnl/_cnl2 token needing more than 63 bits (value reduced mod 2^64, or the literal stops compiling when the low 64 bits are zero)", ["C15"]),
 "M-C16-2": ("C16", "hash skips canonical() for fractions already in lowest terms (fraction/hash.h)",
             "fraction in lowest terms with a negative denominator compared with an equal fraction", ["C16"]),
 "M-C18-2": ("C18", "rotr: the second `% width` of the complementary shift removed (bit.h)",
             "32/64/128-bit operand and a count that is a multiple of the width (incl. 0): shift by the full width (UB; no wrong value on x86-64 at run time)", ["C18"]),
 "M-C19-2": ("C19", "integer sqrt: start bit mask ~1 replaced by 0x7e (cmath/sqrt.h)",
             "integer type with more than 128 digits (wide_integer<N>, N > 128, or a scaled/elastic type over it), operand >= 2^72", ["C19"]),
 "M-C06-3": ("C06", "GCC intrinsic path: overflow_polarity<add_op> says negative only when BOTH operands are negative (overflow/builtin_overflow.h)",
             "g++ only; + with one signed and one unsigned built-in operand, unsigned result, exactly one operand negative and the exact sum below 0: saturates to the maximum / reports positive overflow", ["C06", "C07", "C12"]),
 "M-C07-3": ("C07", "GCC intrinsic path: multiply 'fast path' result = lhs * rhs when sizeof(Lhs)+sizeof(Rhs) <= sizeof(Result) (overflow/builtin_overflow.h)",
             "g++ only; uint16_t * uint16_t (promoted to int, 31 value bits) with a product >= 2^31: signed overflow inside the detection routine, no overflow reported", ["C07", "C06", "C12"]),
 "M-C08-3": ("C08", "nearest division rewritten as lhs / rhs + (lhs % rhs) * 2 / rhs (rounding/nearest_rounding_tag.h)",
             "reps at least as wide as int, |lhs % rhs| > max/2 (both operands in the top half of the range, quotient about 0.5..2): the doubled remainder overflows", ["C08", "C11"]),
 "M-C09-3": ("C09", "the tie_to_pos_inf step2 slip of M-C08-2 in a slightly different spelling, proposed for the conversion property (rounding/tie_to_pos_inf_rounding_tag.h)",
             "scaled_integer over a rounding_integer<_, tie_to_pos_inf> rep with an ODD radix (3, 5): conversions to a coarser exponent divide by radix^n with the tag's divide operator", ["C09", "C08"]),
 "M-C11-3": ("C11", "nearest floating->integer conversion adds 0.5 in double instead of long double (rounding/convert_operator.h) — the change of M-C09-1 restricted to double, proposed for static_integer/static_number",
             "double source: the largest double below one half, or an odd integer in [2^52, 2^53) (needs >= 53 digits)", ["C11", "C09"]),
 "M-C13-3": ("C13", "integer to_chars_capacity: digits * 3 / 10 + 1 instead of digits * log10(2) + 1 (charconv/to_chars_capacity.h)",
             "signed wide_integer with 103, 113, ... 193, 196, 203, ... digits, negative value of maximum length: to_chars_static's buffer is one character short", ["C13", "C14"]),
 "M-C14-3": ("C14", "scaled to_chars_capacity: num_digits_to_binary(radix 10) rounds down (scaled_integer/to_chars_capacity.h)",
             "radix 10, positive exponent, int8/uint64/int128 reps at particular exponents, value filling the capacity: to_chars_static/to_string/operator<< print a truncated scientific form", ["C14", "C13"]),
 "M-C01-3": ("C01", "set_digits: the signed 15/16 digit boundary copied from the unsigned one, so 16 signed digits get int16_t (num_traits/set_digits.h)",
             "scaled_integer over elastic_integer with Narrowest int8_t/int16_t and a result of exactly 16 digits (8x8 product, 15+15 sum), |result rep| >= 2^15", ["C01", "C05"]),
 "M-C02-3": ("C02", "vendored multi-limb back end: the remainder of uintwide_t::operator%= takes the sign of the divisor (ckormanyos/uintwide_t.h)",
             "scaled_integer over a signed wide_integer<N> with N > 127 (multi-limb), operands of opposite sign, non-zero remainder", ["C02", "C10"]),
 "M-C03-3": ("C03", "mixed-type wide_integer comparison aligns both reps in a common-width rep with the LEFT operand's signedness (wide_integer/custom_operator.h)",
             "two different wide_integer instantiations, unsigned left and wider signed right (uint32 vs int64 reps), negative right value", ["C03", "C12"]),
 "M-C05-3": ("C05", "from_value<elastic_integer<D, Narrowest>, Value> keeps the target's Narrowest instead of the value's signedness (elastic_integer/from_value.h)",
             "elastic operand with an unsigned Narrowest combined with a built-in signed integer that is negative at run time", ["C05", "C03", "C01"]),
 "M-C12-3": ("C12", "the change of M-C03-2 (static_cast<Rhs> for a built-in left operand of a comparison) proposed independently for the native-tag property (wrapper/comparison_operator.h)",
             "plain integer on the left whose value does not fit the wrapper's rep (a wider built-in type than the rep)", ["C12", "C03"]),
 "M-C15-3": ("C15", "make_char_to_digit_negative(16): upper-case digits use ('a' - 10) - c (parse.h)",
             "run-time parse<T>(char const*) / CNL_INTMAX_C of a NEGATIVE hexadecimal token with an upper-case digit", ["C15"]),
 "M-C16-3": ("C16", "fraction -> floating conversion divides in double and casts (fraction/definition.h)",
             "float target with a component needing more than 24 bits, or long double target with a quotient not exact in double", ["C16"]),
 "M-C18-3": ("C18", "cnl::used_digits delegates to _impl::used_digits, which picks the algorithm by std::is_signed of the unwrapped rep (numeric.h)",
             "negative value of a signed number whose innermost rep is a class type (wide_integer<N>, N > 127): 0 used digits, leading_bits = full width", ["C18", "C06"]),
 "M-C19-3": ("C19", "sqrt(elastic_integer) result digits = width / 2 instead of (Digits + 1) / 2 (elastic_integer/sqrt.h)",
             "unsigned Narrowest with an odd digit count: the root needs one more digit than the result type declares", ["C19", "C05"]),
 "M-C04-3": ("C04", "cross-radix integer->integer conversion: the four ordered scalings collapsed into destination-first, source-second (scaled/convert_operator.h)",
             "source and destination of different radix, both exponents positive, source rep not a multiple of DestRadix^DestExponent (the division now precedes the multiplication)", ["C04"]),
 "M-C01-4": ("C01", "power_value_fn integer odd-exponent step gains a trailing return type S: Radix^E wraps in narrow reps (power_value.h)",
             "radix other than 2, rep narrower than int, exponent gap d with Radix^d not representable in the rep (d >= 3 for 8-bit, >= 5 for 16-bit reps, radix 10)", ["C01", "C04"]),
 "M-C04-4": ("C04", "the same collapse of the cross-radix conversion as M-C04-3, found independently (scaled/convert_operator.h)",
             "as M-C04-3", ["C04"]),
 "M-C05-4": ("C05", "elastic binary operator: operand_rep widened for the divisor only (elastic_tag/custom_operator.h)",
             "% with a dividend of more digits than the divisor and than the result's storage type, dividend value using its high bits", ["C05", "C02"]),
 "M-C06-4": ("C06", "measure_polarity de-templated to take std::intmax_t (polarity.h)",
             "g++ only; checked * with a uint64_t operand >= 2^63 (or a 128-bit operand outside the int64 range) and an overflowing product: saturates to 0 / reports negative overflow / 'CNL internal error'", ["C06", "C07", "C12"]),
 "M-C07-4": ("C07", "is_overflow<shift_left_op, positive> judges static_cast<int>(rhs) (overflow/is_overflow.h)",
             "positive left operand and a shift count whose type holds a value not representable in int (unsigned >= 2^31, 64-bit >= 2^32): the native out-of-range shift is executed", ["C07", "C06"]),
 "M-C09-4": ("C09", "nearest scaled->coarser conversion: half() = unit / Radix instead of unit / 2 (scaled_integer/convert_operator.h)",
             "radix other than 2 (10, 3, 4), discarded part at least half a destination unit", ["C09"]),
 "M-C11-4": ("C11", "numeric_limits<wide_integer>::max()/lowest(): shift count taken modulo the narrowest type's width (wide_integer/numeric_limits.h)",
             "single-word wide/static integers whose narrowest type is int8/int16 and whose digits leave a whole narrowest-width of the rep unused (e.g. static_integer<20, ..., int8_t>): limits too wide, out-of-range values pass the overflow checks", ["C11", "C10", "C05"]),
 "M-C12-4": ("C12", "assign_modulo_op::binary = divide_op (custom_operator/op.h)",
             "a %= b on any CNL wrapper", ["C12"]),
 "M-C13-4": ("C13", "fill(scientific) writes an explicit exponent sign, also '+', which solve_scientific never counted (scaled_integer/to_chars.h)",
             "scientific layout with a non-negative decimal exponent in a buffer short enough that the significand is truncated, release build: one byte written at *last, ptr == last + 1", ["C13", "C14"]),
 "M-C02-4": ("C02", "make_scaled_integer(fraction): the quotient's signedness taken from the dividend only (scaled_integer/named.h)",
             "quotient() of an unsigned dividend and a signed divisor with a negative value: result rep unsigned, e.g. quotient(uint32{8}, int32{-2}) == 0", ["C02"]),
 "M-C03-4": ("C03", "fine OP coarse comparison specialisation widens the coarse operand in a type derived from the LEFT rep (scaled_integer/operators.h)",
             "operand with the smaller exponent on the left and reps that differ in signedness or width, boundary values", ["C03", "C12"]),
 "M-C08-4": ("C08", "the neg_inf divide specialisation constrained to signed Lhs: unsigned dividends fall back to the truncating division (rounding/neg_inf_rounding_tag.h)",
             "neg_inf, unsigned dividend with a signed divisor of a rank that makes the common type signed (uint8/uint16 with any signed, uint32 with int64), negative divisor, inexact division", ["C08"]),
 "M-C15-4": ("C15", "digits_v<constant<Value>> computed from std::max(Value, -Value) (constant.h)",
             "constant<> whose template argument has an unsigned type of at least int rank (5U, sizeof(x), std::size_t{..}): digits become the full type width; make_elastic_integer / make_elastic_scaled_integer of it too", ["C15", "C05"]),
 "M-C18-4": ("C18", "generic popcount gains a run-time fast path __builtin_popcountll(static_cast<unsigned long long>(x)) under !is_constant_evaluated() (bit.h)",
             "unsigned __int128 operand with a bit set in the upper 64 bits, evaluated at run time (constant evaluation stays correct, so static_assert tests cannot see it)", ["C18"]),
 "M-C19-4": ("C19", "sqrt(scaled_integer) result type drops the operand's radix (scaled_integer/sqrt.h)",
             "radix other than 2 with a non-zero even exponent", ["C19"]),
 "M-C14-4": ("C14", "descale: the two sign-specific room tests replaced by one (n > limit || n < -limit) (charconv/descale.h)",
             "unsigned significand type (reps of 64 or more unsigned digits): -limit wraps, the test is always true, the significand is never scaled up: 1.5 prints as 1; a uint64 rep with a positive exponent loops forever", ["C14", "C13"]),
 "M-C16-4": ("C16", "reduce() skips the gcd when the numerator is zero (fraction/reduce.h)",
             "numerator 0 and |denominator| >= 2: reduce(0/5) stays 0/5, canonical(0/-5) is 0/5, equal fractions hash differently", ["C16"]),
 "M-C20-1": ("C20", "e_v is built through constant_with_fallback<double> from e_v<double>: 64-bit reps with 52..62 fractional digits fall through to the 1/n! series, which is 8-10 units low (scaled_integer/numbers.h)",
             "std::numbers::e_v<scaled_integer<Rep, power<E>>> with a 64-bit Rep and -62 <= E <= -52 (no operand: the constant itself)", ["C20"]),
 "M-C20-2": ("C20", "make_largest_ufraction takes its exponent from the signed digit count minus one: for unsigned reps the all-fraction intermediate only covers [0, 0.5) (scaled_integer/math.h)",
             "exp2 on scaled_integer<uint8_t or uint16_t, power<E>>, E < 0, non-integral x", ["C20"]),
 "M-C10-1": ("C10", "uintwide_t::operator%=: the remainder is negated when the signs differ (the quotient's condition) instead of when the dividend is negative (ckormanyos/uintwide_t.h)",
             "signed multi-limb wide_integer, negative divisor, non-zero remainder: 7 % -2 == -1", ["C10", "C02"]),
 "M-C10-2": ("C10", "4-limb multiplication fast path tests b[2] twice and never b[3]: the lo(a0*b3) term is dropped (ckormanyos/uintwide_t.h)",
             "wide_integer<193..256, uint64_t> (4 limbs), left < 2^128, right with limb 2 zero and limb 3 non-zero: 3 * 2^192 == 0", ["C10"]),
 "M-C17-1": ("C17", "make_fraction: the denominator clamp of the accelerated mediant step compares with the UNSIGNED type's maximum, so the denominator wraps negative (fraction/make_fraction.h)",
             "fraction<int32_t> from double such as pi/54 (the search reaches the denominator clamp)", []),
 "M-C10-3": ("C10", "uintwide_t::shl takes the whole-limb part of the shift count from static_cast<std::uint_fast8_t>(n): x << n is computed as x << (n mod 256) (ckormanyos/uintwide_t.h)",
             "multi-limb wide_integer wider than 256 bits, left-shift count in [256, width)", ["C10"]),
 "M-C04-5": ("C04", "eval_divide_knuth_core, branch d == 1: the limb cleared above the numerator is indexed with v_offset instead of u_offset, zeroing a real numerator limb (ckormanyos/uintwide_t.h)",
             "narrowing the exponent of a scaled_integer over a multi-limb wide_integer by 63, 95, 127, ... (divisor 2^k whose top limb is 0x80000000), |rep| >= 2^(k+1)", ["C04", "C10", "C02"]),
 "M-C01-5": ("C01", "generic eval_multiply_n_by_n_to_lo_part: the outer loop stops one row early, dropping a[count-1]*b[0] (ckormanyos/uintwide_t.h)",
             "scaled_integer over a multi-limb wide_integer (any limb count but 4) with a negative rep (or one using the top limb): a*b, and a+b / a-b with different exponents (alignment multiplies)", ["C01", "C10"]),
 "M-C08-5": ("C08", "tie_to_pos_inf divide: step2 de-templated, so the negated operands of the negative-divisor branch are narrowed back to Lhs / Rhs (rounding/tie_to_pos_inf_rounding_tag.h)",
             "tie_to_pos_inf, negative divisor, 8/16-bit operands whose negation does not fit the operand type (int8 -128 / -3, uint8 200 / int8 -3)", ["C08", "C11"]),
 "M-C13-5": ("C13", "to_chars_positive accepts a scientific layout with zero significand digits (>= 0 instead of > 0) (scaled_integer/to_chars.h)",
             "tiny scaled_integer value, buffer of exactly sign + 2 + exponent characters: fill(scientific) copies a reversed range (wild write)", ["C13", "C14"]),
 "M-C06-5": ("C06", "is_overflow<add_op, positive>: std::min instead of std::max of the operands' digits in the can-it-overflow-at-all test (overflow/is_overflow.h)",
             "Clang builds (portable path), + with operands of different width, exact sum above the result type's maximum: uint8 1 + uint32 4294967295 saturates to 0", ["C06", "C07", "C12"]),
 "M-C09-5": ("C09", "neg_inf floating -> integer conversion: the sign guard of the floor correction tests the truncated value instead of the source (rounding/convert_operator.h)",
             "neg_inf_rounding_tag, floating source strictly inside (-1, 0): convert<neg_inf, int>(-0.5) == 0", ["C09", "C08"]),
 "M-C15-5": ("C15", "make_scale_op_chunk for base 2 scales by 2^64 instead of 2^63 between 63-digit chunks (parse.h)",
             "binary literal with at least 64 digits: 0b1 followed by 63 zeros parses as 2^64", ["C15"]),
 "M-C14-5": ("C14", "itoc: value <= 10 instead of < 10, so digit ten prints as ':' (charconv/to_chars.h)",
             "integer to_chars / to_chars_static with base >= 11 and a digit ten in the numeral: to_chars(10, base 16) == \":\"", ["C14", "C13"]),
 "M-C02-5": ("C02", "elastic binary operator: operands cast to a type holding the result and the RIGHT operand only; the dividend of % is truncated (elastic_tag/custom_operator.h)",
             "elastic_scaled_integer % with a dividend that needs a wider machine type than the remainder (40 digits % 7 digits; 12 % 3 digits over int8_t)", ["C02", "C05"]),
 "M-C07-5": ("C07", "is_overflow<multiply_op, positive>: rhs >= 0 instead of rhs > 0 in front of max() / rhs: the predicate divides by zero (overflow/is_overflow.h)",
             "portable path (Clang builds, or class-type reps under GCC), non-widening product, lhs > 0 and rhs == 0", ["C07", "C06"]),
 "M-C05-5": ("C05", "policy<modulo_op>: is_signed = LhsIsSigned (the same edit as M-C02-2, proposed independently for C05) (elastic_tag/policy.h)",
             "unsigned elastic dividend, signed divisor with a negative value", ["C05", "C02"]),
 "M-C11-5": ("C11", "postfix ++ / -- of the overflow layer re-dispatch += 1 with the default (native) tag instead of the overflow tag (overflow/custom_operator.h)",
             "x++ at max() or x-- at lowest() of a static_integer / overflow_integer: 7++ == 8 under saturated, no exception under throwing", ["C11", "C06", "C07", "C12"]),
 "M-C19-5": ("C19", "integer sqrt start bit computed from width<Integer> - 2 instead of digits - 1: two bits too low for unsigned types with an odd digit count (cmath/sqrt.h)",
             "unsigned integer type with an odd digit count (wide_integer<7, unsigned>, elastic / static over it), operand in the upper half of the range: sqrt(64..127) == 7", ["C19"]),
 "M-C18-5": ("C18", "countl_rsb(long long) calls __builtin_clrsb instead of __builtin_clrsbll: only the low 32 bits are counted (bit.h, GCC specialisation)",
             "GCC configuration, T exactly long long (int64_t is long here): countl_rsb / countl_rb / countr_used of any value", ["C18"]),
 "M-C10-4": ("C10", "Knuth division, step D3: the q_hat correction loop exits on < instead of <=, so q_hat is decremented once more on equality (ckormanyos/uintwide_t.h)",
             "multi-limb wide_integer, divisor of at least two limbs, operands hitting the equality (exact multiples of a 2-limb divisor, (v << k*limb_bits) / v): (5*v)/v == 4", ["C10", "C02"]),
 "M-C01-6": ("C01", "elastic scale<> (non-negative shift): the intermediate type of rep * 2^shift chosen from digits + shift - 1 (elastic_integer/scale.h)",
             "scaled_integer over elastic_integer<D> with + or - on different exponents, D + |exponent difference| exactly 32 or 64, larger-exponent rep using its top digit", ["C01", "C05", "C04"]),
 "M-C20-3": ("C20", "rounding_conversion drops its + 1: the exp2 polynomial coefficients are truncated instead of rounded to nearest (scaled_integer/math.h)",
             "exp2 on int32 formats with about 16 or more fractional digits, large fractional part, result near the top of the range: off by 2-3 units where the original is within 1", ["C20"]),
 "M-C03-5": ("C03", "uintwide_t::operator<= returns compare(other) < 0 (ckormanyos/uintwide_t.h)",
             "two EQUAL multi-limb wide_integer values (or scaled_integer over them): a <= b is false", ["C03", "C10", "C12"]),
 "M-C16-5": ("C16", "fraction operator/: denominator lhs.denominator * rhs.numerator written as rhs.denominator * rhs.numerator (fraction/operators.h)",
             "division of fractions with different denominators: (1/2) / (1/3) == 3/3", ["C16"]),
 "M-C12-5": ("C12", "built-in << / >> wrapper gains a trailing return type Lhs: the promoted result is narrowed back to the left operand's type (wrapper/shift_operator.h)",
             "built-in left operand narrower than int shifted by a native-tag wrapper: uint8_t{200} << W{1} == 144, and the result type is uint8_t", ["C12"]),
 "M-C04-6": ("C04", "elastic scale<> (negative shift): the divisor 1 << k built in a type of WIDTH k + 1, one digit short for signed narrowest types (elastic_integer/scale.h)",
             "scaled_integer over a signed elastic_integer<N>, N > 31, conversion dropping exactly 31 (or 63) binary digits: 5.75 -> -5", ["C04", "C09", "C01"]),
 "M-C18-6": ("C18", "trailing_bits of a signed value counts on static_cast<std::uintmax_t>(n), a 64-bit type (numeric.h)",
             "cnl::trailing_bits<cnl::int128_t> of a non-zero value with 65 or more trailing zero bits: 1 << 100 gives 64", ["C18"]),
 "M-C15-6": ("C15", "the same edit as M-C18-6 (std::uintmax_t in trailing_bits), proposed independently for the deduction-from-constants clause (numeric.h)",
             "make_elastic_scaled_integer / make_static_number / make_scaled_integer of a constant wider than 64 bits with more than 64 trailing zero bits: 2^70 deduces power<64>", ["C15", "C18"]),
 "M-C06-6": ("C06", "overflow_polarity<subtract_op> mirrored: rhs == 0 moved to the positive side (overflow/builtin_overflow.h, GCC path)",
             "GCC build, signed - unsigned of at least int rank, lhs < 0 and rhs == 0: int{-1} - 0u saturates to 4294967295", ["C06", "C07", "C12"]),
 "M-C14-6": ("C14", "to_chars_non_zero: static_cast<number>(-value) narrows the magnitude of a negative value back to the operand type (charconv/to_chars.h)",
             "std::int8_t{-128} or std::int16_t{-32768}: prints characters below '0'", ["C14", "C13"]),
 "M-C13-6": ("C13", "num_digits_to_binary, case 8: (num_digits + 2) / 3 (the inverse function's formula) instead of num_digits * 3 (scaled_integer/to_chars_capacity.h)",
             "scaled_integer with radix 8 and a positive exponent printed through to_chars_static / to_string / operator<<: capacity 4 instead of 14 for uint8 power<12, 8>", ["C13", "C14"]),
 "M-C08-6": ("C08", "neg_inf divide: the remainder != 0 guard of the floor correction dropped (rounding/neg_inf_rounding_tag.h)",
             "neg_inf_rounding_tag, negative divisor, exactly divisible operands (incl. 0): 6 / -3 == -3", ["C08", "C11"]),
 "M-C11-6": ("C11", "the same edit as M-C03-1 (left operand of a mixed-exponent comparison widened from the RIGHT rep), proposed independently for the composite types (scaled_integer/operators.h)",
             "comparison of two static_numbers with different exponents, coarser and wider operand on the left: wrong truth value (native tag) or a spurious overflow signal", ["C11", "C03", "C12"]),
 "M-C05-6": ("C05", "the same edit as M-C03-1, proposed independently for elastic_scaled_integer comparisons (scaled_integer/operators.h)",
             "elastic_scaled_integer<30, power<0>> compared with elastic_scaled_integer<4, power<-2>>, left value at least 2^29", ["C05", "C03", "C12"]),
 "M-C09-6": ("C09", "the neg_inf scaled_integer -> plain integer converter forwards to the tie_to_pos_inf converter (copy-paste tag) (scaled_integer/convert_operator.h)",
             "convert<neg_inf_rounding_tag, int> of a scaled_integer with a negative exponent and a fractional part of at least 1/2: 5.5 -> 6", ["C09", "C08"]),
 "M-C07-6": ("C07", "the same edit as M-C11-5 (postfix ++ / -- of the overflow layer re-dispatched with the default tag), proposed independently for the UB-freedom property (overflow/custom_operator.h)",
             "a++ at max() / a-- at lowest() of an overflow_integer with a signed rep: INT_MAX + 1 executed as native signed arithmetic", ["C07", "C06"]),
 "M-C19-6": ("C19", "eval_subtract_n: the borrow taken as the whole high half of the double-limb difference (255) instead of 1 (ckormanyos/uintwide_t.h)",
             "cnl::sqrt on a multi-limb wide_integer (D > 128), any operand above 2^64: the remainder update num -= root + bit borrows across a limb", ["C19", "C10", "C01"]),
 "M-C02-6": ("C02", "Knuth division, step D6: the add-back no longer decrements q_hat, so the stored quotient limb is one too high while the remainder is right (ckormanyos/uintwide_t.h)",
             "scaled_integer over a multi-limb wide_integer, divisor of at least two limbs in an add-back case: rep(a) = 2^96 + 1, rep(b) = 2^95 + 1 gives a/b == 2", ["C02", "C10"]),
 "M-C16-6": ("C16", "unary + on fraction negates the numerator (copy of unary -) (fraction/operators.h)",
             "+f for any fraction with a non-zero numerator: +(2/3) == -2/3", ["C16"]),
 "M-C20-4": ("C20", "the fix f722f16 undone: `floored <= Exponent` instead of std::cmp_less_equal (scaled_integer/math.h)",
             "exp2 on scaled_integer<uint32_t, power<E>>, E < 0: rep 1 for every input", ["C20"]),
 "M-C16-7": ("C16", "operator==(fraction, fraction) gains an early-out: equal numerators compare equal iff the denominators are equal (fraction/operators.h)",
             "both numerators zero and different denominators: 0/3 == 0/5 and 0/1 == 0/-1 are false while != is false too", ["C16"]),
 "M-C19-7": ("C19", "integer sqrt: a run-time shortcut through std::sqrt(double) for built-in types of at most 8 bytes, guarded by !std::is_constant_evaluated() (cmath/sqrt.h)",
             "run-time evaluation, a 64-bit rep and a value above 2^53 that rounds up into a perfect square: sqrt(2^64 - 1) == 2^32, sqrt(r*r - 1) == r for r > 2^27", ["C19"]),
 "M-C07-7": ("C07", "the trapping tag's negative-overflow handler returns unreachable<>() instead of abort<>() (copy of undefined.h) (overflow/trapping.h)",
             "NDEBUG build, trapping_overflow_tag, an arithmetic operator overflowing downwards: 0u - 1u, INT_MIN << 1 run into __builtin_unreachable", ["C07", "C06"]),
 "M-C08-7": ("C08", "nearest divide: `if constexpr (is_unsigned_v<Lhs> || is_unsigned_v<Rhs>)` shortcut (lhs + rhs / 2) / rhs that skips the sign tests (rounding/nearest_rounding_tag.h)",
             "fundamental operands of mixed signedness whose common type is signed, the signed one negative: int8_t{-9} / uint8_t{6} == -1, uint32_t{4000000001} / int64_t{-2} == -2000000000", ["C08", "C11"]),
 "M-C20-5": ("C20", "evaluate_polynomial: a small-fraction shortcut returning a1*x + a2*x^2 when x < 2^-(digits/4) (scaled_integer/math.h)",
             "a 32-bit rep, exponent -11 or lower, fractional part in about [0.0030, 0.0039), integer part at the top of the range: exp2 three units low", ["C20"]),
 "M-C10-5": ("C10", "uintwide_t::predecrement: the borrow loop tests (*it++ + 1U) == 0U instead of comparing with the limb type's max: never true for promoted 8/16-bit limbs (ckormanyos/uintwide_t.h)",
             "--x / x-- on a multi-limb wide_integer with 8- or 16-bit limbs and a lowest limb of zero: --256 == 511", ["C10"]),
 "M-C11-7": ("C11", "neg_inf divide: the floor correction looks at the remainder's sign only and ignores the divisor's (rounding/neg_inf_rounding_tag.h)",
             "static_integer / static_number with neg_inf_rounding_tag, negative divisor, inexact quotient: 7 / -2 == -3", ["C11", "C08"]),
 "M-C03-6": ("C03", "common_elastic_type: max(Digits1, Digits2) - 1 digits for the type both operands of a mixed elastic comparison are cast to (elastic_integer/custom_operator.h)",
             "two different elastic_integer types whose larger digit count is one above a rep boundary (8, 16, 32, 64), wider operand using its top digit: elastic<32, unsigned>{4000000000} < elastic<31>{-1}", ["C03", "C05", "C12"]),
 "M-C12-6": ("C12", "mixed-exponent + - & | ^: the right operand aligned with scale<shift> (default radix 2) instead of scale<shift, Radix> (scaled/binary_operator.h)",
             "radix other than 2, different exponents with the right operand the coarser one: 1.25 + 0.5 at power<-2,10> / power<-1,10> == 1.35", ["C12", "C01"]),
 "M-C01-7": ("C01", "operator-(power, power) drops Radix from the result tag (scaled/definition.h)",
             "binary - on scaled_integer with a radix other than 2: the difference is wrapped as power<min, 2>", ["C01", "C02"]),
 "M-C04-7": ("C04", "power_value_fn for radices other than 2 gains a trailing return type S: Radix^E wraps in the source rep (power_value.h)",
             "radix other than 2, 8 or 16-bit source rep, Radix^|exponent difference| not fitting it: int8_t 5 at power<0,10> -> power<-3,10> gives rep -120", ["C04", "C01", "C09"]),
 "M-C05-7": ("C05", "set_digits: the signed 15/16 digit boundary takes the unsigned pair's numbers (the same slip as M-C01-3, proposed independently) (num_traits/set_digits.h)",
             "signed 16-digit elastic result with an int8_t / int16_t narrowest, magnitude above 32767: elastic_integer<8, int8_t>{255} squared == -511", ["C05", "C01"]),
}


# id -> what happened when the change was first run against the checks, and what was strengthened because of it
HIST = {
 "M-C10-2": "missed at first (limb arithmetic was declared undecided): the limb algebra (vlib/limbalg.py) was written for it; C10 now re-expresses + - * unary- ++ -- << >> of 8 (q) / 70 multi-limb instantiations as integer polynomials over the limbs and reports this change with a counterexample on the fast path (b2 == 0, b3 != 0)",
 "M-C18-6": "missed at first (the two-word dependence rule sees the high word in the `value ? ... : 0` test): width rule added (the countr_zero reached from trailing_bits<T> works on the unsigned type of T's width, 8 types)",
 "M-C15-6": "reported by C18's width rule (added for M-C18-6), not by C15, whose deduction facts stop at 64-bit constants",
 "M-C14-6": "missed at first: rule R10 added (to_chars_non_zero of a signed type narrower than int hands the digit generator a magnitude type that can hold 2^(w-1))",
 "M-C13-6": "missed at first: the capacity facts of integral scaled types had radix 2 and 10 only; radix 8, 16 and 3 added",
 "M-C11-6": "reported by C03 and C12, which own the mixed-exponent comparison; C11's static_number lines compare equal exponents",
 "M-C05-6": "reported by C03 and C12 (as M-C11-6)",
 "M-C19-6": "reported by C10 and C01 (limb algebra: multi-limb subtraction), not by C19, which decides sqrt's types, termination and start bit and leaves the digit-by-digit values and the rep's own arithmetic to their owners",
 "M-C07-6": "identical to M-C11-5 (proposed independently): reported by the ++ / -- lines added for that change",
 "M-C02-6": "NOT reported: inside Knuth's division (see M-C04-5); the third seeded change in that function, which sub-agents reach for once everything else in the multi-limb back end is decided",
 "M-C11-7": "reported by C08, the owner of the rounding layer's division (as M-C11-2)",
 "M-C12-6": "reported by C01, which owns the mixed-exponent alignment incl. radix 10; C12's native-tag wrappers are radix 2",
 "M-C08-7": "missed at first: the direction lines pinned a divisor of the dividend's own type only. Mixed-signedness lines (six type pairs with a signed common type, wrapper and built-in divisor) added; they report it, and on the pinned tree they found defect D24 (tie_to_pos_inf negating a uint32_t dividend in its own type), fixed in 10fd667",
 "M-C20-5": "missed at first: the exp2 structure kernels cut evaluate_polynomial out as an uninterpreted function and nothing else looked inside it for x != 0. Horner kernel added (evaluate_polynomial of the 32-bit format == the degree-7 recurrence for every x); the 8/16-bit formats are not claimed (normaliser incompleteness, see the spec)",
 "M-C19-7": "reported at first as exit 2 only (analysis-broken: the run-time shortcut removes both loops from every compiled instance, so the start-bit and termination rules lost their instances). Information-flow rule added to C19: for the 64-bit reps the operand reaches the result only through a 53-bit conversion, and the rule names two operands with different roots and the same double",
 "M-C10-5": "reported by the limb algebra's -- kernels of the 8- and 16-bit limb types (C10)",
 "M-C07-7": "reported by the reachability rule: an internal unreachable state in the NDEBUG kernels of the trapping tag (C07), and by C06's handler lines",
 "M-C20-4": "reported by the exp2 structure kernels of the unsigned 32-bit reps (the defect D23 coming back)",
 "M-C10-4": "NOT reported: inside Knuth's division (see M-C04-5)",
 "M-C01-6": "missed at first: no elastic rep with digits + shift at a 32 / 64 boundary was in the matrix; six boundary pairs added (which needed one more normaliser rule: sign extension of a shift through an immaterial zero extension)",
 "M-C20-3": "missed at first (the coefficient certificate's necessary bound is 12 units, the change moves coefficients by one): rounding_conversion == round-to-nearest is now an EQ obligation over all doubles in [0, 1)",
 "M-C03-5": "reported at first only as analysis-broken (exit 2): the residue of `<=` is non-zero only for EQUAL operands, which independent random limbs never are; the witness search now also tries equal and nearly equal operands",
 "M-C12-5": "missed at first: no kernel had a built-in LEFT operand shifted by a wrapper; added with the result-type facts",
 "M-C04-6": "missed at first: elastic reps narrowing the exponent by exactly 31 / 63 digits were not in the matrix; boundary conversions added",
 "M-C09-5": "missed at first (floating-point value semantics were declared undecided): the floor step of the floating -> integer conversions is now an EQ obligation (kernel == t - [x < t], t = trunc x) resting on two facts about truncation the normaliser knows; the first version of the rule raised a false alarm on the stored refactors E-C09-1/3, corrected before it was committed",
 "M-C02-5": "missed at first by C02 (reported by C05's operand-widening kernels): elastic / and % kernels whose dividend needs a wider machine type than the remainder added to C02",
 "M-C11-5": "missed at first: no check had ++ / -- of the overflow layer; prefix and postfix increment / decrement lines added to C06 and C07 (C11 establishes the layering and leaves each layer's operators to its owner)",
 "M-C05-5": "identical to M-C02-2 (proposed independently): reported by C05 and C02",
 "M-C10-3": "reported by the limb algebra (shl by W-1 on the 512-bit instantiation: counterexample)",
 "M-C04-5": "NOT reported: inside Knuth's division, whose magnitudes are the one part of the limb arithmetic the limb algebra does not decide (data-dependent trip counts, a correctness argument that is not a telescoping identity); only the sign discipline of / and % is decided",
 "M-C01-5": "reported by the multi-limb block of C01 (added with the limb algebra) and by C10's multiplication obligations",
 "M-C10-1": "reported by the sign rule G2 (written after M-C02-3)",
 "M-C17-1": "NOT reported: C17 is not applicable (the mediant search is driven by floating-point comparisons; nothing of this clamp is visible in types or code shape)",
 "M-C20-1": "reported by the constant facts (the series fall-back is 8-10 units low for the 64-bit reps it now serves)",
 "M-C20-2": "reported by the exp2 structure kernels of the unsigned reps and by the intermediate-type fact",
 "M-C05-1": "missed at first: C05 judged result types only; unary/shift EQ kernels (operand widened before the operator) added",
 "M-C07-1": "missed at first: the line matrix had no (wide dividend, narrower signed divisor) pair; type pairs stratified by (width relation, signedness); exposed defects D18/D19, repaired",
 "M-C11-1": "missed at first: storage facts (limb count / width of the wide layer incl. the sign bit) added to C11",
 "M-C12-1": "missed at first by C12 (caught by C03): mixed-exponent comparison kernels added to C12",
 "M-C13-1": "missed at first: the layout arithmetic was declared undecided; layout-contract lines added (real solvers + real selection), which also exposed defect D20, repaired",
 "M-C14-1": "missed at first: rule R5 (working significand type represents every Rep value) added",
 "M-C15-1": "missed at first: literal type/rep witnesses on a stratified token sample added",
 "M-C18-1": "missed at first: unsigned long long / long long (distinct types with their own specialisations) added to the instance matrix",
 "M-C02-2": "missed at first by C02 (caught by C05's type facts): elastic / and % kernels with every signedness pairing added to C02",
 "M-C07-2": "absorbed at first by the known finding C07-shl-zero, whose key was too coarse: shift finding keys now carry count class and lhs class, and every known finding is frozen as an explicit table of failing obligations with their deviation (known_instances.json)",
 "M-C08-2": "reported at first as analysis-broken (exit 2: lines undecided, floor): divform reads nested constant adjustments as an affine numerator; now refuted (exit 1)",
 "M-C11-2": "not caught by C11 by design: C11 establishes that division passes through the rounding layer and leaves that layer's direction to C08, which reports this change",
 "M-C14-2": "missed at first: rule R6 (no rounding division reachable from the digit generator) added",
 "M-C15-2": "reported at first as analysis-broken (exit 2: a literal stopped compiling): an uncompilable sampled literal is now a violation; fact attribution bisects unattributable diagnostics",
 "M-C19-2": "missed at first: start-bit rule for built-in and multi-word reps added",
 "M-C08-3": "reported at first as analysis-broken (exit 2): the interval domain could not invert `a rem K`; rem preimages (few periods) added, the overflow of the doubled remainder is now a refuted UB line (exit 1)",
 "M-C09-3": "reported by C08, the owner of the division operator the conversion goes through; C09's own lines are radix 2 and stay silent",
 "M-C11-3": "reported by C09 (floating-point precision rule), to which C11 leaves the rounding layer's conversions",
 "M-C13-3": "missed at first: capacity facts covered 8..128-bit integers only; digit counts of wide and elastic integers are now swept (the approximation first fails at 103 digits)",
 "M-C14-3": "reported by C13's capacity facts (the capacity of the static buffer is C13's subject); C14's own rules stay silent",
 "M-C07-3": "missed at first: no pair of sub-int unsigned operands (the one class where promotion to int does not make the product fit) was in the quick matrix; (u16,u16), (i16,u16), (i16,i16) added",
 "M-C01-3": "reported by C05 (rep selection of elastic results), not by C01, whose elastic kernels use the default Narrowest",
 "M-C02-3": "missed at first (inside the multi-limb back end, outside every kernel matrix); reported by C10 since the sign-discipline rule G2 (vlib/signflow.py: path rule over the four sign valuations of uintwide_t::operator/= and operator%=) was added; not by C02, whose kernels stop at 128-bit reps",
 "M-C03-3": "missed at first: the single-word wide_integer comparison kernels had no (unsigned, wider signed) pair; seven mixed pairs added",
 "M-C12-3": "missed at first by C12 (reported by C03): comparisons with a built-in operand of a wider type than the wrapper's rep added to C12",
 "M-C18-3": "missed at first: signedness-dispatch rule added (used_digits / leading_bits of a signed number must enter the signed algorithm, also for class-type reps)",
 "M-C04-3": "missed at first: conversions between different radices were not in the matrix; 129 cross-radix kernels added (reference: every multiplication before any division), which needed six new division/extension rewrites in the normaliser",
 "M-C04-4": "as M-C04-3",
 "M-C07-4": "missed at first: every shift line used an int count; counts of unsigned / 64-bit types added",
 "M-C09-4": "missed at first: radix != 2 was declared undecided; radix 10 and 3 nearest conversions added",
 "M-C11-4": "missed at first: numeric_limits VALUES of single-word wide/static integers with narrow narrowest types added to the type facts",
 "M-C13-4": "missed at first: fill's consumption was taken from its assertions; the whole to_chars_positive with the real fill inlined is now decided per buffer size (significand characters pinned to a literal so that fill's character-driven loop folds), and the failing assertion / the extra character is reported",
 "M-C08-4": "missed at first: neg_inf division kernels used one operand type for both sides; mixed operand-type pairs added (split into the two sign pieces of the divisor, with three new sign-aware rewrites in the normaliser)",
 "M-C15-4": "missed at first: facts on digits_v<constant<V>> / make_elastic_integer / make_elastic_scaled_integer for unsigned, long and negative arguments added",
 "M-C18-4": "missed at first: the 128-bit generic definitions are loops LLVM does not bring to intrinsic form, so no equivalence is claimed for them; a two-word dependence rule (both halves of a 128-bit operand are live in every utility's optimised kernel) now reports the truncating fast path",
 "M-C19-4": "missed at first: radix facts for the result of sqrt(scaled_integer) added",
 "M-C14-4": "missed at first: rule R8 added (no room test of descale is a constant function)",
}


# behaviour-preserving refactors (every check listed in the meta must exit 0)
E = {
 "E-C01-1": "binary_operator.h: common exponent / shifts computed through a named `_lhs_is_coarser`, template parameters reordered, local alias for the aligned operator",
 "E-C03-1": "elastic comparison: helper cast_to_common_type inlined, common_elastic_type_t alias",
 "E-C05-1": "elastic policy: `a | b` -> `(a || b) ? 1 : 0`, contribution() extracted to a namespace-scope helper, std::max written out",
 "E-C06-1": "is_overflow shift_left predicates: nested ?: -> early-return ifs",
 "E-C07-1": "intrinsic-path dispatch: switch on polarity -> const local + if chain, local alias for the common tag",
 "E-C08-1": "tie_to_pos_inf divide: the shared magnitude hoisted out of the two ?: arms (LLVM then emits llvm.abs)",
 "E-C09-1": "rounding/convert_operator.h: floor -> floor_int -> floor_residual helper chain collapsed into one function",
 "E-C11-1": "wrapper binary_arithmetic_operator.h: tag / rep types named through local aliases",
 "E-C13-1": "to_chars_positive: std::tuple comparison written as named boolean comparisons (negations kept)",
 "E-C14-1": "to_chars_positive: std::tuple comparison written as named boolean comparisons (negations dropped)",
 "E-C15-1": "parse.h: ?: -> if, bool subtraction -> conditional, switch on the sign character -> boolean arithmetic",
 "E-C16-1": "fraction ordering operators: ?: -> if/return",
 "E-C18-1": "countl_rb: tag-dispatch struct -> if constexpr",
 "E-C19-1": "integer sqrt: while -> for, root + bit hoisted into `trial`",
 "E-C01-3": "binary_operator.h: `_lhs_is_coarser` named constant, specialisations reordered, unary operator inherits the Operator",
 "E-C02-3": "scaled/definition.h: finer_exponent helper, named result_exponent, `return {}`",
 "E-C03-3": "elastic operators.h: widened_scaled_integer alias, compare_aligned helper",
 "E-C04-3": "scaled_integer/convert_operator.h: named locals shift / value / factor / widened in every branch",
 "E-C05-3": "elastic_tag policy / custom_operator: nested std::max, `|` -> `? 1 : 0`, contribution() as if/return, operands bound to named const locals",
 "E-C16-3": "fraction ordering: ?: -> if, cross products bound to locals",
 "E-C06-3": "is_overflow.h add / multiply predicates (both polarities): && chains -> early-return ifs (De Morgan, order kept), named operand_digits",
 "E-C08-3": "tie_to_pos_inf divide: step1 inlined into operator(), step2 renamed, `lhs < 0` hoisted into is_negative / tie_adjustment; native_rounding_tag bases spelled with the default tag",
 "E-C09-3": "rounding/convert_operator.h (tie and neg_inf): floor_residual / floor_int inlined into floor with named const locals",
 "E-C12-3": "wrapper unary / shift / binary operators: operate<> helper inlined, rep operator and operands named through aliases and const references",
 "E-C18-3": "bit.h: rotl / rotr shift counts hoisted into locals; countl_zero / countr_zero specialisations ?: -> if",
 "E-C10-1": "uintwide_t.h: eval_subtract_n loop body (hoisted minuend, store before the borrow update, ?: -> if/else on the inverted test); preincrement / predecrement do-while -> for with break",
 "E-C10-2": "uintwide_t.h: widening converting constructor through `(!neg) ? v : -v` and one copy/fill/negate; signed compare as `my_is_neg != other_is_neg` with a conditional result; right_shift_fill_value as if/return",
 "E-C20-1": "math.h: the requires-dispatched overload pairs of exp2m1_0to1 and fractional folded into one template each with if constexpr",
 "E-C04-4": "elastic_integer/scale.h: both shift specialisations through aliases and named locals (scaled_rep, unit, divisor); power_value.h: duplicated decltype -> unit_type alias, float square() helper inlined as `root * root`, its dead copy removed",
 "E-C12-4": "wrapper/shift_operator.h: the rep-level shift of wrapper<<builtin and wrapper<<wrapper extracted into one shift_rep<> helper; builtin<<wrapper through a named const count",
 "E-C20-3": "math.h: rounding_conversion through result_rep and a named `doubled`; make_unsigned_t; safe_multiply's widening overload through product_digits / wide_a / wide_b",
 "E-C06-4": "overflow/custom_operator.h: shift ?: chain -> early-return ifs with a hoisted common_tag alias, postfix copy renamed with a hoisted assign_operator; builtin_overflow.h: overflow_polarity add / subtract ?: -> if/return",
 "E-C20-2": "numbers.h: pi() with a hoisted n_plus_2 and n for n + 0L; constant_with_fallback ?: -> early-return if with the negated test, locals regrouped",
 "E-C10-3": "wide_tag / wide_integer glue: wide_tag_rep as a constexpr function returning type_identity (if constexpr), named rep_result before the cast, to_rep operands bound to const references, `|` -> `||`",
 "E-C01-4": "num_traits/scale.h default_scale: two requires-specialisations -> one template with if constexpr; binary_operator.h alignment constants without std::min; convert_operator.h hoisted from_value result",
 "E-C13-3": "scaled_integer/to_chars_capacity.h: num_digits_from_binary switch -> if chain; num_digits_to_binary through a bits-per-digit conditional; a redundant max removed",
 "E-C14-3": "charconv/to_chars.h: itoc ?: -> if/return; to_chars_positive ?: -> early return with an explicit nullptr test; to_chars_non_zero alias renamed, destination_length inlined, '-' through minus_char",
 "E-C18-4": "numeric.h: the trailing_bits tag-dispatch struct -> one function with if constexpr; used_digits_signed<true> ?: -> if/return",
 "E-C02-2": "named.h: result-type computation of quotient extracted into a traits class, std::max written out",
 "E-C04-2": "convert_operator.h: cross-radix steps through a mutate-in-place helper `rescale`, same-radix path through named locals",
 "E-C05-2": "elastic_integer/custom_operator.h: `|` -> `||`, aliases for result types, hoisted locals in bitwise_not and the comparison",
 "E-C06-2": "polarity.h / builtin_overflow.h / custom_operator.h (GCC path): ?: -> if chains, switch -> if chain, duplicated overflow_operator call extracted into handle_overflow<Polarity>",
 "E-C07-2": "is_overflow shift_left and divide predicates: nested ?: -> nested ifs with a named `shifted_out`, `C ? A : false` -> `C && A`",
 "E-C08-2": "neg_inf divide: helpers inlined, remainder hoisted, ?: -> if; nearest divide: bias extracted into a helper",
 "E-C09-2": "scaled_integer/convert_operator.h: bias() helper for nearest, named shift count for tie / neg_inf",
 "E-C11-2": "wide-integer.h round_up_to_multiple helper; wide_tag_rep as a constrained partial specialisation; numeric_limits shift hoisted into a helper",
 "E-C12-2": "custom_operator/definition.h compound assignment split into named steps; comparison_operator.h converted operands bound to locals",
 "E-C13-2": "to_chars.h: std::max/min written out, num_chars_truncated helper, fill loops for -> while and while(!isdigit(*out++ = *in++)) -> for(;;) with break",
 "E-C14-2": "descale: the two oob lambdas merged into one capturing closure; the two early-continue branches of the positive-exponent loop merged",
 "E-C15-2": "parse.h: strlen while -> for, parse_int64 loop restructured with continue, hoisted locals",
 "E-C18-2": "numeric.h trailing_bits tag-dispatch -> if constexpr; used_digits_signed<true> ?: -> if with a hoisted function object",
 "E-C19-2": "sqrt: start bit `(d-1) & ~1` -> `t - (t & 1)`, both loops while -> for, result types through named constants",
}


def e_rows():
    rows = index_rows_all()
    out = []
    for eid, what in sorted(E.items()):
        d = os.path.join(VERIF, "seeded", eid)
        if not os.path.isdir(d):
            continue
        m = json.load(open(os.path.join(d, "meta.json")))
        m["summary"] = what
        json.dump(m, open(os.path.join(d, "meta.json"), "w"), indent=1)
        rr = rows.get(eid, {})
        out.append((eid, m.get("property"), what, ", ".join(m.get("checks", [])), rr.get("reported_by", ""), rr.get("analysis_broken", ""), rr.get("silent", "")))
    return out


def index_rows_all():
    rows = {}
    p = os.path.join(VERIF, "seeded", "INDEX.md")
    if os.path.exists(p):
        for l in open(p):
            c = [x.strip() for x in l.strip().strip("|").split("|")]
            if len(c) >= 6 and c[0][:2] in ("M-", "E-"):
                rows[c[0]] = dict(reported_by=c[3], analysis_broken=c[4], silent=c[5])
    return rows


def index_rows():
    rows = {}
    for f in ("INDEX.md", "INDEX.all.md"):
        p = os.path.join(VERIF, "seeded", f)
        if not os.path.exists(p):
            continue
        for l in open(p):
            c = [x.strip() for x in l.strip().strip("|").split("|")]
            if len(c) >= 6 and c[0].startswith("M-"):
                rows[c[0]] = dict(reported_by=c[3], analysis_broken=c[4], silent=c[5])
    return rows


def main():
    rows = []
    for sid, (prop, summary, needs, checks) in sorted(T.items()):
        d = os.path.join(VERIF, "seeded", sid)
        if not os.path.isdir(d):
            continue
        src = "/tmp/confirm.%s.result" % sid
        dst = os.path.join(d, "confirm.txt")
        if os.path.exists(src):
            shutil.copy(src, dst)
        conf = open(dst).read() if os.path.exists(dst) else ""
        old = {}
        mp = os.path.join(d, "meta.json")
        if os.path.exists(mp):
            old = json.load(open(mp))
        m = dict(id=sid, property=prop, summary=summary, needs_to_manifest=needs, checks=checks,
                 status="confirmed" if "RESULT=confirmed" in conf else ("rejected" if "RESULT=" in conf else "unconfirmed"),
                 what_i_ran=("tools/confirm_mutant.sh %s in a scratch worktree of /repo: patch applied, whole suite rebuilt (ninja -k 0) and run with ctest, "
                             "demo.cpp compiled and run with and without the change" % sid),
                 confirmation=dict(l.split("=", 1) for l in conf.strip().split("\n") if "=" in l),
                 detected_by=index_rows().get(sid, {}).get("reported_by", old.get("detected_by", "")), history=HIST.get(sid, "reported by the owning check as first built"))
        json.dump(m, open(mp, "w"), indent=1)
        print(sid, m["status"])
        rows.append(m)
    with open(os.path.join(VERIF, "seeded", "TABLE.md"), "w") as f:
        f.write("| change | property | what was changed | what it needs to manifest | confirmed | reported by (violations, quick tier) | history |\n|---|---|---|---|---|---|---|\n")
        for m in rows:
            f.write("| %s | %s | %s | %s | %s | %s | %s |\n" % (m["id"], m["property"], m["summary"].replace("|", "/"), m["needs_to_manifest"].replace("|", "/"), m["status"], m["detected_by"], m["history"].replace("|", "/")))
    with open(os.path.join(VERIF, "seeded", "TABLE.equiv.md"), "w") as f:
        f.write("| change | anchored in | what was refactored | checks run | exit 1 | exit 2 | exit 0 |\n|---|---|---|---|---|---|---|\n")
        for row in e_rows():
            f.write("| %s | %s | %s | %s | %s | %s | %s |\n" % tuple(str(x).replace("|", "/") for x in row))


if __name__ == "__main__":
    main()
