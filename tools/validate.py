#!/opt/veriftools/pyvenv/bin/python
"""validate MANIFEST.json and evidence/*.json against the schemas (uses the tooling venv's jsonschema)"""
import json, sys, glob, jsonschema
ok = True
m = json.load(open("/verif/MANIFEST.json"))
try:
    jsonschema.validate(m, json.load(open("/root/.vp/MANIFEST.schema.json")))
    print("MANIFEST ok")
except Exception as e:
    ok = False; print("MANIFEST INVALID", e)
es = json.load(open("/root/.vp/EVIDENCE.schema.json"))
for f in sorted(glob.glob("/verif/evidence/*.json")):
    try:
        jsonschema.validate(json.load(open(f)), es)
        print(f, "ok")
    except Exception as e:
        ok = False; print(f, "INVALID", str(e)[:300])
sys.exit(0 if ok else 1)
