#!/usr/bin/env python3
"""tools/mkprompt.py <round> <Cxx> ...: create a scratch worktree /tmp/r<round>-<Cxx> of /repo's HEAD for each property and write
the sub-agent brief /tmp/r<round>-<Cxx>.prompt (property text and worktree path only: nothing from /verif).  The agent is started
with "Read the file ... and carry out the task".  Import afterwards with: cp <wt>/{patch.diff,demo.cpp,note.txt} seeded/<id>/."""
import sys, json, os, subprocess

T = '''You are helping test a verification effort for the C++20 header-only library johnmcfarlane/cnl. Your own scratch git worktree of the library is at {wt} (work ONLY there; never touch /repo or /verif, never read anything under /verif; do not use `git stash`). You have at most about 10 minutes: be decisive.

Property under test (id {pid}): {title}

Statement: {statement}

Quantifier: {quant}

Task: make ONE small source change to the library headers under {wt}/include that BREAKS this property while the library still compiles and the existing test suite still passes. The change should look like a plausible maintainer edit (an "optimisation", a "simplification", a refactoring slip, an off-by-one, a wrong type in an intermediate computation, a fast path), and it must need something specific to manifest: an unusual input, a particular type/exponent/width combination, a boundary value, a multi-step sequence, or two cooperating sites that each look fine alone - NOT something ordinary use would expose at once. Prefer sites and inputs that are a bit off the beaten track (less common instantiations, mixed signedness, 128-bit or multi-limb types, boundary digit counts, negative values, unusual radices), and be creative: avoid the most obvious mutation of the most obvious line.

Deliverables, written into {wt}:
 1. {wt}/patch.diff : `git -C {wt} diff -- include > {wt}/patch.diff` (changes to include/ only; do not edit tests).
 2. {wt}/demo.cpp : a small self-contained program (`#include <cnl/all.h>`, no test framework) that returns 0 on the ORIGINAL library and non-zero (or does not terminate within 60 s / aborts) with your change. Its FIRST line must be a comment giving the compile command, e.g. `// g++ -std=gnu++20 -O1 -I include demo.cpp` (use g++ or clang++; if you need a -D flag put it on that first line). The demo must check the property against an independent oracle (plain integer / __int128 / long double arithmetic you write yourself), printing the failing input.
 3. {wt}/note.txt : 5-10 lines: what you changed, why it is plausible, what it needs in order to manifest, which existing tests you built and ran.

How to check "existing tests still pass" cheaply: configure once `cmake -G Ninja -S {wt} -B {wt}/_build -DCMAKE_BUILD_TYPE=RelWithDebInfo -DCMAKE_CXX_FLAGS=-Wno-error > /dev/null`, then build and run only the test targets that include the header you changed (find them with `ninja -C {wt}/_build -t targets all | grep test-unit | grep <area>`), with `ninja -j4`. Many tests are static_asserts, so compiling them IS running them. Targets test-unit-index and test-unit-boost.multiprecision fail on the original too; ignore them. I will run the full suite myself afterwards; if a static_assert anywhere catches your change it will be rejected, so pick inputs/instantiations the tests do not pin down (grep the test directory for the function you touch first).

Verify the demo both ways yourself (compile+run with your change; `git -C {wt} apply -R patch.diff`, compile+run; `git -C {wt} apply patch.diff` again). Leave the worktree with the change applied. Finally reply with: the one-line description of the change, the failing input, and the demo results on both trees. Compilers: g++ 12, clang++ 14, always -std=gnu++20. No network.'''


def main():
    rnd, ids = sys.argv[1], sys.argv[2:]
    here = os.path.dirname(os.path.dirname(os.path.abspath(__file__)))
    props = {json.loads(l)["id"]: json.loads(l) for l in open(os.path.join(here, "properties.jsonl"))}
    for p in ids:
        wt = "/tmp/r%s-%s" % (rnd, p)
        if not os.path.isdir(wt):
            subprocess.run(["git", "-C", "/repo", "worktree", "add", "-q", "--detach", wt, "HEAD"], check=True)
        d = props[p]
        open(wt + ".prompt", "w").write(T.format(wt=wt, pid=p, title=d["title"], statement=d["statement"], quant=d["quantifier"]["text"]))
        print(wt + ".prompt")


if __name__ == "__main__":
    main()
