#!/usr/bin/env python3
"""setup: verify the tools the checks need are present (nothing to build)."""
import shutil, sys, subprocess, os
need = ["clang++", "g++", "opt-14", "llvm-cxxfilt-14", "python3"]
missing = [t for t in need if not shutil.which(t)]
if missing:
    print("missing tools:", missing)
    sys.exit(1)
if not os.path.isdir("/repo/include/cnl"):
    print("/repo/include/cnl not found")
    sys.exit(1)
print("setup ok")
